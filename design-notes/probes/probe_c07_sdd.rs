// Truth-table probe for C07: decision diagrams are exact, canonical and survive budget exhaustion.
use shared::sdd::{BoolOp, SddId, SddManager, SddOperationBudget};
use std::collections::HashMap;

struct Rng(u64);
impl Rng {
    fn next(&mut self) -> u64 { self.0 ^= self.0 << 13; self.0 ^= self.0 >> 7; self.0 ^= self.0 << 17; self.0 }
    fn below(&mut self, n: usize) -> usize { (self.next() % n as u64) as usize }
    fn chance(&mut self, pct: usize) -> bool { self.below(100) < pct }
}
#[derive(Clone, Debug)]
enum Fm { Lit(u32, bool), And(Box<Fm>, Box<Fm>), Or(Box<Fm>, Box<Fm>), Not(Box<Fm>), One(Vec<u32>) }
const NV: u32 = 5;
fn gen(r: &mut Rng, depth: usize) -> Fm {
    if depth == 0 || r.chance(25) { return Fm::Lit(r.below(NV as usize) as u32, r.chance(50)); }
    match r.below(8) {
        0..=2 => Fm::And(Box::new(gen(r, depth - 1)), Box::new(gen(r, depth - 1))),
        3..=5 => Fm::Or(Box::new(gen(r, depth - 1)), Box::new(gen(r, depth - 1))),
        6 => Fm::Not(Box::new(gen(r, depth - 1))),
        _ => { let mut vs: Vec<u32> = (0..NV).filter(|_| r.chance(50)).collect(); if vs.is_empty() { vs.push(0); } Fm::One(vs) }
    }
}
fn truth(f: &Fm, a: u32) -> bool {
    match f {
        Fm::Lit(v, p) => ((a >> v) & 1 == 1) == *p,
        Fm::And(x, y) => truth(x, a) && truth(y, a),
        Fm::Or(x, y) => truth(x, a) || truth(y, a),
        Fm::Not(x) => !truth(x, a),
        Fm::One(vs) => vs.iter().filter(|v| (a >> **v) & 1 == 1).count() == 1,
    }
}
fn table(f: &Fm) -> u32 { (0..(1u32 << NV)).fold(0, |t, a| if truth(f, a) { t | (1 << a) } else { t }) }
fn build(m: &mut SddManager, f: &Fm, probs: &[f64]) -> SddId {
    match f {
        Fm::Lit(v, p) => { m.ensure_variable(*v, probs[*v as usize]); m.literal(*v, *p) }
        Fm::And(x, y) => { let a = build(m, x, probs); let b = build(m, y, probs); m.apply(a, b, BoolOp::And) }
        Fm::Or(x, y) => { let a = build(m, x, probs); let b = build(m, y, probs); m.apply(a, b, BoolOp::Or) }
        Fm::Not(x) => { let a = build(m, x, probs); m.negate(a) }
        Fm::One(vs) => { for v in vs { m.ensure_variable(*v, probs[*v as usize]); } m.exactly_one(vs) }
    }
}
fn try_build(m: &mut SddManager, f: &Fm, probs: &[f64], b: &mut SddOperationBudget<'_>) -> Result<SddId, ()> {
    Ok(match f {
        Fm::Lit(v, p) => { m.ensure_variable(*v, probs[*v as usize]); m.try_literal(*v, *p, b).map_err(|_| ())? }
        Fm::And(x, y) => { let a = try_build(m, x, probs, b)?; let c = try_build(m, y, probs, b)?; m.try_apply(a, c, BoolOp::And, b).map_err(|_| ())? }
        Fm::Or(x, y) => { let a = try_build(m, x, probs, b)?; let c = try_build(m, y, probs, b)?; m.try_apply(a, c, BoolOp::Or, b).map_err(|_| ())? }
        Fm::Not(x) => { let a = try_build(m, x, probs, b)?; m.try_negate(a, b).map_err(|_| ())? }
        Fm::One(vs) => { for v in vs { m.ensure_variable(*v, probs[*v as usize]); } m.try_exactly_one(vs, b).map_err(|_| ())? }
    })
}
// the function a handle denotes, read off with 0/1 weights
fn denotes(m: &mut SddManager, id: SddId, probs: &[f64]) -> u32 {
    let vars: Vec<u32> = m.variable_ids().collect();
    let mut t = 0u32;
    for a in 0..(1u32 << NV) {
        for v in &vars { let on = (a >> v) & 1 == 1; m.set_pos_weight(*v, if on { 1.0 } else { 0.0 }); m.set_neg_weight(*v, if on { 0.0 } else { 1.0 }); }
        let w = m.wmc(id);
        if w > 0.5 { t |= 1 << a; }
        if (w - 0.0).abs() > 1e-9 && (w - 1.0).abs() > 1e-9 { t = u32::MAX; break; } // not a partition: overlapping or missing primes
    }
    for v in &vars { m.set_pos_weight(*v, probs[*v as usize]); m.set_neg_weight(*v, 1.0 - probs[*v as usize]); }
    t
}
#[test]
fn diagrams_are_exact_and_canonical() {
    let seeds: u64 = std::env::var("PROBE_SEEDS").ok().and_then(|v| v.parse().ok()).unwrap_or(400);
    let mut bad = 0;
    for seed in 1..=seeds {
        let mut r = Rng(seed.wrapping_mul(0x9E3779B97F4A7C15) | 1);
        let probs: Vec<f64> = (0..NV).map(|_| (1 + r.below(9)) as f64 / 10.0).collect();
        let mut m = SddManager::new();
        let mut by_table: HashMap<u32, SddId> = HashMap::new();
        let mut by_id: HashMap<SddId, u32> = HashMap::new();
        let mut problems = Vec::new();
        for k in 0..12 {
            let f = gen(&mut r, 3);
            let want = table(&f);
            // sometimes under a small budget first: must either agree or fail, and leave the manager usable
            let mut id = None;
            if r.chance(40) {
                let mut calls = 0usize;
                let limit = 1 + r.below(12);
                let mut ok = move || { calls += 1; calls < limit };
                let cap = m.node_count() + r.below(6);
                let mut b = SddOperationBudget::new(cap, &mut ok);
                if let Ok(x) = try_build(&mut m, &f, &probs, &mut b) { id = Some(x); }
            }
            let full = build(&mut m, &f, &probs);
            if let Some(x) = id { if x != full { problems.push(format!("formula {} budgeted handle {:?} != unbudgeted {:?}", k, x, full)); } }
            let got = denotes(&mut m, full, &probs);
            // variables not yet introduced are "don't care" for the diagram: compare on the introduced ones only (the formula cannot mention others)
            if got != want { problems.push(format!("formula {} {:?} denotes {:#x} want {:#x}", k, f, got, want)); }
            if let Some(prev) = by_table.get(&want) { if *prev != full { problems.push(format!("formula {}: same function, handles {:?} and {:?}", k, prev, full)); } }
            if let Some(prev) = by_id.get(&full) { if *prev != want { problems.push(format!("formula {}: handle {:?} shared by different functions", k, full)); } }
            by_table.entry(want).or_insert(full);
            by_id.insert(full, want);
            // weighted model count
            let wmc = m.wmc(full);
            let sum: f64 = (0..(1u32 << NV)).filter(|a| want & (1 << a) != 0).map(|a| (0..NV).map(|v| if (a >> v) & 1 == 1 { probs[v as usize] } else { 1.0 - probs[v as usize] }).product::<f64>()).sum();
            // variables the manager does not know yet contribute a factor of one either way
            if (wmc - sum).abs() > 1e-9 { problems.push(format!("formula {} wmc {} want {}", k, wmc, sum)); }
        }
        if !problems.is_empty() { bad += 1; println!("seed {} probs {:?}\n  {:?}", seed, probs, &problems[..problems.len().min(3)]); }
    }
    println!("sdd: checked {} managers, {} discrepancies", seeds, bad);
}

// Probe (not a registered check): a quoted triple is kept in the tree as its raw source slice and re-tokenised by
// SparqlDatabase::split_quoted_triple_content. Does layout inside << >> change what is stored / matched?
use kolibrie::execute_query::{execute_sparql_query, execute_sparql_update};
use kolibrie::sparql_database::SparqlDatabase;

fn rows(db: &mut SparqlDatabase, q: &str) -> Vec<Vec<String>> {
    let mut r = match execute_sparql_query(q, db) { Ok(r) => r, Err(e) => vec![vec![format!("ERR {}", e.chars().take(80).collect::<String>())]] };
    r.sort();
    r
}

fn load(update: &str) -> SparqlDatabase {
    let mut db = SparqlDatabase::new();
    if let Err(e) = execute_sparql_update(update, &mut db) { println!("update rejected: {}", e.chars().take(100).collect::<String>()); }
    db
}

const ASK_ALL: &str = "SELECT ?s ?p ?o WHERE { ?s ?p ?o }";

#[test]
fn layout_inside_a_quoted_triple_does_not_change_the_data() {
    let plain = "INSERT DATA { << <urn:s> <urn:p> \"v\" >> <urn:source> <urn:o> }";
    let variants = [
        ("newline", "INSERT DATA { << <urn:s>\n<urn:p>\n\"v\" >> <urn:source> <urn:o> }"),
        ("tabs", "INSERT DATA { <<\t<urn:s>\t<urn:p>\t\"v\"\t>> <urn:source> <urn:o> }"),
        ("no-blank-at-edges", "INSERT DATA { <<<urn:s> <urn:p> \"v\">> <urn:source> <urn:o> }"),
        ("comment-lf", "INSERT DATA { << <urn:s> # the subject\n<urn:p> \"v\" >> <urn:source> <urn:o> }"),
        ("comment-cr", "INSERT DATA { << <urn:s> #c\r<urn:p> \"v\" >> <urn:source> <urn:o> }"),
        ("comment-with-markers", "INSERT DATA { << <urn:s> # >> << \n<urn:p> \"v\" >> <urn:source> <urn:o> }"),
    ];
    {
        let nested_plain = "INSERT DATA { << << <urn:a> <urn:b> <urn:c> >> <urn:p> \"v\" >> <urn:source> <urn:o> }";
        let nested_comment = "INSERT DATA { << << <urn:a> # inner >> \n<urn:b> <urn:c> >> # outer\r\n<urn:p> \"v\" >> <urn:source> <urn:o> }";
        let mut a = load(nested_plain);
        let mut b = load(nested_comment);
        let (ra, rb) = (rows(&mut a, ASK_ALL), rows(&mut b, ASK_ALL));
        println!("nested: {:?} | {:?}", ra, rb);
        assert_eq!(ra, rb);
        assert_eq!(ra.len(), 1);
    }
    let mut base_db = load(plain);
    let base = rows(&mut base_db, ASK_ALL);
    println!("base: {:?}", base);
    assert_eq!(base.len(), 1);
    let mut bad = Vec::new();
    for (name, v) in variants {
        let mut db = load(v);
        let got = rows(&mut db, ASK_ALL);
        if got != base {
            println!("{}: {:?}", name, got);
            bad.push(name);
        }
        // and as a query pattern against the plain data
        let q = v.replace("INSERT DATA", "SELECT * WHERE").replace("<urn:o> }", "?x }");
        let mut db2 = load(plain);
        let want = rows(&mut db2, "SELECT * WHERE { << <urn:s> <urn:p> \"v\" >> <urn:source> ?x }");
        let got = rows(&mut db2, &q);
        if got != want {
            println!("{} as pattern: want {:?} got {:?}", name, want, got);
            bad.push(name);
        }
    }
    assert!(bad.is_empty(), "{:?}", bad);
}

#[test]
fn literal_forms_inside_a_quoted_triple() {
    let cases = [
        ("single-quoted with blank", "INSERT DATA { << <urn:s> <urn:p> 'a b' >> <urn:source> <urn:o> }", "INSERT DATA { << <urn:s> <urn:p> \"a b\" >> <urn:source> <urn:o> }"),
        ("literal with >>", "INSERT DATA { << <urn:s> <urn:p> \"x >> y\" >> <urn:source> <urn:o> }", "INSERT DATA { << <urn:s> <urn:p> \"x >> y\" >> <urn:source> <urn:o> }"),
        ("literal with hash", "INSERT DATA { << <urn:s> <urn:p> \"a # b\" >> <urn:source> <urn:o> }", "INSERT DATA { << <urn:s> <urn:p> \"a # b\" >> <urn:source> <urn:o> }"),
        ("iri with hash", "INSERT DATA { << <urn:s#frag> <urn:p> \"v\" >> <urn:source> <urn:o> }", "INSERT DATA { << <urn:s#frag> <urn:p> \"v\" >> <urn:source> <urn:o> }"),
    ];
    for (name, a, b) in cases {
        let mut da = load(a);
        let mut dbb = load(b);
        println!("{}: {:?} | {:?}", name, rows(&mut da, ASK_ALL), rows(&mut dbb, ASK_ALL));
    }
}

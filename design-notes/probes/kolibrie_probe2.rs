use kolibrie::execute_query::{execute_sparql_query, execute_sparql_update};
use kolibrie::rsp::builder::RSPBuilder;
use kolibrie::rsp::simple_r2r::SimpleR2R;
use kolibrie::rsp_engine::{OperationMode, QueryExecutionMode, RSPEngine, ResultConsumer};
use kolibrie::sparql_database::SparqlDatabase;
use shared::triple::Triple;
use std::panic::{catch_unwind, AssertUnwindSafe};
use std::sync::{Arc, Mutex};

#[test]
fn a_error_handler_multibyte_offset() {
    for q in [
        "PREFIX 1ab: <http://x/> SELECT * WHERE { ?s ?p ?o } #\u{20ac}x",
        "PREFIX 1ab: <http://x/> SELECT * WHERE { ?s ?p ?o } #x\u{20ac}",
        "SELECT * WHERE { ?s ?p \u{20ac} }",
        "INSERT DATA { <a> <b> \u{20ac}\u{20ac} }",
    ] {
        let mut db = SparqlDatabase::new();
        let r = catch_unwind(AssertUnwindSafe(|| execute_sparql_query(q, &mut db).is_ok()));
        let r2 = catch_unwind(AssertUnwindSafe(|| execute_sparql_update(q, &mut db).is_ok()));
        println!("PROBE a: q={:?} query_panicked={} update_panicked={}", q, r.is_err(), r2.is_err());
    }
}

#[test]
fn h_rsp_raw_equals_previous_derived() {
    let result_container = Arc::new(Mutex::new(Vec::<Vec<(String, String)>>::new()));
    let rc = Arc::clone(&result_container);
    let result_consumer = ResultConsumer {
        function: Arc::new(move |r: Vec<(String, String)>| {
            rc.lock().unwrap().push(r);
        }),
    };
    let r2r = Box::new(SimpleR2R::with_execution_mode(QueryExecutionMode::Volcano));
    let rule_str = concat!(
        "@prefix test: <http://test/>.\n",
        "@prefix rdf: <http://www.w3.org/1999/02/22-rdf-syntax-ns#>.\n",
        "{ ?s test:hasValue ?v . } => { ?s rdf:type test:HasValue . } .\n",
    );
    let query = r#"
        REGISTER RSTREAM <http://out/stream> AS
        SELECT *
        FROM NAMED WINDOW :w ON ?stream [RANGE 2 STEP 1]
        WHERE { WINDOW :w { ?s a <http://test/HasValue> . } }
    "#;
    let mut engine: RSPEngine<Triple, Vec<(String, String)>> = RSPBuilder::new()
        .add_rsp_ql_query(query)
        .add_rules(rule_str)
        .add_consumer(result_consumer)
        .add_r2r(r2r)
        .set_operation_mode(OperationMode::SingleThread)
        .build()
        .expect("build");
    let items = [
        "<http://test/s1> <http://test/hasValue> \"42\" .",
        "<http://test/s1> <http://www.w3.org/1999/02/22-rdf-syntax-ns#type> <http://test/HasValue> .",
        "<http://test/x> <http://test/other> <http://test/y> .",
        "<http://test/x> <http://test/other> <http://test/z> .",
        "<http://test/x> <http://test/other> <http://test/w> .",
        "<http://test/x> <http://test/other> <http://test/u> .",
    ];
    for (i, it) in items.iter().enumerate() {
        let before = result_container.lock().unwrap().len();
        for t in engine.parse_data(it) {
            engine.add(t, i + 1);
        }
        let after = result_container.lock().unwrap().clone();
        println!("PROBE h: t={} item={} new_rows={:?}", i + 1, it, &after[before..]);
    }
}

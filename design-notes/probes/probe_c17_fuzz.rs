// Mutation probe for C17: the string entry points return a value for every request text, never panic, and the query entry point never changes the data.
use kolibrie::execute_query::{execute_sparql_query, execute_sparql_update};
use kolibrie::sparql_database::SparqlDatabase;

struct Rng(u64);
impl Rng {
    fn next(&mut self) -> u64 { self.0 ^= self.0 << 13; self.0 ^= self.0 >> 7; self.0 ^= self.0 << 17; self.0 }
    fn below(&mut self, n: usize) -> usize { (self.next() % n as u64) as usize }
}
const SEEDS: [&str; 14] = [
    "SELECT ?s ?o WHERE { ?s <http://e/p> ?o FILTER(?o > 3 && !(?s = <http://e/a>)) } ORDER BY DESC(?o) LIMIT 2",
    "PREFIX e: <http://e/> SELECT DISTINCT ?s WHERE { { ?s e:p ?o } UNION { ?s e:q ?o . VALUES (?o ?z) { (1 UNDEF) (\"x\" <http://e/b>) } } }",
    "SELECT ?s SUM(?x) AS ?t MIN(?x) AS ?m WHERE { ?s <http://e/n> ?x } GROUP BY ?s",
    "SELECT * FROM <http://e/g0> FROM NAMED <http://e/g1> WHERE { GRAPH ?g { ?s ?p ?o } { SELECT ?s WHERE { ?s ?p2 ?o2 } ORDER BY ?s LIMIT 3 } }",
    "SELECT ?s ?b WHERE { ?s <http://e/p> ?o BIND(CONCAT(?o, \"é日本\") AS ?b) FILTER(?o + 1 * 2 < 10 / 3 - -1) }",
    "SELECT ?s WHERE { << ?s <http://e/p> ?o >> <http://e/said> ?w . FILTER(isTRIPLE(?w)) }",
    "INSERT DATA { <http://e/a> <http://e/p> \"v\\\"q\\n\" . GRAPH <http://e/g> { <http://e/a> <http://e/p> 5 } }",
    "DELETE DATA { <http://e/a> <http://e/p> <http://e/b> }",
    "DELETE { ?s <http://e/p> ?o } INSERT { GRAPH <http://e/g2> { ?s <http://e/q> ?o } } WHERE { ?s <http://e/p> ?o FILTER(?o != 5) }",
    "DELETE WHERE { ?s <http://e/p> ?o . GRAPH <http://e/g0> { ?s ?p ?x } }",
    "INSERT { ?s <http://e/r> _:b } WHERE { ?s <http://e/p> ?o }",
    "SELECT ?s WHERE { ?s a <http://e/T> ; <http://e/p> ?o , ?o2 . } # trailing comment",
    "REGISTER RSTREAM <http://out/s> AS SELECT * FROM NAMED WINDOW :w ON ?s [RANGE 3 STEP 1] WHERE { WINDOW :w { ?a ?b ?c } }",
    "RULE :r :- CONSTRUCT { ?s <http://e/t> ?o } WHERE { ?s <http://e/p> ?o } SELECT ?s WHERE { ?s <http://e/t> ?o }",
];
const PIECES: [&str; 40] = ["{", "}", "(", ")", "<", ">", "<<", ">>", "\"", "'", "\\", "#", ".", ";", ",", "?", "$", ":", "_:", "@", "^^", "é", "日", "\u{1F600}", " ", "\n", "\t", "0", "-", "+", "*", "/", "=", "!", "&&", "||", "SELECT", "WHERE", "GRAPH", "UNDEF"];
fn mutate(r: &mut Rng, s: &str) -> String {
    let mut chars: Vec<char> = s.chars().collect();
    for _ in 0..1 + r.below(4) {
        if chars.is_empty() { break; }
        match r.below(6) {
            0 => { let i = r.below(chars.len()); chars.remove(i); }
            1 => { let i = r.below(chars.len() + 1); let pc = PIECES[r.below(PIECES.len())]; for (k, c) in pc.chars().enumerate() { chars.insert(i + k, c); } }
            2 => { let i = r.below(chars.len()); chars.truncate(i); }
            3 => { let i = r.below(chars.len()); let j = r.below(chars.len()); chars.swap(i, j); }
            4 => { let i = r.below(chars.len()); let n = 1 + r.below(6); let seg: Vec<char> = chars[i..(i + n).min(chars.len())].to_vec(); for (k, c) in seg.into_iter().enumerate() { chars.insert(i + k, c); } }
            _ => { let i = r.below(chars.len()); let j = (i + 1 + r.below(12)).min(chars.len()); chars.drain(i..j); }
        }
    }
    chars.into_iter().collect()
}
fn fresh() -> SparqlDatabase {
    let mut db = SparqlDatabase::new();
    execute_sparql_update("INSERT DATA { <http://e/a> <http://e/p> <http://e/b> . <http://e/a> <http://e/p> 5 . <http://e/b> <http://e/n> 7 . <http://e/a> a <http://e/T> . << <http://e/a> <http://e/p> 5 >> <http://e/said> <http://e/w> . GRAPH <http://e/g0> { <http://e/a> <http://e/p> \"é\" } GRAPH <http://e/g1> { <http://e/c> <http://e/q> <http://e/a> } }", &mut db).unwrap();
    db
}
fn dump(db: &mut SparqlDatabase) -> Vec<Vec<String>> {
    let mut rows = execute_sparql_query("SELECT ?s ?p ?o WHERE { ?s ?p ?o }", db).unwrap_or_default();
    rows.extend(execute_sparql_query("SELECT ?g ?s ?p ?o WHERE { GRAPH ?g { ?s ?p ?o } }", db).unwrap_or_default());
    rows.sort();
    rows
}
#[test]
fn entry_points_fail_cleanly() {
    let n: u64 = std::env::var("PROBE_SEEDS").ok().and_then(|v| v.parse().ok()).unwrap_or(20000);
    let mut r = Rng(0x1234_5678_9ABC_DEF1);
    let mut panics = 0;
    let mut mutated_by_query = 0;
    let mut db = fresh();
    let mut baseline = dump(&mut db);
    for i in 0..n {
        let pick = r.below(SEEDS.len());
        let text = mutate(&mut r, SEEDS[pick]);
        let q = std::panic::catch_unwind(std::panic::AssertUnwindSafe(|| { let _ = execute_sparql_query(&text, &mut db); }));
        if q.is_err() { panics += 1; println!("PANIC query #{}: {:?}", i, text); db = fresh(); baseline = dump(&mut db); continue; }
        if i % 50 == 0 {
            let now = dump(&mut db);
            if now != baseline { mutated_by_query += 1; println!("QUERY ENTRY POINT CHANGED DATA near #{}: {:?}", i, text); db = fresh(); baseline = dump(&mut db); }
        }
        if r.below(4) == 0 {
            let u = std::panic::catch_unwind(std::panic::AssertUnwindSafe(|| { let _ = execute_sparql_update(&text, &mut db); }));
            if u.is_err() { panics += 1; println!("PANIC update #{}: {:?}", i, text); }
            db = fresh();
            baseline = dump(&mut db);
        }
    }
    println!("fuzz: {} requests, {} panics, {} data changes through the query entry point", n, panics, mutated_by_query);
}

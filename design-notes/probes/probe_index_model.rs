use shared::dataset_index::{DatasetIndex, GraphId, Quad};
use std::collections::{BTreeSet, HashSet};

struct Rng(u64);
impl Rng {
    fn next(&mut self) -> u64 {
        self.0 ^= self.0 << 13;
        self.0 ^= self.0 >> 7;
        self.0 ^= self.0 << 17;
        self.0
    }
    fn below(&mut self, n: u64) -> u64 {
        self.next() % n
    }
}

fn g(i: u64) -> GraphId {
    if i == 0 { GraphId::Default } else { GraphId::Named(100 + i as u32) }
}

#[test]
fn random_histories_agree_with_a_set_model() {
    for seed in 1..400u64 {
        let mut rng = Rng(seed.wrapping_mul(0x9E3779B97F4A7C15) | 1);
        let mut idx = DatasetIndex::new();
        let mut quads: BTreeSet<(u32, u32, u32, GraphId)> = BTreeSet::new();
        let mut graphs: BTreeSet<GraphId> = BTreeSet::new();
        for step in 0..60 {
            let (s, p, o, gi) = (rng.below(3) as u32, rng.below(2) as u32, rng.below(3) as u32, rng.below(3));
            let quad = Quad { subject: s, predicate: p, object: o, graph: g(gi) };
            match rng.below(8) {
                0 | 1 | 2 => {
                    let added = idx.insert_quad(&quad);
                    let model_added = quads.insert((s, p, o, g(gi)));
                    if gi != 0 { graphs.insert(g(gi)); }
                    assert_eq!(added, model_added, "seed {seed} step {step} insert");
                }
                3 | 4 => {
                    let removed = idx.delete_quad(&quad);
                    let model_removed = quads.remove(&(s, p, o, g(gi)));
                    assert_eq!(removed, model_removed, "seed {seed} step {step} delete");
                }
                5 => {
                    if gi != 0 { idx.create_graph(g(gi)); graphs.insert(g(gi)); }
                }
                6 => {
                    idx.clear_graph(g(gi));
                    quads.retain(|q| q.3 != g(gi));
                }
                _ => {
                    if gi != 0 {
                        idx.drop_graph(g(gi));
                        quads.retain(|q| q.3 != g(gi));
                        graphs.remove(&g(gi));
                    }
                }
            }
            // every read path against the model
            let all: BTreeSet<_> = idx.all_quads().into_iter().map(|q| (q.subject, q.predicate, q.object, q.graph)).collect();
            assert_eq!(all, quads, "seed {seed} step {step} all_quads");
            let named: BTreeSet<GraphId> = idx.named_graphs().into_iter().collect();
            assert_eq!(named, graphs, "seed {seed} step {step} named_graphs");
            for gi2 in 0..3u64 {
                for sm in [None, Some(0u32), Some(1), Some(2)] {
                    for pm in [None, Some(0u32), Some(1)] {
                        for om in [None, Some(0u32), Some(1), Some(2)] {
                            let got: BTreeSet<_> = idx.query_graph(g(gi2), sm, pm, om).into_iter().map(|q| (q.subject, q.predicate, q.object, q.graph)).collect();
                            let want: BTreeSet<_> = quads.iter().filter(|q| q.3 == g(gi2) && sm.map_or(true, |x| x == q.0) && pm.map_or(true, |x| x == q.1) && om.map_or(true, |x| x == q.2)).cloned().collect();
                            assert_eq!(got, want, "seed {seed} step {step} query_graph {gi2} {sm:?} {pm:?} {om:?}");
                            if gi2 == 0 {
                                let gotn: BTreeSet<_> = idx.query_named_graphs(sm, pm, om, None).into_iter().map(|q| (q.subject, q.predicate, q.object, q.graph)).collect();
                                let wantn: BTreeSet<_> = quads.iter().filter(|q| q.3 != GraphId::Default && sm.map_or(true, |x| x == q.0) && pm.map_or(true, |x| x == q.1) && om.map_or(true, |x| x == q.2)).cloned().collect();
                                assert_eq!(gotn, wantn, "seed {seed} step {step} query_named_graphs {sm:?} {pm:?} {om:?}");
                                let vis: HashSet<GraphId> = [g(1)].into_iter().collect();
                                let gotv: BTreeSet<_> = idx.query_named_graphs(sm, pm, om, Some(&vis)).into_iter().map(|q| (q.subject, q.predicate, q.object, q.graph)).collect();
                                let wantv: BTreeSet<_> = wantn.iter().filter(|q| q.3 == g(1)).cloned().collect();
                                assert_eq!(gotv, wantv, "seed {seed} step {step} query_named_graphs visible");
                            }
                        }
                    }
                }
            }
            for q in &quads {
                assert!(idx.contains_quad(&Quad { subject: q.0, predicate: q.1, object: q.2, graph: q.3 }));
            }
            for gi2 in 1..3u64 {
                assert_eq!(idx.graph_exists(g(gi2)), graphs.contains(&g(gi2)) || quads.iter().any(|q| q.3 == g(gi2)), "seed {seed} step {step} graph_exists");
            }
        }
    }
}

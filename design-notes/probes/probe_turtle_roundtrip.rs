use kolibrie::sparql_database::SparqlDatabase;

fn triples(db: &SparqlDatabase) -> Vec<(String, String, String)> {
    let mut out: Vec<_> = db
        .query_default_triples(None, None, None)
        .into_iter()
        .map(|t| {
            (
                db.decode_any(t.subject).unwrap_or_default(),
                db.decode_any(t.predicate).unwrap_or_default(),
                db.decode_any(t.object).unwrap_or_default(),
            )
        })
        .collect();
    out.sort();
    out
}

#[test]
fn turtle_roundtrip_two_predicates_of_one_subject() {
    let mut db = SparqlDatabase::new();
    db.parse_ntriples_and_add(
        "<http://e/s> <http://e/p1> \"a\" .\n<http://e/s> <http://e/p2> \"b\" .\n<http://e/s> <http://e/p2> \"c\" .\n",
    );
    let before = triples(&db);
    assert_eq!(before.len(), 3);
    let text = db.generate_turtle();
    println!("{}", text);
    let mut db2 = SparqlDatabase::new();
    db2.parse_turtle(&text);
    assert_eq!(triples(&db2), before);
}

// Probe (not a registered check): C13, line-oriented subset - the layout of a document (blank lines, comment lines, comments after a
// statement, CRLF, tabs and runs of blanks between terms, indentation) does not change what is loaded.
use kolibrie::sparql_database::SparqlDatabase;

struct Rng(u64);
impl Rng {
    fn next(&mut self) -> u64 { self.0 ^= self.0 << 13; self.0 ^= self.0 >> 7; self.0 ^= self.0 << 17; self.0 }
    fn below(&mut self, n: usize) -> usize { (self.next() % n as u64) as usize }
}

fn triples(db: &SparqlDatabase) -> Vec<(String, String, String)> {
    let mut out: Vec<_> = db.query_default_triples(None, None, None).into_iter().map(|t| (db.decode_any(t.subject).unwrap_or_default(), db.decode_any(t.predicate).unwrap_or_default(), db.decode_any(t.object).unwrap_or_default())).collect();
    out.sort();
    out
}

// statements as token lists; tokens never contain blanks except inside literals (kept as one token)
fn statements() -> Vec<Vec<&'static str>> {
    vec![
        vec!["<http://e/s1>", "<http://e/p>", "<http://e/o1>"],
        vec!["<http://e/s1>", "<http://e/p#frag>", "\"plain\""],
        vec!["<http://e/s2>", "<http://e/q>", "\"two words\""],
        vec!["<http://e/s2>", "<http://e/q>", "\"hash # inside\""],
        vec!["<http://e/s3>", "<http://e/q>", "\"tagged\"@en"],
        vec!["<http://e/s3>", "<http://e/r>", "\"5\"^^<http://www.w3.org/2001/XMLSchema#integer>"],
        vec!["<http://e/s4#a>", "<http://e/r>", "<http://e/o#b>"],
        vec!["<http://e/s5>", "<http://e/r>", "\"dot . inside\""],
        vec!["<http://e/s6>", "<http://e/r>", "\"semi ; comma , inside\""],
    ]
}

const GAPS: &[&str] = &[" ", "  ", "\t", " \t ", "   "];
const EOLS: &[&str] = &["\n", "\r\n", "\n\n", "\n# a comment line\n", "\n   \n", "\n#\n", "\r\n# c <http://x/y> \"z\" .\r\n"];
const TRAILERS: &[&str] = &["", " ", "\t", " # trailing comment", "  # with <iri> and \"lit\" .", " #", "# no blank before"];
const INDENTS: &[&str] = &["", " ", "\t", "    "];

fn render(r: &mut Rng, mode: usize, turtle: bool) -> String {
    let mut s = String::new();
    if turtle {
        s.push_str("@prefix ex: <http://e/> .\n");
    }
    for st in statements() {
        if mode & 1 != 0 { s.push_str(INDENTS[r.below(INDENTS.len())]); }
        for (i, tok) in st.iter().enumerate() {
            if i > 0 { s.push_str(if mode & 2 != 0 { GAPS[r.below(GAPS.len())] } else { " " }); }
            s.push_str(tok);
        }
        s.push_str(if mode & 2 != 0 { GAPS[r.below(GAPS.len())] } else { " " });
        s.push('.');
        if mode & 4 != 0 { s.push_str(TRAILERS[r.below(TRAILERS.len())]); }
        s.push_str(if mode & 8 != 0 { EOLS[r.below(EOLS.len())] } else { "\n" });
    }
    s
}

fn load(kind: &str, doc: &str) -> Vec<(String, String, String)> {
    let mut db = SparqlDatabase::new();
    match kind {
        "nt" => db.parse_ntriples_and_add(doc),
        "ttl" => db.parse_turtle(doc),
        "n3" => db.parse_n3(doc),
        _ => unreachable!(),
    }
    triples(&db)
}

#[test]
fn layout_of_a_line_oriented_document_does_not_matter() {
    let mut r = Rng(0x1234_5678_9abc_def1);
    let mut classes: std::collections::BTreeMap<String, (usize, String, Vec<(String, String, String)>)> = Default::default();
    for kind in ["nt", "ttl", "n3"] {
        let base = load(kind, &render(&mut Rng(7), 0, kind != "nt"));
        println!("{} base: {} triples", kind, base.len());
        for mode in [1usize, 2, 4, 8, 3, 5, 9, 15] {
            for _ in 0..60 {
                let doc = render(&mut r, mode, kind != "nt");
                let got = load(kind, &doc);
                if got != base {
                    let missing = base.iter().filter(|t| !got.contains(t)).count();
                    let extra: Vec<_> = got.iter().filter(|t| !base.contains(t)).cloned().collect();
                    let key = format!("{} mode={} missing={} extra={}", kind, mode, missing.min(1), extra.len().min(1));
                    let e = classes.entry(key).or_insert((0, doc.clone(), extra.clone()));
                    e.0 += 1;
                    if doc.len() < e.1.len() { e.1 = doc.clone(); e.2 = extra; }
                }
            }
        }
    }
    for (k, (n, doc, extra)) in &classes {
        println!("== {} x{}\n{:?}\nextra: {:?}\n", k, n, doc, extra);
    }
    assert!(classes.is_empty(), "{} classes", classes.len());
}

#[test]
fn show_n3_base() {
    for t in load("n3", &render(&mut Rng(7), 0, true)) { println!("{:?}", t); }
}

// Cross-format probe for C13: the same random triples written as N-Triples, N-Quads, Turtle (several surface forms), N3 and RDF/XML load identically,
// whatever the document size (parallel chunking) and whatever the database already contains.
use kolibrie::sparql_database::SparqlDatabase;

struct Rng(u64);
impl Rng {
    fn next(&mut self) -> u64 { self.0 ^= self.0 << 13; self.0 ^= self.0 >> 7; self.0 ^= self.0 << 17; self.0 }
    fn below(&mut self, n: usize) -> usize { (self.next() % n as u64) as usize }
    fn chance(&mut self, pct: usize) -> bool { self.below(100) < pct }
}
#[derive(Clone, Debug, PartialEq, Eq, PartialOrd, Ord)]
enum Obj { Iri(String), Lit(String, Option<String>, Option<String>) } // lexical, lang, datatype
type Tr = (String, String, Obj);

fn nt_escape(s: &str) -> String {
    let mut o = String::new();
    for c in s.chars() { match c { '"' => o.push_str("\\\""), '\\' => o.push_str("\\\\"), '\n' => o.push_str("\\n"), '\r' => o.push_str("\\r"), '\t' => o.push_str("\\t"), c => o.push(c) } }
    o
}
fn xml_escape(s: &str) -> String { s.replace('&', "&amp;").replace('<', "&lt;").replace('>', "&gt;").replace('"', "&quot;") }
fn obj_nt(o: &Obj) -> String {
    match o { Obj::Iri(i) => format!("<{}>", i), Obj::Lit(l, None, None) => format!("\"{}\"", nt_escape(l)), Obj::Lit(l, Some(lang), _) => format!("\"{}\"@{}", nt_escape(l), lang), Obj::Lit(l, None, Some(dt)) => format!("\"{}\"^^<{}>", nt_escape(l), dt) }
}
fn to_nt(ts: &[Tr]) -> String { ts.iter().map(|(s, p, o)| format!("<{}> <{}> {} .\n", s, p, obj_nt(o))).collect() }
fn to_turtle_grouped(ts: &[Tr]) -> String {
    // subjects grouped with ';', objects of one predicate with ',', all on one line per subject (the loader is line-oriented)
    let mut out = String::from("@prefix e: <http://e/> .\n");
    let mut sorted = ts.to_vec();
    sorted.sort();
    let mut i = 0;
    while i < sorted.len() {
        let s = &sorted[i].0;
        let mut j = i;
        let mut line = format!("<{}>", s);
        let mut first_p = true;
        while j < sorted.len() && &sorted[j].0 == s {
            let p = &sorted[j].1;
            line.push_str(if first_p { " " } else { " ; " });
            first_p = false;
            line.push_str(&format!("<{}>", p));
            let mut first_o = true;
            while j < sorted.len() && &sorted[j].0 == s && &sorted[j].1 == p { line.push_str(if first_o { " " } else { " , " }); first_o = false; line.push_str(&obj_nt(&sorted[j].2)); j += 1; }
        }
        line.push_str(" .\n");
        out.push_str(&line);
        i = j;
    }
    out
}
fn to_turtle_prefixed(ts: &[Tr]) -> String {
    let mut out = String::from("@prefix e: <http://e/> .\n");
    let pn = |i: &str| if let Some(l) = i.strip_prefix("http://e/") { if l.chars().all(|c| c.is_ascii_alphanumeric()) && !l.is_empty() { return format!("e:{}", l); } format!("<{}>", i) } else { format!("<{}>", i) };
    for (s, p, o) in ts {
        let ot = match o { Obj::Iri(i) => pn(i), o => obj_nt(o) };
        out.push_str(&format!("{} {} {} .\n", pn(s), pn(p), ot));
    }
    out
}
fn to_rdfxml(ts: &[Tr]) -> String {
    let mut out = String::from("<?xml version=\"1.0\"?>\n<rdf:RDF xmlns:rdf=\"http://www.w3.org/1999/02/22-rdf-syntax-ns#\" xmlns:e=\"http://e/\">\n");
    for (s, p, o) in ts {
        let local = p.strip_prefix("http://e/").unwrap();
        out.push_str(&format!("  <rdf:Description rdf:about=\"{}\">\n", xml_escape(s)));
        match o {
            Obj::Iri(i) => out.push_str(&format!("    <e:{} rdf:resource=\"{}\"/>\n", local, xml_escape(i))),
            Obj::Lit(l, None, None) => out.push_str(&format!("    <e:{}>{}</e:{}>\n", local, xml_escape(l), local)),
            Obj::Lit(l, Some(lang), _) => out.push_str(&format!("    <e:{} xml:lang=\"{}\">{}</e:{}>\n", local, lang, xml_escape(l), local)),
            Obj::Lit(l, None, Some(dt)) => out.push_str(&format!("    <e:{} rdf:datatype=\"{}\">{}</e:{}>\n", local, dt, xml_escape(l), local)),
        }
        out.push_str("  </rdf:Description>\n");
    }
    out.push_str("</rdf:RDF>\n");
    out
}
fn triples(db: &SparqlDatabase) -> Vec<(String, String, String)> {
    let mut out: Vec<_> = db.query_default_triples(None, None, None).into_iter().map(|t| (db.decode_any(t.subject).unwrap_or_default(), db.decode_any(t.predicate).unwrap_or_default(), db.decode_any(t.object).unwrap_or_default())).collect();
    out.sort();
    out
}
fn gen(r: &mut Rng, n: usize, tricky: bool) -> Vec<Tr> {
    let pieces = ["a", "b c", " lead", "trail ", "x\"y", "back\\slash", "line\nbreak", "tab\there", "é", "日本", "", ".", " .", "#", "<t>", "a&b", "@at", "^^", "{|", "1", "-2.5", "'", "\\u0041", "\u{1F600}", ";", ","];
    let mut out = Vec::new();
    for _ in 0..n {
        let s = format!("http://e/s{}", r.below(n / 2 + 2));
        let p = format!("http://e/p{}", r.below(4));
        let o = if r.chance(40) { Obj::Iri(format!("http://e/o{}", r.below(n / 2 + 2))) } else {
            let lex = if tricky { (0..1 + r.below(3)).map(|_| pieces[r.below(pieces.len())]).collect::<String>() } else { format!("v{}", r.below(50)) };
            match r.below(4) { 0 => Obj::Lit(lex, Some(["en", "fr", "de-AT", "zh-Hans"][r.below(4)].to_string()), None), 1 => Obj::Lit(lex, None, Some("http://www.w3.org/2001/XMLSchema#string".to_string())), _ => Obj::Lit(lex, None, None) }
        };
        let t = (s, p, o);
        if !out.contains(&t) { out.push(t); }
    }
    out
}
#[test]
fn formats_agree() {
    let seeds: u64 = std::env::var("PROBE_SEEDS").ok().and_then(|v| v.parse().ok()).unwrap_or(60);
    let mut bad = 0;
    for seed in 1..=seeds {
        let mut r = Rng(seed.wrapping_mul(0x9E3779B97F4A7C15) | 1);
        let n = [4usize, 12, 40][r.below(3)];
        let tricky = r.chance(70);
        let ts = gen(&mut r, n, tricky);
        let mut base = SparqlDatabase::new();
        base.parse_ntriples_and_add(&to_nt(&ts));
        let want = triples(&base);
        let mut problems = Vec::new();
        if want.len() != ts.len() { problems.push(format!("N-Triples stored {} of {} triples", want.len(), ts.len())); }
        let docs: Vec<(&str, String, fn(&mut SparqlDatabase, &str))> = vec![
            ("nquads", to_nt(&ts), |d, s| d.parse_nquads_and_add(s)),
            ("turtle-lines", to_nt(&ts), |d, s| d.parse_turtle(s)),
            ("turtle-grouped", to_turtle_grouped(&ts), |d, s| d.parse_turtle(s)),
            ("turtle-prefixed", to_turtle_prefixed(&ts), |d, s| d.parse_turtle(s)),
            ("n3-prefixed", to_turtle_prefixed(&ts), |d, s| d.parse_n3(s)),
            ("rdfxml", to_rdfxml(&ts), |d, s| d.parse_rdf(s)),
        ];
        for (name, doc, load) in &docs {
            let res = std::panic::catch_unwind(std::panic::AssertUnwindSafe(|| { let mut d = SparqlDatabase::new(); load(&mut d, doc); triples(&d) }));
            match res {
                Err(_) => problems.push(format!("{} PANIC", name)),
                Ok(got) => if got != want {
                    let missing: Vec<_> = want.iter().filter(|t| !got.contains(t)).take(2).collect();
                    let extra: Vec<_> = got.iter().filter(|t| !want.contains(t)).take(2).collect();
                    problems.push(format!("{}: {} vs {} triples; missing {:?} extra {:?}", name, got.len(), want.len(), missing, extra));
                }
            }
        }
        if !problems.is_empty() { bad += 1; println!("seed {} n {} tricky {}\n  {}", seed, ts.len(), tricky, problems.join("\n  ")); }
    }
    println!("formats: checked {} documents, {} with discrepancies", seeds, bad);
}

#[test]
fn exports_reimport_to_the_same_dataset() {
    let seeds: u64 = std::env::var("PROBE_SEEDS").ok().and_then(|v| v.parse().ok()).unwrap_or(60);
    let mut bad = 0;
    for seed in 1..=seeds {
        let mut r = Rng(seed.wrapping_mul(0xD6E8FEB86659FD93) | 1);
        let n = [4usize, 12, 40][r.below(3)];
        let ts = gen(&mut r, n, true);
        let mut doc = to_nt(&ts);
        // some quoted-triple terms as well
        for i in 0..r.below(3) { doc.push_str(&format!("<< <http://e/s{}> <http://e/p0> \"q {}\" >> <http://e/said> <http://e/o{}> .\n", i, i, i)); }
        let mut base = SparqlDatabase::new();
        base.parse_ntriples_and_add(&doc);
        let want = triples(&base);
        let mut problems = Vec::new();
        let exports: Vec<(&str, String, fn(&mut SparqlDatabase, &str))> = vec![
            ("ntriples", base.generate_ntriples(), |d, s| d.parse_ntriples_and_add(s)),
            ("nquads", base.generate_nquads(), |d, s| d.parse_nquads_and_add(s)),
            ("turtle", base.generate_turtle(), |d, s| d.parse_turtle(s)),
        ];
        for (name, text, load) in &exports {
            let res = std::panic::catch_unwind(std::panic::AssertUnwindSafe(|| { let mut d = SparqlDatabase::new(); load(&mut d, text); triples(&d) }));
            match res {
                Err(_) => problems.push(format!("{} PANIC", name)),
                Ok(got) => if got != want {
                    let missing: Vec<_> = want.iter().filter(|t| !got.contains(t)).take(2).collect();
                    let extra: Vec<_> = got.iter().filter(|t| !want.contains(t)).take(2).collect();
                    problems.push(format!("{}: {} vs {} triples; missing {:?} extra {:?}", name, got.len(), want.len(), missing, extra));
                }
            }
        }
        if !problems.is_empty() { bad += 1; println!("seed {} n {}\n  {}", seed, ts.len(), problems.join("\n  ")); }
    }
    println!("roundtrip: checked {} datasets, {} with discrepancies", seeds, bad);
}

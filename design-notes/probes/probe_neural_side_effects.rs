// Probe: do the "query-only" entry point and rejected updates mutate the
// stored dataset via neural-relation materialisation? Reports only; asserts
// nothing.

use kolibrie::execute_query::{execute_sparql_query, execute_sparql_update};
use kolibrie::sparql_database::SparqlDatabase;
use shared::dataset_index::GraphId;

fn tmp_model_path(name: &str) -> String {
    let nanos = std::time::SystemTime::now()
        .duration_since(std::time::UNIX_EPOCH)
        .map(|d| d.as_nanos())
        .unwrap_or(0);
    let mut path = std::env::temp_dir();
    path.push(format!(
        "kolibrie_probe17_{}_{}_{}.bin",
        name,
        std::process::id(),
        nanos
    ));
    path.to_string_lossy().into_owned()
}

fn populate(db: &mut SparqlDatabase) {
    for (sample, label, x0, x1) in [
        ("http://example.org/s0", "A", "1", "0"),
        ("http://example.org/s1", "A", "1", "0"),
        ("http://example.org/s2", "B", "0", "1"),
        ("http://example.org/s3", "B", "0", "1"),
    ] {
        db.add_triple_parts(sample, "http://example.org/x0", x0);
        db.add_triple_parts(sample, "http://example.org/x1", x1);
        db.add_triple_parts(sample, "http://example.org/gold", label);
    }
}

fn snapshot(db: &SparqlDatabase) -> Vec<String> {
    let mut out: Vec<String> = db
        .dataset_index
        .all_quads()
        .into_iter()
        .map(|q| {
            let g = match q.graph {
                GraphId::Default => "DEFAULT".to_string(),
                GraphId::Named(id) => db.decode_any(id).unwrap_or_else(|| format!("#{id}")),
            };
            format!(
                "{} {} {} @{}",
                db.decode_any(q.subject).unwrap_or_default(),
                db.decode_any(q.predicate).unwrap_or_default(),
                db.decode_any(q.object).unwrap_or_default(),
                g
            )
        })
        .collect();
    out.sort();
    out
}

fn report(tag: &str, before: &[String], after: &[String]) {
    println!("PROBE {tag} before: {} quads", before.len());
    for q in before {
        println!("PROBE {tag} before   {q}");
    }
    println!("PROBE {tag} after: {} quads", after.len());
    for q in after {
        println!("PROBE {tag} after    {q}");
    }
    for q in after.iter().filter(|q| !before.contains(q)) {
        println!("PROBE {tag} ADDED    {q}");
    }
    for q in before.iter().filter(|q| !after.contains(q)) {
        println!("PROBE {tag} REMOVED  {q}");
    }
    println!(
        "PROBE {tag} DATASET_CHANGED={}",
        if before != after { "YES" } else { "NO" }
    );
}

const DECLS: &str = r#"
MODEL "probe_model" {
    ARCH MLP { HIDDEN [4] }
    OUTPUT EXCLUSIVE { "A", "B" }
}

NEURAL RELATION ex:predicted USING MODEL "probe_model" {
    INPUT {
        ?sample ex:x0 ?x0 .
        ?sample ex:x1 ?x1 .
    }
    FEATURES { ?x0, ?x1 }
}
"#;

// A second relation whose model is declared but never trained: materialising
// it fails with "No trained artifact available for MODEL other_model".
const UNTRAINED_DECLS: &str = r#"
MODEL "other_model" {
    ARCH MLP { HIDDEN [4] }
    OUTPUT EXCLUSIVE { "A", "B" }
}

NEURAL RELATION ex:other USING MODEL "other_model" {
    INPUT {
        ?sample ex:x0 ?x0 .
        ?sample ex:x1 ?x1 .
    }
    FEATURES { ?x0, ?x1 }
}
"#;

fn train_block(save_path: &str) -> String {
    format!(
        r#"
TRAIN NEURAL RELATION ex:predicted {{
    DATA {{ ?sample ex:gold ?label . }}
    LABEL ?label
    TARGET {{ ?sample ex:predicted ?label }}
    LOSS cross_entropy
    OPTIMIZER adam
    LEARNING_RATE 0.1
    EPOCHS 5
    BATCH_SIZE 4
    SAVE_TO "{save_path}"
}}
"#
    )
}

#[test]
fn probe_a_query_entry_point_materialises() {
    let mut db = SparqlDatabase::new();
    populate(&mut db);
    let save_path = tmp_model_path("a");

    // A1: declarations + TRAIN + SELECT in one "query" request.
    let request = format!(
        "PREFIX ex: <http://example.org/>\n{DECLS}{}\nSELECT ?sample ?label WHERE {{ ?sample ex:predicted ?label . }}\n",
        train_block(&save_path)
    );
    println!("PROBE A1 request:\n{request}");
    let before = snapshot(&db);
    let result = execute_sparql_query(&request, &mut db);
    println!("PROBE A1 result: {result:?}");
    println!(
        "PROBE A1 model artifact exists on disk: {}",
        std::path::Path::new(&save_path).exists()
    );
    let after = snapshot(&db);
    report("A1", &before, &after);

    // A2: plain SELECT, no declarations in the text at all; the relation is
    // registered in the database from A1. First change a feature so that the
    // re-materialisation has something to delete/add.
    db.add_triple_parts("http://example.org/s9", "http://example.org/x0", "0");
    db.add_triple_parts("http://example.org/s9", "http://example.org/x1", "1");
    let request2 =
        "PREFIX ex: <http://example.org/>\nSELECT ?sample ?label WHERE { ?sample ex:predicted ?label . }\n";
    println!("PROBE A2 request:\n{request2}");
    let before = snapshot(&db);
    let result = execute_sparql_query(request2, &mut db);
    println!("PROBE A2 result: {result:?}");
    let after = snapshot(&db);
    report("A2", &before, &after);

    // A3: remove all feature triples; a plain SELECT now DELETES the
    // previously materialised quads (delete_triple path).
    for s in ["s0", "s1", "s2", "s3", "s9"] {
        for p in ["x0", "x1"] {
            for v in ["0", "1"] {
                db.delete_triple_parts(
                    &format!("http://example.org/{s}"),
                    &format!("http://example.org/{p}"),
                    v,
                );
            }
        }
    }
    println!("PROBE A3 request:\n{request2}");
    let before = snapshot(&db);
    let result = execute_sparql_query(request2, &mut db);
    println!("PROBE A3 result: {result:?}");
    let after = snapshot(&db);
    report("A3", &before, &after);

    let _ = std::fs::remove_file(&save_path);
}

#[test]
fn probe_a4_query_returns_err_but_dataset_changed() {
    let save_path = tmp_model_path("a4");
    let mut db = trained_clean_db(&save_path);
    let request = format!(
        "PREFIX ex: <http://example.org/>\n{UNTRAINED_DECLS}\nSELECT ?sample ?label WHERE {{ ?sample ex:predicted ?label . ?sample ex:other ?o . }}"
    );
    println!("PROBE A4 request:\n{request}");
    let before = snapshot(&db);
    let result = execute_sparql_query(&request, &mut db);
    println!("PROBE A4 result: {result:?}");
    println!(
        "PROBE A4 QUERY_REJECTED={}",
        if result.is_err() { "YES" } else { "NO" }
    );
    let after = snapshot(&db);
    report("A4", &before, &after);
    let _ = std::fs::remove_file(&save_path);
}

fn trained_clean_db(save_path: &str) -> SparqlDatabase {
    // Setup (not the probe): register + train through the dedicated neural API
    // and wipe whatever it materialised, so the baseline has no predictions.
    let mut db = SparqlDatabase::new();
    populate(&mut db);
    let program = format!(
        "PREFIX ex: <http://example.org/>\n{DECLS}{}",
        train_block(save_path)
    );
    kolibrie::neural_relations::execute_neural_program(&mut db, &program)
        .expect("setup training failed");
    if let Some(triples) = db
        .neural_materialized_triples
        .remove("http://example.org/predicted")
    {
        for t in triples {
            db.delete_triple(&t);
        }
    }
    db
}

#[test]
fn probe_b_rejected_update_leaves_predictions() {
    let save_path = tmp_model_path("b");

    let b9 = format!(
        "PREFIX ex: <http://example.org/>\n{UNTRAINED_DECLS}\nINSERT {{ ?sample ex:flag ?label }} WHERE {{ ?sample ex:predicted ?label . ?sample ex:other ?o . }}"
    );
    let b10 = format!(
        "PREFIX ex: <http://example.org/>\n{UNTRAINED_DECLS}\nINSERT {{ ?sample ex:flag ?label }} WHERE {{ ?sample ex:other ?o . ?sample ex:predicted ?label . }}"
    );
    let candidates: Vec<(&str, &str)> = vec![
        (
            "B9-second-relation-untrained-after-first-materialised",
            b9.as_str(),
        ),
        (
            "B10-control-untrained-relation-first",
            b10.as_str(),
        ),
        (
            "B1-unresolved-prefix-in-insert-template",
            "PREFIX ex: <http://example.org/>\nINSERT { ?sample nope:flag ?label } WHERE { ?sample ex:predicted ?label . }",
        ),
        (
            "B2-graph-name-literal",
            "PREFIX ex: <http://example.org/>\nINSERT { GRAPH \"notaniri\" { ?sample ex:flag ?label } } WHERE { ?sample ex:predicted ?label . }",
        ),
        (
            "B3-blank-node-in-delete-template",
            "PREFIX ex: <http://example.org/>\nDELETE { _:b ex:flag ?label } WHERE { ?sample ex:predicted ?label . }",
        ),
        (
            "B4-delete-insert-blank-node-in-delete",
            "PREFIX ex: <http://example.org/>\nDELETE { _:b ex:gold ?label } INSERT { ?sample ex:flag ?label } WHERE { ?sample ex:predicted ?label . }",
        ),
        (
            "B5-values-non-constant-term",
            "PREFIX ex: <http://example.org/>\nINSERT { ?sample ex:flag ?label } WHERE { ?sample ex:predicted ?label . VALUES ?z { << ?a ex:p ex:o >> } }",
        ),
        (
            "B6-insert-graph-name-quoted-triple",
            "PREFIX ex: <http://example.org/>\nINSERT { GRAPH << ex:a ex:b ex:c >> { ?sample ex:flag ?label } } WHERE { ?sample ex:predicted ?label . }",
        ),
        (
            "B7-where-graph-name-quoted-triple",
            "PREFIX ex: <http://example.org/>\nINSERT { ?sample ex:flag ?label } WHERE { ?sample ex:predicted ?label . GRAPH << ex:a ex:b ex:c >> { ?s ?p ?o } }",
        ),
        (
            "B8-control-no-neural-predicate-blank-node-in-delete",
            "PREFIX ex: <http://example.org/>\nDELETE { _:b ex:flag ?label } WHERE { ?sample ex:gold ?label . }",
        ),
    ];

    for (tag, request) in candidates {
        // fresh, trained, prediction-free database for every candidate
        let mut db = trained_clean_db(&save_path);
        println!("PROBE {tag} request:\n{request}");
        let before = snapshot(&db);
        let result = execute_sparql_update(request, &mut db);
        println!("PROBE {tag} result: {result:?}");
        println!(
            "PROBE {tag} UPDATE_REJECTED={}",
            if result.is_err() { "YES" } else { "NO" }
        );
        let after = snapshot(&db);
        report(tag, &before, &after);
    }

    let _ = std::fs::remove_file(&save_path);
}

use kolibrie::sparql_database::SparqlDatabase;
use shared::triple::Triple;

fn triples(db: &SparqlDatabase) -> Vec<(String, String, String)> {
    let mut out: Vec<_> = db
        .query_default_triples(None, None, None)
        .into_iter()
        .map(|t| {
            (
                db.decode_any(t.subject).unwrap_or_default(),
                db.decode_any(t.predicate).unwrap_or_default(),
                db.decode_any(t.object).unwrap_or_default(),
            )
        })
        .collect();
    out.sort();
    out
}

const LITERALS: &[&str] = &[
    "  padded  ", " .", "ends with dot .", "semi ; colon", "comma , inside", "hash # inside", "tag@en", "typed^^thing",
    "tab\there", "cr\rhere", "emoji \u{1F600} astral", "back\\slash", "trailing backslash\\", "\"", "\\\"", "a\nb\nc", "{| not annotation |}",
    "'single'", "\u{0008}bell\u{000c}", "x y z", "%41 percent", "@prefix x: <y> .", "# looks like comment", "a . b . c",
];

fn source() -> SparqlDatabase {
    let mut db = SparqlDatabase::new();
    for (i, lit) in LITERALS.iter().enumerate() {
        let (s, p, o) = {
            let mut d = db.dictionary.write().unwrap();
            (d.encode(&format!("http://e/s{}", i % 3)), d.encode(&format!("http://e/p{}", i % 2)), d.encode(lit))
        };
        db.add_triple(Triple { subject: s, predicate: p, object: o });
    }
    db
}

fn check(name: &str, text: String, load: fn(&mut SparqlDatabase, &str)) {
    let before = triples(&source());
    let mut db2 = SparqlDatabase::new();
    load(&mut db2, &text);
    let after = triples(&db2);
    let missing: Vec<_> = before.iter().filter(|t| !after.contains(t)).collect();
    let extra: Vec<_> = after.iter().filter(|t| !before.contains(t)).collect();
    assert!(missing.is_empty() && extra.is_empty(), "{}: missing {:?}\nextra {:?}\ntext:\n{}", name, missing, extra, text);
}

#[test]
fn ntriples_tricky() {
    check("ntriples", source().generate_ntriples(), |db, t| db.parse_ntriples_and_add(t));
}

#[test]
fn nquads_tricky() {
    check("nquads", source().generate_nquads(), |db, t| db.parse_nquads_and_add(t));
}

#[test]
fn turtle_tricky() {
    check("turtle", source().generate_turtle(), |db, t| db.parse_turtle(t));
}

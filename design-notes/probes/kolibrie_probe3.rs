use kolibrie::rsp::builder::RSPBuilder;
use kolibrie::rsp::simple_r2r::SimpleR2R;
use kolibrie::rsp_engine::{OperationMode, QueryExecutionMode, RSPEngine, ResultConsumer};
use shared::query::SyncPolicy;
use shared::triple::Triple;
use std::sync::{Arc, Mutex};

#[test]
fn m_two_windows_shared_vocab() {
    let result_container = Arc::new(Mutex::new(Vec::<Vec<(String, String)>>::new()));
    let rc = Arc::clone(&result_container);
    let consumer = ResultConsumer {
        function: Arc::new(move |r: Vec<(String, String)>| {
            rc.lock().unwrap().push(r);
        }),
    };
    let r2r = Box::new(SimpleR2R::with_execution_mode(QueryExecutionMode::Volcano));
    let q = r#"
        REGISTER RSTREAM <http://out/stream> AS
        SELECT *
        FROM NAMED WINDOW :windA ON :streamA [RANGE 10 STEP 2]
        FROM NAMED WINDOW :windB ON :streamB [RANGE 10 STEP 2]
        WHERE {
            WINDOW :windA { ?s1 a <http://test/T> . }
            WINDOW :windB { ?s2 a <http://test/T> . }
        }
    "#;
    let mut engine: RSPEngine<Triple, Vec<(String, String)>> = RSPBuilder::new()
        .add_rsp_ql_query(q)
        .add_consumer(consumer)
        .add_r2r(r2r)
        .set_operation_mode(OperationMode::SingleThread)
        .set_sync_policy(SyncPolicy::Wait)
        .build()
        .expect("build");
    for i in 0..8usize {
        for t in engine.parse_data(&format!("<http://test/a{}> a <http://test/T> .", i)) {
            engine.add_to_stream("streamA", t, i);
        }
        for t in engine.parse_data(&format!("<http://test/b{}> a <http://test/T> .", i)) {
            engine.add_to_stream("streamB", t, i);
        }
    }
    engine.stop();
    let rows = result_container.lock().unwrap().clone();
    let leak = rows.iter().filter(|r| r.iter().any(|(k, v)| (k == "s1" && v.contains("/b")) || (k == "s2" && v.contains("/a")))).count();
    println!("PROBE m: rows={} rows_with_cross_stream_binding={}", rows.len(), leak);
    println!("PROBE m sample: {:?}", rows.iter().take(4).collect::<Vec<_>>());
}

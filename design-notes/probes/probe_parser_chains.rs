use kolibrie::parser::parse_combined_query;
use kolibrie::execute_query::execute_sparql_query;
use kolibrie::sparql_database::SparqlDatabase;

fn run(name: &str, text: String) {
    let r = parse_combined_query(&text);
    println!("{} parse ok={}", name, r.is_ok());
    drop(r);
    let mut db = SparqlDatabase::new();
    db.parse_ntriples_and_add("<http://a> <http://p> \"1\" .\n");
    let rows = execute_sparql_query(&text, &mut db).map(|r| r.len() as i64).unwrap_or(-1);
    println!("{} rows={}", name, rows);
}

#[test]
fn long_and_chain() {
    for n in [1000usize, 20000, 200000] {
        let chain = vec!["?o > 0"; n].join(" && ");
        run("and", format!("SELECT * WHERE {{ ?s ?p ?o FILTER({}) }}", chain));
    }
}
#[test]
fn long_or_chain() {
    for n in [1000usize, 20000, 200000] {
        let chain = vec!["?o > 0"; n].join(" || ");
        run("or", format!("SELECT * WHERE {{ ?s ?p ?o FILTER({}) }}", chain));
    }
}
#[test]
fn long_plus_chain() {
    for n in [1000usize, 20000, 200000] {
        let chain = vec!["1"; n].join(" + ");
        run("plus", format!("SELECT * WHERE {{ ?s ?p ?o FILTER(?o < {}) }}", chain));
    }
}
#[test]
fn long_times_chain() {
    for n in [1000usize, 20000, 200000] {
        let chain = vec!["1"; n].join(" * ");
        run("times", format!("SELECT * WHERE {{ ?s ?p ?o FILTER(?o < {}) }}", chain));
    }
}
#[test]
fn long_union_chain() {
    for n in [1000usize, 20000] {
        let chain = vec!["{ ?s ?p ?o }"; n].join(" UNION ");
        run("union", format!("SELECT * WHERE {{ {} }}", chain));
    }
}
#[test]
fn long_not_chain() {
    for n in [1000usize, 20000, 200000] {
        run("not", format!("SELECT * WHERE {{ ?s ?p ?o FILTER({}(?o > 0)) }}", "!".repeat(n)));
    }
}
#[test]
fn long_unary_minus_chain() {
    for n in [1000usize, 20000, 200000] {
        run("neg", format!("SELECT * WHERE {{ ?s ?p ?o FILTER(?o > {}1) }}", "-".repeat(n)));
        run("neg2", format!("SELECT * WHERE {{ ?s ?p ?o FILTER(?o > {}1) }}", "- ".repeat(n)));
    }
}
#[test]
fn many_filters_and_optionals() {
    for n in [1000usize, 20000] {
        run("filters", format!("SELECT * WHERE {{ ?s ?p ?o {} }}", "FILTER(?o > 0) ".repeat(n)));
        run("optionals", format!("SELECT * WHERE {{ ?s ?p ?o {} }}", "OPTIONAL { ?s ?p ?o } ".repeat(n)));
        run("minus", format!("SELECT * WHERE {{ ?s ?p ?o {} }}", "MINUS { ?s ?p ?x } ".repeat(n)));
    }
}

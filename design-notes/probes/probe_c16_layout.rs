// Probe (not a registered check): C16, "same structure independent of whitespace, comments and keyword case".
// Corpus: every string literal of the repository's own tests and examples that parse_combined_query accepts.
// Variants: every whitespace run outside IRIs / literals / comments is replaced by another layout (blanks, line
// breaks, CRLF, comments closed by LF, CRLF or a lone CR); structural keywords change case; gaps are inserted
// inside braces and parentheses.  The Debug rendering of the tree must not change.
use kolibrie::parser::parse_combined_query;
use std::collections::BTreeMap;
use std::fs;
use std::path::{Path, PathBuf};

struct Rng(u64);
impl Rng {
    fn next(&mut self) -> u64 {
        self.0 ^= self.0 << 13;
        self.0 ^= self.0 >> 7;
        self.0 ^= self.0 << 17;
        self.0
    }
    fn below(&mut self, n: usize) -> usize {
        (self.next() % n as u64) as usize
    }
}

fn rust_files(dir: &Path, out: &mut Vec<PathBuf>) {
    if let Ok(rd) = fs::read_dir(dir) {
        for e in rd.flatten() {
            let p = e.path();
            if p.is_dir() {
                rust_files(&p, out);
            } else if p.extension().map_or(false, |x| x == "rs")
                && !p.file_name().unwrap().to_string_lossy().starts_with("probe_")
                && !p.file_name().unwrap().to_string_lossy().starts_with("seeded_")
            {
                out.push(p);
            }
        }
    }
}

/// crude Rust string-literal extractor: "..." with escapes, r"..." and r#"..."#
fn literals(src: &str) -> Vec<String> {
    let b: Vec<char> = src.chars().collect();
    let mut out = Vec::new();
    let mut i = 0;
    while i < b.len() {
        let c = b[i];
        if c == '/' && i + 1 < b.len() && b[i + 1] == '/' {
            while i < b.len() && b[i] != '\n' {
                i += 1;
            }
            continue;
        }
        if c == 'r' && i + 1 < b.len() && (b[i + 1] == '"' || b[i + 1] == '#') && (i == 0 || !(b[i - 1].is_alphanumeric() || b[i - 1] == '_')) {
            let mut j = i + 1;
            let mut hashes = 0;
            while j < b.len() && b[j] == '#' {
                hashes += 1;
                j += 1;
            }
            if j < b.len() && b[j] == '"' {
                j += 1;
                let start = j;
                'scan: while j < b.len() {
                    if b[j] == '"' {
                        let mut k = 0;
                        while k < hashes && j + 1 + k < b.len() && b[j + 1 + k] == '#' {
                            k += 1;
                        }
                        if k == hashes {
                            out.push(b[start..j].iter().collect());
                            j += 1 + hashes;
                            break 'scan;
                        }
                    }
                    j += 1;
                }
                i = j;
                continue;
            }
        }
        if c == '\'' {
            // char literal or lifetime: skip a short char literal
            if i + 2 < b.len() && b[i + 1] != '\\' && b[i + 2] == '\'' {
                i += 3;
                continue;
            }
            if i + 3 < b.len() && b[i + 1] == '\\' && b[i + 3] == '\'' {
                i += 4;
                continue;
            }
        }
        if c == '"' {
            let mut j = i + 1;
            let mut s = String::new();
            while j < b.len() && b[j] != '"' {
                if b[j] == '\\' && j + 1 < b.len() {
                    match b[j + 1] {
                        'n' => s.push('\n'),
                        't' => s.push('\t'),
                        'r' => s.push('\r'),
                        '"' => s.push('"'),
                        '\\' => s.push('\\'),
                        '\'' => s.push('\''),
                        '\n' => {
                            // line continuation: skip following whitespace
                            j += 2;
                            while j < b.len() && b[j].is_whitespace() {
                                j += 1;
                            }
                            continue;
                        }
                        other => {
                            s.push('\\');
                            s.push(other);
                        }
                    }
                    j += 2;
                    continue;
                }
                s.push(b[j]);
                j += 1;
            }
            out.push(s);
            i = j + 1;
            continue;
        }
        i += 1;
    }
    out
}

#[derive(Debug, Clone, PartialEq)]
enum Tok {
    Gap(String),   // whitespace and comments
    Word(String),  // identifier-like run
    Atom(String),  // IRI, literal, anything opaque
    Punct(char),
}

fn tokenize(q: &str) -> Option<Vec<Tok>> {
    let b: Vec<char> = q.chars().collect();
    let mut out = Vec::new();
    let mut i = 0;
    while i < b.len() {
        let c = b[i];
        if c.is_whitespace() || c == '#' {
            let st = i;
            while i < b.len() && (b[i].is_whitespace() || b[i] == '#') {
                if b[i] == '#' {
                    while i < b.len() && b[i] != '\n' && b[i] != '\r' {
                        i += 1;
                    }
                } else {
                    i += 1;
                }
            }
            out.push(Tok::Gap(b[st..i].iter().collect()));
            continue;
        }
        if c == '<' {
            // IRI if it closes before whitespace; `<<` quoted triple opener and comparison operators are punctuation
            let mut j = i + 1;
            while j < b.len() && !b[j].is_whitespace() && b[j] != '>' && b[j] != '<' && b[j] != '"' {
                j += 1;
            }
            if j < b.len() && b[j] == '>' && j > i + 1 && b[i + 1] != '=' {
                out.push(Tok::Atom(b[i..=j].iter().collect()));
                i = j + 1;
                continue;
            }
            out.push(Tok::Punct(c));
            i += 1;
            continue;
        }
        if c == '"' || c == '\'' {
            let triple = i + 2 < b.len() && b[i + 1] == c && b[i + 2] == c;
            let mut j = if triple { i + 3 } else { i + 1 };
            loop {
                if j >= b.len() {
                    return None;
                }
                if b[j] == '\\' {
                    j += 2;
                    continue;
                }
                if b[j] == c {
                    if !triple {
                        break;
                    }
                    if j + 2 < b.len() && b[j + 1] == c && b[j + 2] == c {
                        j += 2;
                        break;
                    }
                }
                j += 1;
            }
            // language tag / datatype stay glued
            let mut k = j + 1;
            if k < b.len() && b[k] == '@' {
                k += 1;
                while k < b.len() && (b[k].is_alphanumeric() || b[k] == '-') {
                    k += 1;
                }
            }
            out.push(Tok::Atom(b[i..k].iter().collect()));
            i = k;
            continue;
        }
        if c.is_alphanumeric() || c == '_' || c == '?' || c == '$' || c == ':' || c == '@' {
            let st = i;
            while i < b.len() && (b[i].is_alphanumeric() || matches!(b[i], '_' | '?' | '$' | ':' | '-' | '.' | '@' | '%' | '/' | '\\')) {
                // a backslash escapes the next character of a prefixed name (`ex:a\#b`)
                i += if b[i] == '\\' && i + 1 < b.len() { 2 } else { 1 };
            }
            // a trailing '.' is the statement terminator
            while i > st + 1 && b[i - 1] == '.' {
                i -= 1;
            }
            out.push(Tok::Word(b[st..i].iter().collect()));
            continue;
        }
        out.push(Tok::Punct(c));
        i += 1;
    }
    Some(out)
}

const KEYWORDS: &[&str] = &[
    "SELECT", "WHERE", "FILTER", "OPTIONAL", "UNION", "GRAPH", "PREFIX", "DISTINCT", "ORDER", "BY", "ASC", "DESC", "LIMIT", "OFFSET", "GROUP",
    "HAVING", "AS", "BIND", "VALUES", "MINUS", "INSERT", "DELETE", "DATA", "WITH", "USING", "FROM", "NAMED", "CONSTRUCT", "ASK", "NOT", "EXISTS",
    "CREATE", "DROP", "CLEAR", "SILENT", "DEFAULT", "ALL", "INTO", "LOAD", "COPY", "MOVE", "ADD", "TO",
];

const GAPS: &[&str] = &[" ", "\n", "\t ", "   ", "\r\n", " # note\n", "\n# x y z\r\n", " #c\r", "\n\n", " #\n", "\t#{ } . ;\n"];

fn variant(rng: &mut Rng, toks: &[Tok], mode: usize) -> String {
    let mut s = String::new();
    for (i, t) in toks.iter().enumerate() {
        match t {
            Tok::Gap(g) => {
                if mode & 1 != 0 && rng.below(3) != 0 {
                    s.push_str(GAPS[rng.below(GAPS.len())]);
                } else {
                    s.push_str(g);
                }
            }
            Tok::Word(w) => {
                let up = w.to_uppercase();
                if mode & 2 != 0 && KEYWORDS.contains(&up.as_str()) && rng.below(2) == 0 {
                    match rng.below(3) {
                        0 => s.push_str(&w.to_lowercase()),
                        1 => s.push_str(&up),
                        _ => {
                            let mut cs = w.chars();
                            if let Some(f) = cs.next() {
                                s.extend(f.to_uppercase());
                                s.push_str(&cs.as_str().to_lowercase());
                            }
                        }
                    }
                } else {
                    s.push_str(w);
                }
            }
            Tok::Atom(a) => s.push_str(a),
            Tok::Punct(c) => {
                let inner_open = matches!(c, '{' | '(');
                let inner_close = matches!(c, '}' | ')');
                let prev_gap = i > 0 && matches!(toks[i - 1], Tok::Gap(_));
                let next_gap = i + 1 < toks.len() && matches!(toks[i + 1], Tok::Gap(_));
                if mode & 4 != 0 && inner_close && !prev_gap && rng.below(2) == 0 {
                    s.push_str(GAPS[rng.below(GAPS.len())]);
                }
                s.push(*c);
                if mode & 4 != 0 && inner_open && !next_gap && rng.below(2) == 0 {
                    s.push_str(GAPS[rng.below(GAPS.len())]);
                }
            }
        }
    }
    s
}

fn corpus() -> Vec<String> {
    let root = PathBuf::from(env!("CARGO_MANIFEST_DIR"));
    let mut files = Vec::new();
    rust_files(&root.join("tests"), &mut files);
    rust_files(&root.join("examples"), &mut files);
    rust_files(&root.join("src"), &mut files);
    rust_files(&root.join("../datalog/tests"), &mut files);
    let mut seen = BTreeMap::new();
    for f in files {
        if let Ok(src) = fs::read_to_string(&f) {
            for l in literals(&src) {
                if l.len() < 12 || l.len() > 4000 || l.contains("{}") || l.contains("{:") {
                    continue;
                }
                let up = l.to_uppercase();
                if !(up.contains("SELECT") || up.contains("INSERT") || up.contains("DELETE") || up.contains("RULE") || up.contains("REGISTER") || up.contains("ASK") || up.contains("CONSTRUCT")) {
                    continue;
                }
                seen.entry(l).or_insert(f.clone());
            }
        }
    }
    let mut out = Vec::new();
    for (q, _) in seen {
        let ok = std::panic::catch_unwind(|| matches!(parse_combined_query(&q), Ok((rest, _)) if rest.trim().is_empty())).unwrap_or(false);
        if ok {
            out.push(q);
        }
    }
    out
}

fn render(q: &str) -> Result<String, String> {
    match parse_combined_query(q) {
        Ok((rest, mut tree)) => {
            let mut prefixes: Vec<_> = tree.prefixes.drain().collect();
            prefixes.sort();
            let kind = if tree.rule.is_some() || tree.register_clause.is_some() || tree.retrieve_clause.is_some() || tree.ml_predict.is_some()
                || !tree.model_decls.is_empty() || !tree.neural_relation_decls.is_empty() || !tree.train_neural_relation_decls.is_empty() { "extension" } else { "sparql" };
            Ok(format!("{} rest={:?} prefixes={:?} {:?}", kind, rest.trim(), prefixes, tree))
        }
        Err(e) => Err(format!("{:?}", e).chars().take(160).collect()),
    }
}

#[test]
fn layout_and_keyword_case_do_not_change_the_tree() {
    let corpus = corpus();
    println!("corpus: {} accepted query texts", corpus.len());
    assert!(corpus.len() > 50, "corpus too small: {}", corpus.len());
    let mut rng = Rng(0x9E3779B97F4A7C15);
    let mut classes: BTreeMap<String, (usize, String, String)> = BTreeMap::new();
    let mut variants = 0usize;
    for q in &corpus {
        let Some(toks) = tokenize(q) else { continue };
        // the tokenizer must be lossless on the original
        let same: String = variant(&mut Rng(1), &toks, 0);
        assert_eq!(&same, q, "tokenizer not lossless");
        let base = render(q).unwrap();
        if render(q).unwrap() != base {
            println!("unstable rendering: {:?}", q);
            continue;
        }
        for round in 0..40 {
            let mode = [1, 2, 4, 3, 5, 7, 1, 1][round % 8];
            let v = variant(&mut rng, &toks, mode);
            if &v == q {
                continue;
            }
            variants += 1;
            let got = std::panic::catch_unwind(|| render(&v)).unwrap_or_else(|_| Err("PANIC".to_string()));
            let verdict = match &got {
                Ok(r) if *r == base => continue,
                Ok(_) => "different-tree",
                Err(e) if e == "PANIC" => "panic",
                Err(_) => "rejected",
            };
            let kind = base.split(' ').next().unwrap_or("");
            let key = format!("{} {} mode={}", kind, verdict, mode);
            let e = classes.entry(key).or_insert((0, q.clone(), v.clone()));
            e.0 += 1;
            if v.len() < e.2.len() {
                e.1 = q.clone();
                e.2 = v.clone();
            }
        }
    }
    println!("variants tried: {}", variants);
    for (k, (n, q, v)) in &classes {
        println!("== {} x{}\n-- original:\n{}\n-- variant:\n{:?}\n-- base: {:?}\n-- got:  {:?}\n", k, n, q, v, render(q).map(|s| s.chars().take(600).collect::<String>()), render(v).map(|s| s.chars().take(600).collect::<String>()));
    }
    assert!(classes.is_empty(), "{} discrepancy classes", classes.len());
}

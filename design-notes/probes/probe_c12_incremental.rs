// Differential probe for C12: incremental cross-window reasoning against recomputation from scratch, at every evaluation time.
use datalog::cross_window_sds::{all_component_iris, sds_with_expiry_to_external, Sds, WindowData, WindowedTriple};
use datalog::parser_n3_logic::parse_n3_rules_for_sds;
use datalog::reasoning::materialisation::cross_window_incremental::{incremental_sds_plus, SdsWithExpiry};
use datalog::reasoning::materialisation::cross_window_naive::naive_sds_plus;
use datalog::reasoning::Reasoner;
use shared::dictionary::Dictionary;
use std::collections::{BTreeMap, BTreeSet, HashMap};
use std::sync::{Arc, RwLock};

struct Rng(u64);
impl Rng {
    fn next(&mut self) -> u64 { self.0 ^= self.0 << 13; self.0 ^= self.0 >> 7; self.0 ^= self.0 << 17; self.0 }
    fn below(&mut self, n: usize) -> usize { (self.next() % n as u64) as usize }
    fn chance(&mut self, pct: usize) -> bool { self.below(100) < pct }
}
const RULES: [&str; 6] = [
    "{ ?s wa:p ?v . ?s wb:q ?l } => { ?s wr:both ?l }",
    "{ ?s wa:p ?v } => { ?s wr:seen ?v }",
    "{ ?s wr:seen ?v . ?s wb:q ?l } => { ?l wr:via ?v }",
    "{ ?x wb:q ?y . ?y wb:q ?z } => { ?x wr:two ?z }",
    "{ ?x wr:two ?z . ?z wa:p ?v } => { ?x wr:far ?v }",
    "{ ?s wa:p ?v . ?t wa:p ?v } => { ?s wr:same ?t }",
];
fn external(result: &HashMap<String, Vec<shared::triple::Triple>>, dict: &Arc<RwLock<Dictionary>>) -> BTreeMap<String, BTreeSet<(String, String, String)>> {
    let d = dict.read().unwrap();
    let mut out = BTreeMap::new();
    for (comp, ts) in result {
        let set: BTreeSet<(String, String, String)> = ts.iter().map(|t| (d.decode(t.subject).unwrap_or("?").to_string(), d.decode(t.predicate).unwrap_or("?").to_string(), d.decode(t.object).unwrap_or("?").to_string())).collect();
        if !set.is_empty() { out.insert(comp.clone(), set); }
    }
    out
}
#[test]
fn incremental_equals_recomputation() {
    let seeds: u64 = std::env::var("PROBE_SEEDS").ok().and_then(|v| v.parse().ok()).unwrap_or(300);
    let mut bad = 0;
    for seed in 1..=seeds {
        let mut r = Rng(seed.wrapping_mul(0x9E3779B97F4A7C15) | 1);
        let (alpha_a, alpha_b) = (2 + r.below(8) as u64, 2 + r.below(12) as u64);
        let dict = Arc::new(RwLock::new(Dictionary::new()));
        let mut n3 = String::from("@prefix wa: <http://a/> .\n@prefix wb: <http://b/> .\n@prefix wr: <http://result/> .\n");
        let mut chosen = Vec::new();
        for rule in RULES.iter() { if r.chance(50) { n3.push_str(rule); n3.push('\n'); chosen.push(*rule); } }
        if chosen.is_empty() { n3.push_str(RULES[0]); n3.push('\n'); chosen.push(RULES[0]); }
        let mut reasoner = Reasoner::new();
        reasoner.dictionary = Arc::clone(&dict);
        let widths: HashMap<String, u64> = [("http://a/".to_string(), alpha_a), ("http://b/".to_string(), alpha_b)].into();
        let rules = match parse_n3_rules_for_sds(&n3, &mut reasoner, widths) { Ok((rules, _)) => rules, Err(e) => { println!("seed {} rules do not parse: {:?}", seed, e); bad += 1; continue; } };
        // the stream history
        let mut all_a: Vec<WindowedTriple> = Vec::new();
        let mut all_b: Vec<WindowedTriple> = Vec::new();
        let mut old: SdsWithExpiry = HashMap::new();
        let mut t = 1u64;
        let mut problems = Vec::new();
        for step in 0..8 {
            // new arrivals up to the evaluation time
            for _ in 0..r.below(3) { all_a.push(WindowedTriple { subject: format!("s{}", r.below(3)), predicate: "p".into(), object: format!("v{}", r.below(3)), event_time: t - r.below(2).min(t as usize - 1) as u64 }); }
            for _ in 0..r.below(3) { all_b.push(WindowedTriple { subject: format!("s{}", r.below(3)), predicate: "q".into(), object: format!("s{}", r.below(3)), event_time: t - r.below(2).min(t as usize - 1) as u64 }); }
            // the window content at t: what arrived and has not left the window (window-consistent history)
            let mut sds = Sds::new();
            sds.windows.insert("http://a/".into(), WindowData { alpha: alpha_a, triples: all_a.iter().filter(|w| w.event_time + alpha_a > t).cloned().collect() });
            sds.windows.insert("http://b/".into(), WindowData { alpha: alpha_b, triples: all_b.iter().filter(|w| w.event_time + alpha_b > t).cloned().collect() });
            sds.output_iris.insert("http://result/".into());
            let naive = external(&naive_sds_plus(&rules, &sds, &dict, t), &dict);
            let incr_internal = incremental_sds_plus(&rules, &sds, &old, &dict, t);
            let comps = all_component_iris(&sds);
            let incr = external(&sds_with_expiry_to_external(&incr_internal, &dict, &comps), &dict);
            if naive != incr {
                let mut diff = Vec::new();
                for comp in naive.keys().chain(incr.keys()).collect::<BTreeSet<_>>() {
                    let (n, i) = (naive.get(comp).cloned().unwrap_or_default(), incr.get(comp).cloned().unwrap_or_default());
                    for x in n.difference(&i).take(3) { diff.push(format!("missing in incremental {} {:?}", comp, x)); }
                    for x in i.difference(&n).take(3) { diff.push(format!("extra in incremental {} {:?}", comp, x)); }
                }
                problems.push(format!("step {} t={}: {}", step, t, diff.join("; ")));
                break;
            }
            old = incr_internal;
            t += 1 + r.below(4) as u64;
        }
        if !problems.is_empty() {
            bad += 1;
            println!("seed {} alpha a={} b={} rules {:?}\n  a {:?}\n  b {:?}\n  {}", seed, alpha_a, alpha_b, chosen,
                all_a.iter().map(|w| format!("{} p {}@{}", w.subject, w.object, w.event_time)).collect::<Vec<_>>(), all_b.iter().map(|w| format!("{} q {}@{}", w.subject, w.object, w.event_time)).collect::<Vec<_>>(), problems.join("\n  "));
        }
    }
    println!("incremental: checked {} histories, {} discrepancies", seeds, bad);
}

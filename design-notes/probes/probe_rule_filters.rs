use datalog::reasoning::Reasoner;
use shared::rule::{FilterCondition, Rule};
use shared::terms::Term;
fn run(op: &str, value: &str, facts: &[(&str, &str, &str)]) -> Vec<String> {
    let mut r = Reasoner::new();
    for (s, p, o) in facts { r.add_abox_triple(s, p, o); }
    let e = |r: &Reasoner, s: &str| r.dictionary.write().unwrap().encode(s);
    let (age, limit, ok) = (e(&r, "age"), e(&r, "limit"), e(&r, "ok"));
    let v = |s: &str| Term::Variable(s.to_string());
    let premise = if value.starts_with('?') { vec![(v("X"), Term::Constant(age), v("A")), (v("X"), Term::Constant(limit), v("L"))] } else { vec![(v("X"), Term::Constant(age), v("A"))] };
    r.add_rule(Rule { premise, negative_premise: vec![], filters: vec![FilterCondition { variable: "A".into(), operator: op.into(), value: value.trim_start_matches('?').to_string() }], conclusion: vec![(v("X"), Term::Constant(ok), Term::Constant(ok))] });
    r.infer_new_facts_semi_naive();
    let d = r.dictionary.read().unwrap();
    let mut out: Vec<String> = r.dataset_index.query(None, Some(ok), None).into_iter().map(|t| d.decode(t.subject).unwrap().to_string()).collect();
    out.sort();
    out
}
#[test]
fn filters() {
    let facts = [("al", "age", "12"), ("bob", "age", "30"), ("cy", "age", "unknown"), ("al", "limit", "18"), ("bob", "limit", "18"), ("cy", "limit", "18")];
    println!("A > 18        -> {:?}", run(">", "18", &facts));
    println!("A < 18        -> {:?}", run("<", "18", &facts));
    println!("A > ?L        -> {:?}", run(">", "?L", &facts));
    println!("A < ?L        -> {:?}", run("<", "?L", &facts));
    println!("A = unknown   -> {:?}", run("=", "unknown", &facts));
    println!("A != unknown  -> {:?}", run("!=", "unknown", &facts));
}

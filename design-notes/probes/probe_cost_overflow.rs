use kolibrie::execute_query::execute_sparql_query;
use kolibrie::sparql_database::SparqlDatabase;

#[test]
fn cross_product_cost_estimate() {
    let mut db = SparqlDatabase::new();
    let mut nt = String::new();
    for i in 0..3000 { nt.push_str(&format!("<http://s{}> <http://p{}> <http://o{}> .\n", i, i % 7, i)); }
    db.parse_ntriples_and_add(&nt);
    for k in 2..=7 {
        let pats: String = (0..k).map(|i| format!("?s{} ?p{} ?o{} . ", i, i, i)).collect();
        let q = format!("SELECT * WHERE {{ {} }} LIMIT 1", pats);
        let r = std::panic::catch_unwind(std::panic::AssertUnwindSafe(|| execute_sparql_query(&q, &mut db).map(|r| r.len())));
        println!("k={} -> {:?}", k, r.map_err(|_| "PANIC"));
    }
}

use kolibrie::execute_query::execute_sparql_query;
use kolibrie::sparql_database::SparqlDatabase;

// A query whose *estimated* size is astronomically large but whose answer is empty and cheap:
// the estimator multiplies cardinalities of unconnected patterns (saturating), then adds costs unchecked.
#[test]
fn empty_answer_with_huge_estimate() {
    let mut db = SparqlDatabase::new();
    let mut nt = String::new();
    for i in 0..2000 { nt.push_str(&format!("<http://s{}> <http://p{}> <http://o{}> .\n", i, i % 7, i)); }
    db.parse_ntriples_and_add(&nt);
    for k in 2..=8 {
        let pats: String = (0..k).map(|i| format!("?s{} ?p{} ?o{} . ", i, i, i)).collect();
        let q = format!("SELECT * WHERE {{ <http://nobody> <http://nothing> ?x . {} }}", pats);
        let r = std::panic::catch_unwind(std::panic::AssertUnwindSafe(|| execute_sparql_query(&q, &mut db).map(|r| r.len())));
        println!("k={} -> {:?}", k, r.map_err(|_| "PANIC"));
    }
}

// Probe C: does TRAIN NEURAL RELATION B (processed by prepare_extensions before
// the operation kind is checked) materialise relation A's predictions into the
// stored dataset even when the request is then rejected? Reports only.

use kolibrie::execute_query::{execute_sparql_query, execute_sparql_update};
use kolibrie::sparql_database::SparqlDatabase;
use shared::dataset_index::GraphId;

fn tmp_model_path(name: &str) -> String {
    let nanos = std::time::SystemTime::now()
        .duration_since(std::time::UNIX_EPOCH)
        .map(|d| d.as_nanos())
        .unwrap_or(0);
    let mut path = std::env::temp_dir();
    path.push(format!(
        "kolibrie_probe17c_{}_{}_{}.bin",
        name,
        std::process::id(),
        nanos
    ));
    path.to_string_lossy().into_owned()
}

fn snapshot(db: &SparqlDatabase) -> Vec<String> {
    let mut out: Vec<String> = db
        .dataset_index
        .all_quads()
        .into_iter()
        .map(|q| {
            let g = match q.graph {
                GraphId::Default => "DEFAULT".to_string(),
                GraphId::Named(id) => db.decode_any(id).unwrap_or_else(|| format!("#{id}")),
            };
            format!(
                "{} {} {} @{}",
                db.decode_any(q.subject).unwrap_or_default(),
                db.decode_any(q.predicate).unwrap_or_default(),
                db.decode_any(q.object).unwrap_or_default(),
                g
            )
        })
        .collect();
    out.sort();
    out
}

fn report(tag: &str, before: &[String], after: &[String]) {
    println!("PROBE {tag} before: {} quads", before.len());
    for q in before {
        println!("PROBE {tag} before   {q}");
    }
    println!("PROBE {tag} after: {} quads", after.len());
    for q in after {
        println!("PROBE {tag} after    {q}");
    }
    for q in after.iter().filter(|q| !before.contains(q)) {
        println!("PROBE {tag} ADDED    {q}");
    }
    for q in before.iter().filter(|q| !after.contains(q)) {
        println!("PROBE {tag} REMOVED  {q}");
    }
    println!(
        "PROBE {tag} DATASET_CHANGED={}",
        if before != after { "YES" } else { "NO" }
    );
}

/// Relation A (ex:predicted / "model_a") registered + trained, and every
/// A-prediction quad removed again: the baseline holds only the 12 base quads.
fn db_with_trained_a(save_a: &str) -> SparqlDatabase {
    let mut db = SparqlDatabase::new();
    for (sample, label, x0, x1) in [
        ("http://example.org/s0", "A", "1", "0"),
        ("http://example.org/s1", "A", "1", "0"),
        ("http://example.org/s2", "B", "0", "1"),
        ("http://example.org/s3", "B", "0", "1"),
    ] {
        db.add_triple_parts(sample, "http://example.org/x0", x0);
        db.add_triple_parts(sample, "http://example.org/x1", x1);
        db.add_triple_parts(sample, "http://example.org/gold", label);
    }
    let program = format!(
        r#"PREFIX ex: <http://example.org/>
MODEL "model_a" {{
    ARCH MLP {{ HIDDEN [4] }}
    OUTPUT EXCLUSIVE {{ "A", "B" }}
}}
NEURAL RELATION ex:predicted USING MODEL "model_a" {{
    INPUT {{ ?sample ex:x0 ?x0 . ?sample ex:x1 ?x1 . }}
    FEATURES {{ ?x0, ?x1 }}
}}
TRAIN NEURAL RELATION ex:predicted {{
    DATA {{ ?sample ex:gold ?label . }}
    LABEL ?label
    TARGET {{ ?sample ex:predicted ?label }}
    LOSS cross_entropy
    OPTIMIZER adam
    LEARNING_RATE 0.1
    EPOCHS 5
    BATCH_SIZE 4
    SAVE_TO "{save_a}"
}}
"#
    );
    kolibrie::neural_relations::execute_neural_program(&mut db, &program)
        .expect("setup training of A failed");
    if let Some(triples) = db
        .neural_materialized_triples
        .remove("http://example.org/predicted")
    {
        for t in triples {
            db.delete_triple(&t);
        }
    }
    db
}

/// Declarations for relation B whose TRAIN DATA pattern mentions A's predicate.
fn b_decls(save_b: &str) -> String {
    format!(
        r#"PREFIX ex: <http://example.org/>
MODEL "model_b" {{
    ARCH MLP {{ HIDDEN [4] }}
    OUTPUT EXCLUSIVE {{ "A", "B" }}
}}
NEURAL RELATION ex:second USING MODEL "model_b" {{
    INPUT {{ ?sample ex:x0 ?x0 . ?sample ex:x1 ?x1 . }}
    FEATURES {{ ?x0, ?x1 }}
}}
TRAIN NEURAL RELATION ex:second {{
    DATA {{ ?sample ex:predicted ?label . }}
    LABEL ?label
    TARGET {{ ?sample ex:second ?label }}
    LOSS cross_entropy
    OPTIMIZER adam
    LEARNING_RATE 0.1
    EPOCHS 3
    BATCH_SIZE 4
    SAVE_TO "{save_b}"
}}
"#
    )
}

fn run_case(tag: &str, tail: &str, via_update: bool) {
    let save_a = tmp_model_path(&format!("{tag}_a"));
    let save_b = tmp_model_path(&format!("{tag}_b"));
    let mut db = db_with_trained_a(&save_a);
    let request = format!("{}{}", b_decls(&save_b), tail);
    println!(
        "PROBE {tag} entry point: {}",
        if via_update { "execute_sparql_update" } else { "execute_sparql_query" }
    );
    println!("PROBE {tag} request:\n{request}");
    let before = snapshot(&db);
    let (rejected, shown) = if via_update {
        let r = execute_sparql_update(&request, &mut db);
        (r.is_err(), format!("{r:?}"))
    } else {
        let r = execute_sparql_query(&request, &mut db);
        (r.is_err(), format!("{r:?}"))
    };
    println!("PROBE {tag} result: {shown}");
    println!("PROBE {tag} REQUEST_REJECTED={}", if rejected { "YES" } else { "NO" });
    println!(
        "PROBE {tag} model_b artifact written to disk: {}",
        std::path::Path::new(&save_b).exists()
    );
    println!(
        "PROBE {tag} relation ex:second registered in db afterwards: {}",
        db.neural_relation_decls.contains_key("http://example.org/second")
    );
    let after = snapshot(&db);
    report(tag, &before, &after);
    let _ = std::fs::remove_file(&save_a);
    let _ = std::fs::remove_file(&save_b);
}

#[test]
fn probe_c1a_update_entry_point_given_train_plus_select() {
    run_case(
        "C1a",
        "SELECT ?sample ?l WHERE { ?sample ex:gold ?l . }\n",
        true,
    );
}

#[test]
fn probe_c1b_update_entry_point_given_train_only() {
    run_case("C1b", "", true);
}

#[test]
fn probe_c2_query_entry_point_given_train_plus_update() {
    run_case(
        "C2",
        "INSERT DATA { ex:s7 ex:gold \"A\" . }\n",
        false,
    );
}

// Control: same declarations + TRAIN with the non-neural ex:gold as DATA
// predicate, through the update entry point (rejected): nothing should change.
#[test]
fn probe_c0_control_train_data_without_neural_predicate() {
    let save_a = tmp_model_path("C0_a");
    let save_b = tmp_model_path("C0_b");
    let mut db = db_with_trained_a(&save_a);
    let request = b_decls(&save_b).replace(
        "DATA { ?sample ex:predicted ?label . }",
        "DATA { ?sample ex:gold ?label . }",
    );
    println!("PROBE C0 entry point: execute_sparql_update");
    println!("PROBE C0 request:\n{request}");
    let before = snapshot(&db);
    let r = execute_sparql_update(&request, &mut db);
    println!("PROBE C0 result: {r:?}");
    println!("PROBE C0 REQUEST_REJECTED={}", if r.is_err() { "YES" } else { "NO" });
    let after = snapshot(&db);
    report("C0", &before, &after);
    let _ = std::fs::remove_file(&save_a);
    let _ = std::fs::remove_file(&save_b);
}

use kolibrie::parser::parse_combined_query;
use kolibrie::execute_query::execute_sparql_query;
use kolibrie::sparql_database::SparqlDatabase;

fn depth() -> usize { std::env::var("PROBE_DEPTH").ok().and_then(|v| v.parse().ok()).unwrap_or(120) }

#[test]
fn cost_filter_parens() {
    let d = depth();
    let text = format!("SELECT * WHERE {{ ?s ?p ?o FILTER({}?o > 1{}) }}", "(".repeat(d), ")".repeat(d));
    println!("parens ok={}", parse_combined_query(&text).is_ok());
}
#[test]
fn cost_groups() {
    let d = depth();
    let text = format!("SELECT * WHERE {}{}", "{ ".repeat(d), "} ".repeat(d));
    println!("groups ok={}", parse_combined_query(&text).is_ok());
}
#[test]
fn cost_quoted() {
    let d = depth();
    let text = format!("SELECT * WHERE {{ {}<http://a>{} <http://p> ?o }}", "<< ".repeat(d), " <http://b> <http://c> >>".repeat(d));
    println!("quoted ok={}", parse_combined_query(&text).is_ok());
}
#[test]
fn cost_and_chain_exec() {
    let d = depth();
    let chain = vec!["?o > 0"; d].join(" && ");
    let text = format!("SELECT * WHERE {{ ?s ?p ?o FILTER({}) }}", chain);
    let mut db = SparqlDatabase::new();
    db.parse_ntriples_and_add("<http://a> <http://p> \"1\" .\n");
    println!("and rows={:?}", execute_sparql_query(&text, &mut db).map(|r| r.len()));
}
#[test]
fn cost_plus_chain_exec() {
    let d = depth();
    let chain = vec!["1"; d].join(" + ");
    let text = format!("SELECT * WHERE {{ ?s ?p ?o FILTER(?o < {}) }}", chain);
    let mut db = SparqlDatabase::new();
    db.parse_ntriples_and_add("<http://a> <http://p> \"1\" .\n");
    println!("plus rows={:?}", execute_sparql_query(&text, &mut db).map(|r| r.len()));
}
#[test]
fn cost_many_filters() {
    let d = depth();
    let text = format!("SELECT * WHERE {{ ?s ?p ?o {} }}", "FILTER(?o > 0) ".repeat(d));
    let mut db = SparqlDatabase::new();
    db.parse_ntriples_and_add("<http://a> <http://p> \"1\" .\n");
    println!("filters rows={:?}", execute_sparql_query(&text, &mut db).map(|r| r.len()));
}
#[test]
fn cost_many_patterns() {
    let d = depth();
    let text = format!("SELECT * WHERE {{ {} }}", (0..d).map(|i| format!("?s <http://p> ?o{} . ", i)).collect::<String>());
    let mut db = SparqlDatabase::new();
    db.parse_ntriples_and_add("<http://a> <http://p> \"1\" .\n");
    println!("patterns rows={:?}", execute_sparql_query(&text, &mut db).map(|r| r.len()));
}
#[test]
fn cost_many_optionals() {
    let d = depth();
    let text = format!("SELECT * WHERE {{ ?s ?p ?o . {} }}", "OPTIONAL { ?s ?p ?x } ".repeat(d));
    println!("{:?}", parse_combined_query(&text).map(|_| ()).map_err(|e| format!("{:?}", e).chars().take(200).collect::<String>()));
    let mut db = SparqlDatabase::new();
    db.parse_ntriples_and_add("<http://a> <http://p> \"1\" .\n");
    println!("optionals rows={:?}", execute_sparql_query(&text, &mut db).map(|r| r.len()));
}
fn exec(name: &str, text: String) {
    let mut db = SparqlDatabase::new();
    db.parse_ntriples_and_add("<http://a> <http://p> \"1\" .\n");
    println!("{} rows={:?}", name, execute_sparql_query(&text, &mut db).map(|r| r.len()).map_err(|e| e.chars().take(80).collect::<String>()));
}
#[test]
fn cost_mixed_bind() {
    let d = depth();
    exec("mixedbind", format!("SELECT * WHERE {{ {} }}", (0..d).map(|i| format!("?s <http://p> ?o{} . BIND(CONCAT(?o{}, \"x\") AS ?b{}) ", i, i, i)).collect::<String>()));
}
#[test]
fn cost_many_unions() {
    let d = depth();
    exec("unions", format!("SELECT * WHERE {{ {} }}", (0..d).map(|i| format!("{{ ?s <http://p> ?o{} }} UNION {{ ?s <http://q> ?o{} }} ", i, i)).collect::<String>()));
}
#[test]
fn cost_many_graphs() {
    let d = depth();
    exec("graphs", format!("SELECT * WHERE {{ {} }}", (0..d).map(|i| format!("GRAPH ?g{} {{ ?s <http://p> ?o{} }} ", i, i)).collect::<String>()));
}
#[test]
fn cost_many_values() {
    let d = depth();
    exec("values", format!("SELECT * WHERE {{ ?s ?p ?o {} }}", (0..d).map(|i| format!("VALUES ?v{} {{ 1 }} ", i)).collect::<String>()));
}
#[test]
fn cost_many_subqueries() {
    let d = depth();
    exec("subq", format!("SELECT * WHERE {{ {} }}", (0..d).map(|i| format!("{{ SELECT ?s WHERE {{ ?s <http://p> ?o{} }} }} ", i)).collect::<String>()));
}

// Model probe for C10: each firing of a single-window continuous query sees exactly the reported window, passed through the stream operator.
use kolibrie::rsp::s2r::{CSPARQLWindow, Report, ReportStrategy, Tick};
use kolibrie::rsp_engine::{OperationMode, QueryExecutionMode, RSPBuilder, RSPEngine, ResultConsumer, SimpleR2R};
use shared::triple::Triple;
use std::collections::BTreeSet;
use std::sync::{Arc, Mutex};

struct Rng(u64);
impl Rng {
    fn next(&mut self) -> u64 { self.0 ^= self.0 << 13; self.0 ^= self.0 >> 7; self.0 ^= self.0 << 17; self.0 }
    fn below(&mut self, n: usize) -> usize { (self.next() % n as u64) as usize }
    fn chance(&mut self, pct: usize) -> bool { self.below(100) < pct }
}
#[test]
fn firings_see_the_current_window_only() {
    let seeds: u64 = std::env::var("PROBE_SEEDS").ok().and_then(|v| v.parse().ok()).unwrap_or(120);
    let mut bad = 0;
    for seed in 1..=seeds {
        let mut r = Rng(seed.wrapping_mul(0x9E3779B97F4A7C15) | 1);
        let step = 1 + r.below(4);
        let range = step * (1 + r.below(3));
        let op = ["RSTREAM", "ISTREAM", "DSTREAM"][r.below(3)];
        // the stream: unique subjects, some of the wanted type, in-order timestamps with gaps of at most one step
        let mut stream: Vec<(String, bool, usize)> = Vec::new();
        let mut ts = 1 + r.below(3);
        for i in 0..10 + r.below(14) { stream.push((format!("http://test/s{}_{}", seed, i), r.chance(70), ts)); ts += r.below(step + 1); }
        // oracle for the window contents: the window operator itself (validated separately against the interval model)
        let mut report = Report::new();
        report.add(ReportStrategy::OnWindowClose);
        let mut w: CSPARQLWindow<String> = CSPARQLWindow::new(range, step, report, Tick::TimeDriven, "w".to_string());
        let contents: Arc<Mutex<Vec<BTreeSet<String>>>> = Arc::new(Mutex::new(Vec::new()));
        let c2 = contents.clone();
        w.register_callback(Box::new(move |c| { c2.lock().unwrap().push(c.iter().cloned().collect()); }));
        for (s, _, t) in &stream { w.add_to_window(s.clone(), *t); }
        let wanted: BTreeSet<String> = stream.iter().filter(|(_, m, _)| *m).map(|(s, _, _)| s.clone()).collect();
        let mut want: Vec<String> = Vec::new();
        let mut prev: BTreeSet<String> = BTreeSet::new();
        for content in contents.lock().unwrap().iter() {
            let rows: BTreeSet<String> = content.intersection(&wanted).cloned().collect();
            match op { "RSTREAM" => want.extend(rows.iter().cloned()), "ISTREAM" => want.extend(rows.difference(&prev).cloned()), _ => want.extend(prev.difference(&rows).cloned()) }
            prev = rows;
        }
        want.sort();
        // the engine
        let got_rows: Arc<Mutex<Vec<Vec<(String, String)>>>> = Arc::new(Mutex::new(Vec::new()));
        let g2 = got_rows.clone();
        let consumer = ResultConsumer { function: Arc::new(move |row: Vec<(String, String)>| { g2.lock().unwrap().push(row); }) };
        let query = format!("REGISTER {} <http://out/stream> AS SELECT ?s FROM NAMED WINDOW :w ON ?stream [RANGE {} STEP {}] WHERE {{ WINDOW :w {{ ?s a <http://test/Wanted> . }} }}", op, range, step);
        let res = std::panic::catch_unwind(std::panic::AssertUnwindSafe(|| {
            let mut engine: RSPEngine<Triple, Vec<(String, String)>> = RSPBuilder::new().add_rsp_ql_query(&query).add_consumer(consumer).add_r2r(Box::new(SimpleR2R::with_execution_mode(QueryExecutionMode::Volcano))).set_operation_mode(OperationMode::SingleThread).build().expect("build");
            engine.parse_data("<http://test/prime> a <http://test/Wanted> . <http://test/prime> a <http://test/Other> .");
            for (s, m, t) in &stream {
                let data = format!("<{}> a <http://test/{}> .", s, if *m { "Wanted" } else { "Other" });
                for tr in engine.parse_data(&data) { engine.add(tr, *t); }
            }
        }));
        if res.is_err() { bad += 1; println!("seed {} PANIC {}", seed, query); continue; }
        let mut got: Vec<String> = got_rows.lock().unwrap().iter().map(|row| row.iter().find(|(k, _)| k == "s").map(|(_, v)| v.clone()).unwrap_or_else(|| format!("{:?}", row))).collect();
        got.sort();
        if std::env::var("PROBE_SHOW").is_ok() { println!("seed {} {} RANGE {} STEP {} rows {}", seed, op, range, step, want.len()); }
        if got != want {
            bad += 1;
            let missing: Vec<&String> = want.iter().filter(|x| !got.contains(x)).take(4).collect();
            let extra: Vec<&String> = got.iter().filter(|x| !want.contains(x)).take(4).collect();
            println!("seed {} {} RANGE {} STEP {}: got {} rows want {}\n  stream {:?}\n  missing {:?} extra {:?}", seed, op, range, step, got.len(), want.len(),
                stream.iter().map(|(s, m, t)| format!("{}{}@{}", s.rsplit('/').next().unwrap(), if *m { "" } else { "-" }, t)).collect::<Vec<_>>(), missing, extra);
        }
    }
    println!("firings: checked {} streams, {} discrepancies", seeds, bad);
}

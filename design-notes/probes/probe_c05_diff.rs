// Differential probe for C05 / C18: random positive Datalog programs over triples; every forward strategy against a naive least fixpoint,
// backward chaining against the model.
use datalog::reasoning::Reasoner;
use shared::rule::Rule;
use shared::terms::Term;
use std::collections::{BTreeSet, HashMap};

struct Rng(u64);
impl Rng {
    fn next(&mut self) -> u64 { self.0 ^= self.0 << 13; self.0 ^= self.0 >> 7; self.0 ^= self.0 << 17; self.0 }
    fn below(&mut self, n: usize) -> usize { (self.next() % n as u64) as usize }
    fn chance(&mut self, pct: usize) -> bool { self.below(100) < pct }
}
#[derive(Clone, Debug, PartialEq, Eq, PartialOrd, Ord)]
enum T { V(String), C(String) }
type Atom = (T, T, T);
#[derive(Clone, Debug)]
struct R { body: Vec<Atom>, head: Vec<Atom> }
type Fact = (String, String, String);

fn gen_atom(r: &mut Rng, vars: &[&str], var_pred: bool) -> Atom {
    let t = |r: &mut Rng| if r.chance(70) { T::V(vars[r.below(vars.len())].to_string()) } else { T::C(format!("c{}", r.below(4))) };
    let p = if var_pred && r.chance(10) { T::V("P".into()) } else { T::C(format!("r{}", r.below(3))) };
    (t(r), p, t(r))
}
fn vars_of(a: &Atom) -> Vec<String> { [&a.0, &a.1, &a.2].iter().filter_map(|t| if let T::V(v) = t { Some(v.clone()) } else { None }).collect() }
fn gen_rule(r: &mut Rng, max_body: usize, var_pred: bool) -> R {
    let vars = ["X", "Y", "Z"];
    let nb = 1 + r.below(max_body);
    let body: Vec<Atom> = (0..nb).map(|_| gen_atom(r, &vars, var_pred)).collect();
    let bound: Vec<String> = body.iter().flat_map(vars_of).collect();
    let nh = 1 + r.below(2);
    let mut head = Vec::new();
    for _ in 0..nh {
        let t = |r: &mut Rng| if !bound.is_empty() && r.chance(75) { T::V(bound[r.below(bound.len())].clone()) } else { T::C(format!("c{}", r.below(4))) };
        let p = if var_pred && bound.contains(&"P".to_string()) && r.chance(30) { T::V("P".into()) } else { T::C(format!("r{}", r.below(3))) };
        head.push((t(r), p, t(r)));
    }
    R { body, head }
}
fn subst(t: &T, b: &HashMap<String, String>) -> Option<String> { match t { T::C(c) => Some(c.clone()), T::V(v) => b.get(v).cloned() } }
fn match_atom(a: &Atom, f: &Fact, b: &HashMap<String, String>) -> Option<HashMap<String, String>> {
    let mut b = b.clone();
    for (t, v) in [(&a.0, &f.0), (&a.1, &f.1), (&a.2, &f.2)] {
        match t { T::C(c) => if c != v { return None; }, T::V(x) => match b.get(x) { Some(w) => if w != v { return None; }, None => { b.insert(x.clone(), v.clone()); } } }
    }
    Some(b)
}
fn model(facts: &BTreeSet<Fact>, rules: &[R]) -> BTreeSet<Fact> {
    let mut m = facts.clone();
    loop {
        let mut new = BTreeSet::new();
        for r in rules {
            let mut bs = vec![HashMap::new()];
            for a in &r.body { let mut nb = Vec::new(); for b in &bs { for f in &m { if let Some(b2) = match_atom(a, f, b) { nb.push(b2); } } } bs = nb; }
            for b in &bs { for h in &r.head { if let (Some(s), Some(p), Some(o)) = (subst(&h.0, b), subst(&h.1, b), subst(&h.2, b)) { let f = (s, p, o); if !m.contains(&f) { new.insert(f); } } } }
        }
        if new.is_empty() { return m; }
        m.extend(new);
    }
}
fn build(facts: &BTreeSet<Fact>, rules: &[R]) -> Reasoner {
    let mut rs = Reasoner::new();
    for (s, p, o) in facts { rs.add_abox_triple(s, p, o); }
    for r in rules {
        let enc = |rs: &Reasoner, t: &T| match t { T::V(v) => Term::Variable(v.clone()), T::C(c) => Term::Constant(rs.dictionary.write().unwrap().encode(c)) };
        let body = r.body.iter().map(|a| (enc(&rs, &a.0), enc(&rs, &a.1), enc(&rs, &a.2))).collect();
        let head = r.head.iter().map(|a| (enc(&rs, &a.0), enc(&rs, &a.1), enc(&rs, &a.2))).collect();
        rs.add_rule(Rule { premise: body, negative_premise: vec![], filters: vec![], conclusion: head });
    }
    rs
}
fn store(rs: &Reasoner) -> BTreeSet<Fact> {
    let d = rs.dictionary.read().unwrap();
    rs.dataset_index.query(None, None, None).into_iter().map(|t| (d.decode(t.subject).unwrap_or("?").to_string(), d.decode(t.predicate).unwrap_or("?").to_string(), d.decode(t.object).unwrap_or("?").to_string())).collect()
}
fn rule_text(r: &R) -> String {
    let a = |a: &Atom| format!("({:?} {:?} {:?})", a.0, a.1, a.2).replace("V(\"", "?").replace("C(\"", "").replace("\")", "");
    format!("{} => {}", r.body.iter().map(a).collect::<Vec<_>>().join(" , "), r.head.iter().map(a).collect::<Vec<_>>().join(" , "))
}

#[test]
fn forward_strategies_compute_the_least_model() {
    let seeds: u64 = std::env::var("PROBE_SEEDS").ok().and_then(|v| v.parse().ok()).unwrap_or(300);
    let start: u64 = std::env::var("PROBE_START").ok().and_then(|v| v.parse().ok()).unwrap_or(1);
    let var_pred = std::env::var("PROBE_VAR_PRED").is_ok();
    let mut bad = 0;
    for seed in start..start + seeds {
        let mut r = Rng(seed.wrapping_mul(0x9E3779B97F4A7C15) | 1);
        let mut facts = BTreeSet::new();
        for _ in 0..3 + r.below(8) { facts.insert((format!("c{}", r.below(4)), format!("r{}", r.below(3)), format!("c{}", r.below(4)))); }
        let max_body = if std::env::var("PROBE_BODY3").is_ok() { 3 } else { 2 };
        let rules: Vec<R> = (0..1 + r.below(3)).map(|_| gen_rule(&mut r, max_body, var_pred)).collect();
        let want = model(&facts, &rules);
        let strategies: Vec<(&str, Box<dyn Fn(&mut Reasoner) -> Vec<shared::triple::Triple>>)> = vec![
            ("semi_naive", Box::new(|rs: &mut Reasoner| rs.infer_new_facts_semi_naive())),
            ("naive", Box::new(|rs: &mut Reasoner| rs.infer_new_facts_naive())),
            ("parallel", Box::new(|rs: &mut Reasoner| rs.infer_new_facts_semi_naive_parallel())),
            ("with_repairs", Box::new(|rs: &mut Reasoner| rs.infer_new_facts_semi_naive_with_repairs())),
        ];
        for (name, run) in &strategies {
            let mut rs = build(&facts, &rules);
            let res = std::panic::catch_unwind(std::panic::AssertUnwindSafe(|| { let n = run(&mut rs); let again = run(&mut rs); (n.len(), again.len(), store(&rs)) }));
            match res {
                Err(_) => { bad += 1; println!("seed {} {} PANIC\n  facts {:?}\n  rules {:?}", seed, name, facts, rules.iter().map(rule_text).collect::<Vec<_>>()); }
                Ok((n, again, got)) => {
                    if got != want || again != 0 || n != want.len() - facts.len() {
                        bad += 1;
                        println!("seed {} {} MISMATCH new={} (want {}) second_run={}\n  facts {:?}\n  rules {:?}\n  missing {:?}\n  extra {:?}", seed, name, n, want.len() - facts.len(), again, facts,
                            rules.iter().map(rule_text).collect::<Vec<_>>(), want.difference(&got).collect::<Vec<_>>(), got.difference(&want).collect::<Vec<_>>());
                    }
                }
            }
        }
    }
    println!("forward: checked {} programs, {} discrepancies", seeds, bad);
}

fn resolve(t: &Term, b: &HashMap<String, Term>, depth: usize) -> Option<u32> {
    match t { Term::Constant(c) => Some(*c), Term::Variable(v) => if depth > 50 { None } else { b.get(v).and_then(|t2| resolve(t2, b, depth + 1)) }, _ => None }
}
fn model_with_height(facts: &BTreeSet<Fact>, rules: &[R]) -> Vec<(Fact, usize)> {
    let mut m: Vec<(Fact, usize)> = facts.iter().map(|f| (f.clone(), 0)).collect();
    let mut round = 0;
    loop {
        round += 1;
        let cur: BTreeSet<Fact> = m.iter().map(|(f, _)| f.clone()).collect();
        let mut new = BTreeSet::new();
        for r in rules {
            let mut bs = vec![HashMap::new()];
            for a in &r.body { let mut nb = Vec::new(); for b in &bs { for f in &cur { if let Some(b2) = match_atom(a, f, b) { nb.push(b2); } } } bs = nb; }
            for b in &bs { for h in &r.head { if let (Some(s), Some(p), Some(o)) = (subst(&h.0, b), subst(&h.1, b), subst(&h.2, b)) { let f = (s, p, o); if !cur.contains(&f) { new.insert(f); } } } }
        }
        if new.is_empty() { return m; }
        for f in new { m.push((f, round)); }
    }
}
#[test]
fn backward_chaining_is_sound_and_complete_within_depth() {
    let seeds: u64 = std::env::var("PROBE_SEEDS").ok().and_then(|v| v.parse().ok()).unwrap_or(300);
    let start: u64 = std::env::var("PROBE_START").ok().and_then(|v| v.parse().ok()).unwrap_or(1);
    let mut bad = 0;
    for seed in start..start + seeds {
        let mut r = Rng(seed.wrapping_mul(0xC2B2AE3D27D4EB4F) | 1);
        let mut facts = BTreeSet::new();
        for _ in 0..2 + r.below(5) { facts.insert((format!("c{}", r.below(4)), format!("r{}", r.below(3)), format!("c{}", r.below(4)))); }
        // layered predicates (rule i concludes r(i+1) from r0..ri): backward chaining is exponential in its depth bound on recursive programs
        let mut rules: Vec<R> = Vec::new();
        for i in 0..1 + r.below(2) {
            let mut rule = gen_rule(&mut r, 2, false);
            if std::env::var("PROBE_RECURSIVE").is_err() {
                for a in rule.body.iter_mut() { a.1 = T::C(format!("r{}", r.below(i + 1))); }
                for a in rule.head.iter_mut() { a.1 = T::C(format!("r{}", i + 1)); }
            }
            rules.push(rule);
        }
        let m = model_with_height(&facts, &rules);
        let rs = build(&facts, &rules);
        if std::env::var("PROBE_SHOW").is_ok() { println!("seed {} rules {:?}", seed, rules.iter().map(rule_text).collect::<Vec<_>>()); }
        for p in 0..3 {
            let pid = rs.dictionary.write().unwrap().encode(&format!("r{}", p));
            // goals with differently named variables, and half-bound goals
            let goals: Vec<(Term, Term)> = vec![(Term::Variable("A".into()), Term::Variable("B".into())), (Term::Variable("X".into()), Term::Variable("Y".into())), (Term::Variable("Y".into()), Term::Variable("X".into())),
                (Term::Constant(rs.dictionary.write().unwrap().encode("c1")), Term::Variable("Z".into())), (Term::Variable("X".into()), Term::Variable("X".into()))];
            for (gs, go) in goals {
                let goal = (gs.clone(), Term::Constant(pid), go.clone());
                let answers = rs.backward_chaining(&goal);
                let d = rs.dictionary.read().unwrap();
                let mut got: BTreeSet<Fact> = BTreeSet::new();
                let mut nonground = 0;
                for b in &answers {
                    match (resolve(&gs, b, 0), resolve(&go, b, 0)) {
                        (Some(s), Some(o)) => { got.insert((d.decode(s).unwrap_or("?").to_string(), format!("r{}", p), d.decode(o).unwrap_or("?").to_string())); }
                        _ => nonground += 1,
                    }
                }
                let matches_goal = |f: &Fact| -> bool {
                    if f.1 != format!("r{}", p) { return false; }
                    let okc = |t: &Term, v: &str| match t { Term::Constant(c) => d.decode(*c) == Some(v), _ => true };
                    if !okc(&gs, &f.0) || !okc(&go, &f.2) { return false; }
                    if let (Term::Variable(a), Term::Variable(b)) = (&gs, &go) { if a == b && f.0 != f.2 { return false; } }
                    true
                };
                let all: BTreeSet<Fact> = m.iter().map(|(f, _)| f.clone()).filter(|f| matches_goal(f)).collect();
                let shallow: BTreeSet<Fact> = m.iter().filter(|(_, h)| *h <= 4).map(|(f, _)| f.clone()).filter(|f| matches_goal(f)).collect();
                let unsound: Vec<&Fact> = got.difference(&all).collect();
                let missed: Vec<&Fact> = shallow.difference(&got).collect();
                if !unsound.is_empty() || !missed.is_empty() || nonground > 0 {
                    bad += 1;
                    println!("seed {} goal ({:?} r{} {:?}) unsound {:?} missed {:?} nonground {}\n  facts {:?}\n  rules {:?}", seed, gs, p, go, unsound, missed, nonground, facts, rules.iter().map(rule_text).collect::<Vec<_>>());
                }
            }
        }
    }
    println!("backward: checked {} programs, {} discrepancies", seeds, bad);
}

#[test]
fn repairs_are_the_maximal_consistent_subsets() {
    let seeds: u64 = std::env::var("PROBE_SEEDS").ok().and_then(|v| v.parse().ok()).unwrap_or(300);
    let start: u64 = std::env::var("PROBE_START").ok().and_then(|v| v.parse().ok()).unwrap_or(1);
    let mut bad = 0;
    for seed in start..start + seeds {
        let mut r = Rng(seed.wrapping_mul(0x94D049BB133111EB) | 1);
        let mut facts = BTreeSet::new();
        for _ in 0..3 + r.below(6) { facts.insert((format!("c{}", r.below(3)), format!("r{}", r.below(3)), format!("c{}", r.below(3)))); }
        let facts_v: Vec<Fact> = facts.iter().cloned().collect();
        let var_pred = r.chance(25);
        let constraints: Vec<R> = (0..1 + r.below(2)).map(|_| { let mut c = gen_rule(&mut r, 2, var_pred); c.head.clear(); c }).collect();
        let violates = |subset: &BTreeSet<Fact>| constraints.iter().any(|c| {
            let mut bs = vec![HashMap::new()];
            for a in &c.body { let mut nb = Vec::new(); for b in &bs { for f in subset { if let Some(b2) = match_atom(a, f, b) { nb.push(b2); } } } bs = nb; }
            !bs.is_empty()
        });
        // brute force: all consistent subsets, keep the subset-maximal ones
        let n = facts_v.len();
        let mut consistent: Vec<BTreeSet<Fact>> = Vec::new();
        for mask in 0..(1u32 << n) {
            let sub: BTreeSet<Fact> = (0..n).filter(|i| mask & (1 << i) != 0).map(|i| facts_v[i].clone()).collect();
            if !violates(&sub) { consistent.push(sub); }
        }
        let maximal: Vec<&BTreeSet<Fact>> = consistent.iter().filter(|s| !consistent.iter().any(|t| t.len() > s.len() && t.is_superset(s))).collect();
        let mut want: BTreeSet<Fact> = maximal.first().map(|s| (*s).clone()).unwrap_or_default();
        for m in &maximal { want = want.intersection(m).cloned().collect(); }
        let mut rs = Reasoner::new();
        for (s, p, o) in &facts { rs.add_abox_triple(s, p, o); }
        for c in &constraints {
            let enc = |rs: &Reasoner, t: &T| match t { T::V(v) => Term::Variable(v.clone()), T::C(c) => Term::Constant(rs.dictionary.write().unwrap().encode(c)) };
            let body = c.body.iter().map(|a| (enc(&rs, &a.0), enc(&rs, &a.1), enc(&rs, &a.2))).collect();
            rs.add_constraint(Rule { premise: body, negative_premise: vec![], filters: vec![], conclusion: vec![] });
        }
        let goal = (Term::Variable("S".into()), Term::Variable("P".into()), Term::Variable("O".into()));
        let res = std::panic::catch_unwind(std::panic::AssertUnwindSafe(|| rs.query_with_repairs(&goal)));
        let answers = match res { Ok(a) => a, Err(_) => { bad += 1; println!("seed {} PANIC facts {:?} constraints {:?}", seed, facts, constraints.iter().map(rule_text).collect::<Vec<_>>()); continue; } };
        let d = rs.dictionary.read().unwrap();
        let got: BTreeSet<Fact> = answers.iter().map(|b| (d.decode(b["S"]).unwrap().to_string(), d.decode(b["P"]).unwrap().to_string(), d.decode(b["O"]).unwrap().to_string())).collect();
        if got != want || answers.len() != got.len() {
            bad += 1;
            println!("seed {} MISMATCH ({} answers)\n  facts {:?}\n  constraints {:?}\n  repairs {:?}\n  missing {:?}\n  extra {:?}", seed, answers.len(), facts, constraints.iter().map(rule_text).collect::<Vec<_>>(), maximal.len(), want.difference(&got).collect::<Vec<_>>(), got.difference(&want).collect::<Vec<_>>());
        }
    }
    println!("repairs: checked {} programs, {} discrepancies", seeds, bad);
}

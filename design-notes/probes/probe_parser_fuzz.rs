use kolibrie::parser::{parse_combined_query, parse_group_graph_pattern, parse_sparql_query};
use std::panic;

struct Rng(u64);
impl Rng {
    fn next(&mut self) -> u64 { self.0 ^= self.0 << 13; self.0 ^= self.0 >> 7; self.0 ^= self.0 << 17; self.0 }
    fn below(&mut self, n: usize) -> usize { (self.next() % n as u64) as usize }
}

const CORPUS: &[&str] = &[
    "PREFIX ex: <http://e/> SELECT ?s ?o WHERE { ?s ex:p ?o . FILTER(?o > 3 && ?o < 10) } ORDER BY DESC(?o) LIMIT 5",
    "SELECT DISTINCT ?g (SUM(?v) AS ?t) FROM <http://e/g> FROM NAMED <http://e/h> WHERE { GRAPH ?g { ?s <http://e/v> ?v } } GROUP BY ?g",
    "SELECT * WHERE { { ?s ?p \"lit\\\"x\"@en } UNION { ?s ?p 'single' } VALUES (?s ?p) { (<http://e/a> UNDEF) } BIND(CONCAT(?s, \"x\") AS ?y) }",
    "INSERT DATA { GRAPH <http://e/g> { <http://e/s> <http://e/p> \"v\"^^<http://www.w3.org/2001/XMLSchema#integer> , _:b1 . } }",
    "DELETE { ?s ?p ?o } INSERT { << ?s ?p ?o >> <http://e/src> _:x } WHERE { ?s ?p ?o . { SELECT ?s WHERE { ?s a <http://e/T> } LIMIT 2 } }",
    "REGISTER RSTREAM <http://out/s> AS SELECT ?s FROM NAMED WINDOW :w ON :stream1 [RANGE PT10S STEP PT2S] WHERE { WINDOW :w { ?s a <http://e/T> } }",
    "RULE :R :- CONSTRUCT { ?s <http://e/q> ?o } WHERE { ?s <http://e/p> ?o . FILTER(?o != 3) } SELECT ?s WHERE { ?s <http://e/q> ?o }",
    "SELECT ?x WHERE { ?x <http://e/p> 1.5e3 ; <http://e/q> -2 , +3.0 . ?x ex:pre\\.fix%41 true . # comment\n }",
    "ML.PREDICT(MODEL \"m\", INPUT { SELECT ?x WHERE { ?x <http://e/p> ?y } }, OUTPUT ?z)",
];
const ALPHABET: &[&str] = &["{", "}", "(", ")", "<", ">", "<<", ">>", "\"", "'", "\\", "#", "?", "$", ".", ";", ",", ":", "_:", "@", "^^", " ", "\n", "\t", "é", "€", "中", "\u{1F600}", "0", "9", "a", "Z", "|", "&", "!", "=", "*", "/", "+", "-", "%", "PT", "[", "]", "{|", "|}", "\u{0}", "\u{feff}"];

fn mutate(rng: &mut Rng, src: &str) -> String {
    let mut chars: Vec<char> = src.chars().collect();
    for _ in 0..(1 + rng.below(4)) {
        if chars.is_empty() { break; }
        let pos = rng.below(chars.len() + 1);
        match rng.below(4) {
            0 => { let ins: Vec<char> = ALPHABET[rng.below(ALPHABET.len())].chars().collect(); for (k, c) in ins.into_iter().enumerate() { chars.insert((pos + k).min(chars.len()), c); } }
            1 => { if pos < chars.len() { chars.remove(pos); } }
            2 => { if pos < chars.len() { let rep: Vec<char> = ALPHABET[rng.below(ALPHABET.len())].chars().collect(); chars[pos] = rep[0]; } }
            _ => { let cut = rng.below(chars.len() + 1); chars.truncate(cut.max(1)); }
        }
    }
    chars.into_iter().collect()
}

#[test]
fn mutated_queries_never_panic() {
    panic::set_hook(Box::new(|_| {}));
    let mut rng = Rng(0x1234_5678_9abc_def1);
    let mut failures: Vec<String> = Vec::new();
    for round in 0..60000 {
        let base = CORPUS[round % CORPUS.len()];
        let input = mutate(&mut rng, base);
        let i2 = input.clone();
        let r = panic::catch_unwind(move || {
            let _ = parse_combined_query(&i2);
            let _ = parse_sparql_query(&i2);
            let _ = parse_group_graph_pattern(&i2);
        });
        if r.is_err() && failures.len() < 12 {
            failures.push(input);
        }
    }
    let _ = panic::take_hook();
    assert!(failures.is_empty(), "panicking inputs ({}):\n{}", failures.len(), failures.iter().map(|f| format!("{:?}", f)).collect::<Vec<_>>().join("\n"));
}

use kolibrie::execute_query::execute_sparql_query;
use kolibrie::sparql_database::SparqlDatabase;
#[test]
fn sum_of_nothing_is_zero() {
    let mut db = SparqlDatabase::new();
    db.parse_ntriples_and_add("<http://e/a> <http://e/p> <http://e/b> .\n");
    let top = execute_sparql_query("SELECT SUM(?x) AS ?t WHERE { ?s <http://e/nothing> ?x }", &mut db).unwrap();
    assert_eq!(top, vec![vec!["0".to_string()]]);
    let sub = execute_sparql_query("SELECT ?t WHERE { { SELECT SUM(?x) AS ?t WHERE { ?s <http://e/nothing> ?x } } }", &mut db).unwrap();
    assert_eq!(sub, vec![vec!["0".to_string()]]);
}

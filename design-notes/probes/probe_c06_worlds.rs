// Possible-worlds probe for C06: exact provenance modes against the sum over all subsets of the uncertain inputs.
use datalog::reasoning::Reasoner;
use shared::provenance::{BooleanProvenance, DnfWmcProvenance, MinMaxProbability, Provenance};
use shared::rule::Rule;
use shared::sdd::SddProvenance;
use shared::terms::Term;
use shared::triple::Triple;
use std::collections::{BTreeSet, HashMap};

struct Rng(u64);
impl Rng {
    fn next(&mut self) -> u64 { self.0 ^= self.0 << 13; self.0 ^= self.0 >> 7; self.0 ^= self.0 << 17; self.0 }
    fn below(&mut self, n: usize) -> usize { (self.next() % n as u64) as usize }
    fn chance(&mut self, pct: usize) -> bool { self.below(100) < pct }
}
#[derive(Clone, Debug, PartialEq, Eq, PartialOrd, Ord)]
enum T { V(String), C(String) }
type Atom = (T, T, T);
#[derive(Clone, Debug)]
struct R { body: Vec<Atom>, neg: Vec<Atom>, head: Vec<Atom> }
type Fact = (String, String, String);
fn gen_atom(r: &mut Rng) -> Atom {
    let vars = ["X", "Y", "Z"];
    let t = |r: &mut Rng| if r.chance(75) { T::V(vars[r.below(3)].to_string()) } else { T::C(format!("c{}", r.below(3))) };
    (t(r), T::C(format!("r{}", r.below(2))), t(r))
}
fn vars_of(a: &Atom) -> Vec<String> { [&a.0, &a.1, &a.2].iter().filter_map(|t| if let T::V(v) = t { Some(v.clone()) } else { None }).collect() }
fn gen_rule(r: &mut Rng) -> R {
    let body: Vec<Atom> = (0..1 + r.below(2)).map(|_| gen_atom(r)).collect();
    let bound: Vec<String> = body.iter().flat_map(vars_of).collect();
    let t = |r: &mut Rng| if !bound.is_empty() && r.chance(80) { T::V(bound[r.below(bound.len())].clone()) } else { T::C(format!("c{}", r.below(3))) };
    let head = vec![(t(r), T::C(format!("r{}", r.below(2))), t(r))];
    // a negated atom over the input-only predicate r2 (stratified by construction), safe: its variables occur in the body
    let mut neg = Vec::new();
    if std::env::var("PROBE_NEG").is_ok() && r.chance(60) {
        let t2 = |r: &mut Rng| if !bound.is_empty() && r.chance(80) { T::V(bound[r.below(bound.len())].clone()) } else { T::C(format!("c{}", r.below(3))) };
        neg.push((t2(r), T::C("r2".to_string()), t2(r)));
    }
    let mut head = head;
    // without feedback: what a rule with negation concludes is used by no rule body (the engine evaluates such rules in one final pass)
    if !neg.is_empty() && std::env::var("PROBE_NEG_FEEDBACK").is_err() { for h in head.iter_mut() { h.1 = T::C("r3".to_string()); } }
    R { body, neg, head }
}
fn subst(t: &T, b: &HashMap<String, String>) -> Option<String> { match t { T::C(c) => Some(c.clone()), T::V(v) => b.get(v).cloned() } }
fn match_atom(a: &Atom, f: &Fact, b: &HashMap<String, String>) -> Option<HashMap<String, String>> {
    let mut b = b.clone();
    for (t, v) in [(&a.0, &f.0), (&a.1, &f.1), (&a.2, &f.2)] {
        match t { T::C(c) => if c != v { return None; }, T::V(x) => match b.get(x) { Some(w) => if w != v { return None; }, None => { b.insert(x.clone(), v.clone()); } } }
    }
    Some(b)
}
fn model(facts: &BTreeSet<Fact>, rules: &[R]) -> BTreeSet<Fact> {
    let mut m = facts.clone();
    loop {
        let mut new = BTreeSet::new();
        for r in rules {
            let mut bs = vec![HashMap::new()];
            for a in &r.body { let mut nb = Vec::new(); for b in &bs { for f in &m { if let Some(b2) = match_atom(a, f, b) { nb.push(b2); } } } bs = nb; }
            bs.retain(|b| r.neg.iter().all(|a| !facts.iter().any(|f| match_atom(a, f, b).is_some())));
            for b in &bs { for h in &r.head { if let (Some(s), Some(p), Some(o)) = (subst(&h.0, b), subst(&h.1, b), subst(&h.2, b)) { let f = (s, p, o); if !m.contains(&f) { new.insert(f); } } } }
        }
        if new.is_empty() { return m; }
        m.extend(new);
    }
}
fn build(certain: &[Fact], uncertain: &[(Fact, f64)], rules: &[R]) -> Reasoner {
    let mut rs = Reasoner::new();
    for (s, p, o) in certain { rs.add_abox_triple(s, p, o); }
    for ((s, p, o), pr) in uncertain { rs.add_tagged_triple(s, p, o, *pr); }
    for r in rules {
        let enc = |rs: &Reasoner, t: &T| match t { T::V(v) => Term::Variable(v.clone()), T::C(c) => Term::Constant(rs.dictionary.write().unwrap().encode(c)) };
        let body = r.body.iter().map(|a| (enc(&rs, &a.0), enc(&rs, &a.1), enc(&rs, &a.2))).collect();
        let head = r.head.iter().map(|a| (enc(&rs, &a.0), enc(&rs, &a.1), enc(&rs, &a.2))).collect();
        let neg = r.neg.iter().map(|a| (enc(&rs, &a.0), enc(&rs, &a.1), enc(&rs, &a.2))).collect();
        rs.add_rule(Rule { premise: body, negative_premise: neg, filters: vec![], conclusion: head });
    }
    rs
}
fn rule_text(r: &R) -> String {
    let a = |a: &Atom| format!("({:?} {:?} {:?})", a.0, a.1, a.2).replace("V(\"", "?").replace("C(\"", "").replace("\")", "");
    format!("{}{} => {}", r.body.iter().map(a).collect::<Vec<_>>().join(" , "), r.neg.iter().map(|x| format!(" , NOT {}", a(x))).collect::<String>(), r.head.iter().map(a).collect::<Vec<_>>().join(" , "))
}
fn probs_of<P: Provenance>(rs: &mut Reasoner, p: P) -> HashMap<Fact, f64> {
    let (_new, store) = rs.infer_new_facts_with_provenance(p.clone());
    let d = rs.dictionary.read().unwrap();
    let mut out = HashMap::new();
    for t in rs.dataset_index.query(None, None, None) {
        let f = (d.decode(t.subject).unwrap().to_string(), d.decode(t.predicate).unwrap().to_string(), d.decode(t.object).unwrap().to_string());
        let tr = Triple { subject: t.subject, predicate: t.predicate, object: t.object };
        out.insert(f, p.recover_probability(&store.get_tag(&tr)));
    }
    out
}
#[test]
fn exact_modes_equal_the_possible_worlds_sum() {
    let seeds: u64 = std::env::var("PROBE_SEEDS").ok().and_then(|v| v.parse().ok()).unwrap_or(300);
    let start: u64 = std::env::var("PROBE_START").ok().and_then(|v| v.parse().ok()).unwrap_or(1);
    let mut bad = 0;
    for seed in start..start + seeds {
        let mut r = Rng(seed.wrapping_mul(0x9E3779B97F4A7C15) | 1);
        let mut all = BTreeSet::new();
        let npred = if std::env::var("PROBE_NEG").is_ok() { 3 } else { 2 };
        for _ in 0..3 + r.below(5) { all.insert((format!("c{}", r.below(3)), format!("r{}", r.below(npred)), format!("c{}", r.below(3)))); }
        let mut certain = Vec::new();
        let mut uncertain = Vec::new();
        for f in all { if r.chance(30) { certain.push(f); } else { uncertain.push((f, (1 + r.below(9)) as f64 / 10.0)); } }
        if uncertain.len() > 7 { uncertain.truncate(7); }
        let rules: Vec<R> = (0..1 + r.below(2)).map(|_| gen_rule(&mut r)).collect();
        // possible worlds
        let n = uncertain.len();
        let mut want: HashMap<Fact, f64> = HashMap::new();
        let mut best: HashMap<Fact, f64> = HashMap::new(); // max over worlds of min over chosen uncertain inputs: the best derivation's weakest input
        for mask in 0..(1u32 << n) {
            let mut facts: BTreeSet<Fact> = certain.iter().cloned().collect();
            let mut w = 1.0;
            let mut weakest: f64 = 1.0;
            for (i, (f, p)) in uncertain.iter().enumerate() { if mask & (1 << i) != 0 { facts.insert(f.clone()); w *= p; weakest = weakest.min(*p); } else { w *= 1.0 - p; } }
            for f in model(&facts, &rules) { *want.entry(f.clone()).or_insert(0.0) += w; let e = best.entry(f).or_insert(0.0); if weakest > *e { *e = weakest; } }
        }
        let mut problems = Vec::new();
        let cmp = |problems: &mut Vec<String>, name: &str, got: HashMap<Fact, f64>, want: &HashMap<Fact, f64>| {
            for (f, p) in want { let g = got.get(f).copied().unwrap_or(-1.0); if (g - p).abs() > 1e-6 { problems.push(format!("{} {:?}: got {} want {}", name, f, g, p)); } }
            for f in got.keys() { if !want.contains_key(f) { problems.push(format!("{} {:?}: not derivable in any world", name, f)); } }
        };
        let r1 = std::panic::catch_unwind(std::panic::AssertUnwindSafe(|| probs_of(&mut build(&certain, &uncertain, &rules), DnfWmcProvenance::new())));
        match r1 { Ok(g) => cmp(&mut problems, "dnf", g, &want), Err(_) => problems.push("dnf PANIC".into()) }
        let r2 = std::panic::catch_unwind(std::panic::AssertUnwindSafe(|| probs_of(&mut build(&certain, &uncertain, &rules), SddProvenance::new())));
        match r2 { Ok(g) => cmp(&mut problems, "sdd", g, &want), Err(_) => problems.push("sdd PANIC".into()) }
        let with_neg = rules.iter().any(|r| !r.neg.is_empty());
        let r3 = std::panic::catch_unwind(std::panic::AssertUnwindSafe(|| probs_of(&mut build(&certain, &uncertain, &rules), MinMaxProbability)));
        match r3 { Ok(g) => if !with_neg { cmp(&mut problems, "minmax", g, &best) }, Err(_) => problems.push("minmax PANIC".into()) }
        let ones: HashMap<Fact, f64> = want.keys().map(|f| (f.clone(), 1.0)).collect();
        let r4 = std::panic::catch_unwind(std::panic::AssertUnwindSafe(|| probs_of(&mut build(&certain, &uncertain, &rules), BooleanProvenance)));
        match r4 { Ok(g) => if !with_neg { cmp(&mut problems, "boolean", g, &ones) }, Err(_) => problems.push("boolean PANIC".into()) }
        if !problems.is_empty() {
            bad += 1;
            println!("seed {}\n  certain {:?}\n  uncertain {:?}\n  rules {:?}\n  {:?}", seed, certain, uncertain, rules.iter().map(rule_text).collect::<Vec<_>>(), &problems[..problems.len().min(4)]);
        }
    }
    println!("worlds: checked {} programs, {} discrepancies", seeds, bad);
}

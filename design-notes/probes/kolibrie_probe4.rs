use kolibrie::execute_query::execute_sparql_query;
use kolibrie::sparql_database::SparqlDatabase;
use kolibrie::streamertail_optimizer::{Condition, ExecutionEngine, PhysicalOperator};
use shared::terms::Term;

fn db() -> SparqlDatabase {
    let mut db = SparqlDatabase::new();
    db.add_triple_parts("http://e/a", "http://e/p", "1");
    db.add_triple_parts("http://e/b", "http://e/p", "2");
    db.add_triple_parts("http://e/a", "http://e/q", "5");
    db.add_triple_parts("http://e/b", "http://e/q", "1");
    db
}

#[test]
fn n_group_by_without_aggregate() {
    let mut d = db();
    let r = execute_sparql_query("SELECT ?p WHERE { ?s ?p ?o } GROUP BY ?p", &mut d).unwrap();
    println!("PROBE n: top-level GROUP BY ?p rows={:?}", r);
    let r2 = execute_sparql_query("SELECT ?p WHERE { { SELECT ?p WHERE { ?s ?p ?o } GROUP BY ?p } }", &mut d).unwrap();
    println!("PROBE n: subquery GROUP BY ?p rows={:?}", r2);
}

#[test]
fn o_join_executors_right_filter() {
    let mut d = db();
    let p = d.dictionary.write().unwrap().encode("http://e/p");
    let q = d.dictionary.write().unwrap().encode("http://e/q");
    let left = PhysicalOperator::index_scan((Term::Variable("?s".into()), Term::Constant(p), Term::Variable("?x".into())));
    let right_scan = PhysicalOperator::index_scan((Term::Variable("?s".into()), Term::Constant(q), Term::Variable("?y".into())));
    let right = PhysicalOperator::filter(right_scan, Condition::new("?y".into(), ">".into(), "?x".into()));
    let bind = PhysicalOperator::bind_join(left.clone(), right.clone());
    let hash = PhysicalOperator::hash_join(left.clone(), right.clone());
    let nl = PhysicalOperator::nested_loop_join(left, right);
    let rb = ExecutionEngine::execute_with_ids(&bind, &mut d);
    let rh = ExecutionEngine::execute_with_ids(&hash, &mut d);
    let rn = ExecutionEngine::execute_with_ids(&nl, &mut d);
    println!("PROBE o: bind={} hash={} nested={}", rb.len(), rh.len(), rn.len());
    // the same through SPARQL text
    let r = execute_sparql_query("SELECT * WHERE { ?s <http://e/p> ?x . { ?s <http://e/q> ?y . FILTER(?y > ?x) } }", &mut d).unwrap();
    println!("PROBE o: sparql nested-group filter rows={:?}", r);
}

// Probe for C11: in a two-window query no window block matches items of the other window's stream.
use kolibrie::rsp_engine::{OperationMode, QueryExecutionMode, RSPBuilder, RSPEngine, ResultConsumer, SimpleR2R};
use shared::triple::Triple;
use std::collections::BTreeSet;
use std::sync::{Arc, Mutex};

struct Rng(u64);
impl Rng {
    fn next(&mut self) -> u64 { self.0 ^= self.0 << 13; self.0 ^= self.0 >> 7; self.0 ^= self.0 << 17; self.0 }
    fn below(&mut self, n: usize) -> usize { (self.next() % n as u64) as usize }
    fn chance(&mut self, pct: usize) -> bool { self.below(100) < pct }
}
#[test]
fn window_blocks_only_match_their_own_stream() {
    let seeds: u64 = std::env::var("PROBE_SEEDS").ok().and_then(|v| v.parse().ok()).unwrap_or(60);
    let mut bad = 0;
    for seed in 1..=seeds {
        let mut r = Rng(seed.wrapping_mul(0x9E3779B97F4A7C15) | 1);
        let (s1, s2) = (1 + r.below(3), 1 + r.below(3));
        let (r1, r2) = (s1 * (1 + r.below(3)), s2 * (1 + r.below(3)));
        let rows: Arc<Mutex<Vec<Vec<(String, String)>>>> = Arc::new(Mutex::new(Vec::new()));
        let rc = rows.clone();
        let consumer = ResultConsumer { function: Arc::new(move |row: Vec<(String, String)>| { rc.lock().unwrap().push(row); }) };
        let query = format!("REGISTER RSTREAM <http://out/stream> AS SELECT * FROM NAMED WINDOW :w1 ON :stream1 [RANGE {} STEP {}] FROM NAMED WINDOW :w2 ON :stream2 [RANGE {} STEP {}] WHERE {{ WINDOW :w1 {{ ?a a <http://t/One> . }} WINDOW :w2 {{ ?b a <http://t/Two> . }} }}", r1, s1, r2, s2);
        let mut on1: BTreeSet<String> = BTreeSet::new();
        let mut on2: BTreeSet<String> = BTreeSet::new();
        let res = std::panic::catch_unwind(std::panic::AssertUnwindSafe(|| {
            let mut engine: RSPEngine<Triple, Vec<(String, String)>> = RSPBuilder::new().add_rsp_ql_query(&query).add_consumer(consumer).add_r2r(Box::new(SimpleR2R::with_execution_mode(QueryExecutionMode::Volcano))).set_operation_mode(OperationMode::SingleThread).build().expect("build");
            engine.parse_data("<http://t/prime> a <http://t/One> . <http://t/prime> a <http://t/Two> .");
            let mut ts = 1usize;
            let mut sent = (BTreeSet::new(), BTreeSet::new());
            for i in 0..14 + r.below(10) {
                // both kinds of item travel on both streams
                let kind = if r.chance(50) { "One" } else { "Two" };
                let stream = if r.chance(50) { "stream1" } else { "stream2" };
                let subject = format!("http://t/{}_{}_{}", kind.to_lowercase(), stream, i);
                for tr in engine.parse_data(&format!("<{}> a <http://t/{}> .", subject, kind)) { engine.add_to_stream(stream, tr, ts); }
                if stream == "stream1" { sent.0.insert(subject); } else { sent.1.insert(subject); }
                ts += r.below(2);
            }
            sent
        }));
        match res { Ok((a, b)) => { on1 = a; on2 = b; } Err(_) => { bad += 1; println!("seed {} PANIC {}", seed, query); continue; } }
        let rows = rows.lock().unwrap();
        let mut problems = BTreeSet::new();
        for row in rows.iter() {
            for (k, v) in row {
                if k == "a" && !on1.contains(v) { problems.insert(format!("?a = {} was never sent on stream1", v.rsplit('/').next().unwrap())); }
                if k == "b" && !on2.contains(v) { problems.insert(format!("?b = {} was never sent on stream2", v.rsplit('/').next().unwrap())); }
            }
        }
        if !problems.is_empty() { bad += 1; println!("seed {} w1 [{} {}] w2 [{} {}] rows {}\n  {:?}", seed, r1, s1, r2, s2, rows.len(), problems.iter().take(4).collect::<Vec<_>>()); }
    }
    println!("multi: checked {} runs, {} with leaks", seeds, bad);
}

use datalog::reasoning::Reasoner;
use shared::provenance::BooleanProvenance;
use shared::rule::Rule;
use shared::terms::Term;
#[test]
fn conclusions_of_rules_with_negation_feed_other_rules() {
    let mut r = Reasoner::new();
    r.add_abox_triple("a", "p", "b");
    let e = |r: &Reasoner, s: &str| r.dictionary.write().unwrap().encode(s);
    let (p, q, rr, blocked) = (e(&r, "p"), e(&r, "q"), e(&r, "r"), e(&r, "blocked"));
    let v = |s: &str| Term::Variable(s.to_string());
    r.add_rule(Rule { premise: vec![(v("X"), Term::Constant(p), v("Y"))], negative_premise: vec![(v("X"), Term::Constant(blocked), v("Y"))], filters: vec![], conclusion: vec![(v("X"), Term::Constant(q), v("Y"))] });
    r.add_rule(Rule { premise: vec![(v("X"), Term::Constant(q), v("Y"))], negative_premise: vec![], filters: vec![], conclusion: vec![(v("X"), Term::Constant(rr), v("Y"))] });
    let _ = r.infer_new_facts_with_provenance(BooleanProvenance);
    let has_q = !r.query_abox(Some("a"), Some("q"), Some("b")).is_empty();
    let has_r = !r.query_abox(Some("a"), Some("r"), Some("b")).is_empty();
    println!("a q b: {}   a r b: {}", has_q, has_r);
    assert!(has_q && has_r, "the stratified model contains both");
}
#[test]
fn negation_on_a_predicate_derived_by_another_rule_with_negation() {
    let mut r = Reasoner::new();
    r.add_abox_triple("s", "p", "o");
    let e = |r: &Reasoner, s: &str| r.dictionary.write().unwrap().encode(s);
    let (p, a, b, c) = (e(&r, "p"), e(&r, "a"), e(&r, "b"), e(&r, "c"));
    let v = |s: &str| Term::Variable(s.to_string());
    r.add_rule(Rule { premise: vec![(v("X"), Term::Constant(p), v("Y"))], negative_premise: vec![(v("X"), Term::Constant(a), v("Y"))], filters: vec![], conclusion: vec![(v("X"), Term::Constant(b), v("Y"))] });
    r.add_rule(Rule { premise: vec![(v("X"), Term::Constant(p), v("Y"))], negative_premise: vec![(v("X"), Term::Constant(b), v("Y"))], filters: vec![], conclusion: vec![(v("X"), Term::Constant(c), v("Y"))] });
    let _ = r.infer_new_facts_with_provenance(BooleanProvenance);
    let has_b = !r.query_abox(Some("s"), Some("b"), Some("o")).is_empty();
    let has_c = !r.query_abox(Some("s"), Some("c"), Some("o")).is_empty();
    println!("s b o: {}   s c o: {}", has_b, has_c);
    assert!(has_b && !has_c, "stratified: b holds, so NOT b fails and c is not derived");
}

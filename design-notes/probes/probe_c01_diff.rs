// Differential probe for C01: random queries of the supported fragment against a tiny reference evaluator of the SPARQL algebra.
use kolibrie::execute_query::{execute_sparql_query, execute_sparql_update};
use kolibrie::sparql_database::SparqlDatabase;
use std::collections::BTreeMap;

struct Rng(u64);
impl Rng {
    fn next(&mut self) -> u64 {
        self.0 ^= self.0 << 13;
        self.0 ^= self.0 >> 7;
        self.0 ^= self.0 << 17;
        self.0
    }
    fn below(&mut self, n: usize) -> usize { (self.next() % n as u64) as usize }
    fn chance(&mut self, pct: usize) -> bool { self.below(100) < pct }
}

#[derive(Clone, Debug, PartialEq, Eq, PartialOrd, Ord)]
enum Term { Iri(String), Num(i64) }
impl Term {
    fn text(&self) -> String { match self { Term::Iri(i) => format!("<{}>", i), Term::Num(n) => format!("\"{}\"", n) } }
    fn out(&self) -> String { match self { Term::Iri(i) => i.clone(), Term::Num(n) => n.to_string() } }
}
#[derive(Clone, Debug)]
enum Slot { Var(String), Const(Term) }
impl Slot { fn text(&self) -> String { match self { Slot::Var(v) => format!("?{}", v), Slot::Const(t) => t.text() } } }

#[derive(Clone, Debug)]
enum Expr { Cmp(String, &'static str, Slot), And(Box<Expr>, Box<Expr>), Or(Box<Expr>, Box<Expr>), Not(Box<Expr>) }
impl Expr {
    fn text(&self) -> String {
        match self {
            Expr::Cmp(v, op, s) => format!("?{} {} {}", v, op, match s { Slot::Var(w) => format!("?{}", w), Slot::Const(Term::Num(n)) => n.to_string(), Slot::Const(t) => t.text() }),
            Expr::And(a, b) => format!("({} && {})", a.text(), b.text()),
            Expr::Or(a, b) => format!("({} || {})", a.text(), b.text()),
            Expr::Not(a) => format!("!({})", a.text()),
        }
    }
}
#[derive(Clone, Debug)]
enum GraphRef { Named(String), Var(String) }
#[derive(Clone, Debug)]
enum Elem {
    Triple(Slot, Slot, Slot),
    Filter(Expr),
    Values(Vec<String>, Vec<Vec<Option<Term>>>),
    Group(Vec<Elem>),
    Union(Vec<Vec<Elem>>),
    Graph(GraphRef, Vec<Elem>),
    Sub(Vec<String>, bool, Vec<Elem>),
}
fn group_text(es: &[Elem]) -> String {
    let mut s = String::from("{ ");
    for e in es {
        match e {
            Elem::Triple(a, b, c) => s.push_str(&format!("{} {} {} . ", a.text(), b.text(), c.text())),
            Elem::Filter(x) => s.push_str(&format!("FILTER({}) ", x.text())),
            Elem::Values(vars, rows) => {
                let vs: Vec<String> = vars.iter().map(|v| format!("?{}", v)).collect();
                let single = vars.len() == 1;
                if single { s.push_str(&format!("VALUES {} {{ ", vs[0])); } else { s.push_str(&format!("VALUES ({}) {{ ", vs.join(" "))); }
                for r in rows {
                    let ts: Vec<String> = r.iter().map(|t| match t { None => "UNDEF".to_string(), Some(Term::Num(n)) => n.to_string(), Some(t) => t.text() }).collect();
                    if single { s.push_str(&format!("{} ", ts[0])); } else { s.push_str(&format!("({}) ", ts.join(" "))); }
                }
                s.push_str("} ");
            }
            Elem::Group(g) => { s.push_str(&group_text(g)); s.push(' '); }
            Elem::Union(bs) => { let t: Vec<String> = bs.iter().map(|b| group_text(b)).collect(); s.push_str(&t.join(" UNION ")); s.push(' '); }
            Elem::Graph(g, inner) => {
                let gt = match g { GraphRef::Named(n) => format!("<{}>", n), GraphRef::Var(v) => format!("?{}", v) };
                s.push_str(&format!("GRAPH {} {} ", gt, group_text(inner)));
            }
            Elem::Sub(vars, distinct, inner) => {
                let vs: Vec<String> = vars.iter().map(|v| format!("?{}", v)).collect();
                s.push_str(&format!("{{ SELECT {}{} WHERE {} }} ", if *distinct { "DISTINCT " } else { "" }, vs.join(" "), group_text(inner)));
            }
        }
    }
    s.push('}');
    s
}

type Sol = BTreeMap<String, Term>;
struct Data { default: Vec<(Term, Term, Term)>, named: Vec<(String, Vec<(Term, Term, Term)>)> }

fn compatible(a: &Sol, b: &Sol) -> Option<Sol> {
    let mut out = a.clone();
    for (k, v) in b { match out.get(k) { Some(w) if w != v => return None, Some(_) => {}, None => { out.insert(k.clone(), v.clone()); } } }
    Some(out)
}
fn join(a: &[Sol], b: &[Sol]) -> Vec<Sol> {
    let mut out = Vec::new();
    for x in a { for y in b { if let Some(m) = compatible(x, y) { out.push(m); } } }
    out
}
fn match_slot(s: &Slot, t: &Term, sol: &mut Sol) -> bool {
    match s {
        Slot::Const(c) => c == t,
        Slot::Var(v) => match sol.get(v) { Some(w) => w == t, None => { sol.insert(v.clone(), t.clone()); true } },
    }
}
// three-valued: Some(true/false) or None = error
fn eval(e: &Expr, sol: &Sol) -> Option<bool> {
    match e {
        Expr::Cmp(v, op, rhs) => {
            let l = sol.get(v)?;
            let r = match rhs { Slot::Var(w) => sol.get(w)?.clone(), Slot::Const(t) => t.clone() };
            match *op {
                "=" => Some(*l == r),
                "!=" => Some(*l != r),
                _ => match (l, &r) {
                    (Term::Num(a), Term::Num(b)) => Some(match *op { "<" => a < b, ">" => a > b, "<=" => a <= b, _ => a >= b }),
                    _ => None,
                },
            }
        }
        Expr::Not(a) => eval(a, sol).map(|b| !b),
        Expr::And(a, b) => match (eval(a, sol), eval(b, sol)) { (Some(false), _) | (_, Some(false)) => Some(false), (Some(true), Some(true)) => Some(true), _ => None },
        Expr::Or(a, b) => match (eval(a, sol), eval(b, sol)) { (Some(true), _) | (_, Some(true)) => Some(true), (Some(false), Some(false)) => Some(false), _ => None },
    }
}
fn eval_group(es: &[Elem], data: &Data, active: Option<&str>) -> Vec<Sol> {
    let mut sols: Vec<Sol> = vec![Sol::new()];
    let mut filters = Vec::new();
    for e in es {
        let next: Vec<Sol> = match e {
            Elem::Filter(x) => { filters.push(x); continue; }
            Elem::Triple(s, p, o) => {
                let triples: &Vec<(Term, Term, Term)> = match active { None => &data.default, Some(g) => &data.named.iter().find(|(n, _)| n == g).unwrap().1 };
                let mut out = Vec::new();
                for (a, b, c) in triples {
                    let mut sol = Sol::new();
                    if match_slot(s, a, &mut sol) && match_slot(p, b, &mut sol) && match_slot(o, c, &mut sol) { out.push(sol); }
                }
                out
            }
            Elem::Values(vars, rows) => rows.iter().map(|r| { let mut sol = Sol::new(); for (v, t) in vars.iter().zip(r) { if let Some(t) = t { sol.insert(v.clone(), t.clone()); } } sol }).collect(),
            Elem::Group(g) => eval_group(g, data, active),
            Elem::Union(bs) => bs.iter().flat_map(|b| eval_group(b, data, active)).collect(),
            Elem::Graph(GraphRef::Named(n), inner) => if data.named.iter().any(|(g, _)| g == n) { eval_group(inner, data, Some(n)) } else { Vec::new() },
            Elem::Graph(GraphRef::Var(v), inner) => {
                let mut out = Vec::new();
                for (g, _) in &data.named {
                    let mut bind = Sol::new();
                    bind.insert(v.clone(), Term::Iri(g.clone()));
                    out.extend(join(&eval_group(inner, data, Some(g)), &[bind]));
                }
                out
            }
            Elem::Sub(vars, distinct, inner) => {
                let mut rows: Vec<Sol> = eval_group(inner, data, active).into_iter().map(|s| s.into_iter().filter(|(k, _)| vars.contains(k)).collect()).collect();
                if *distinct { let mut seen = Vec::new(); rows.retain(|r| if seen.contains(r) { false } else { seen.push(r.clone()); true }); }
                rows
            }
        };
        sols = join(&sols, &next);
    }
    sols.retain(|s| filters.iter().all(|f| eval(f, s) == Some(true)));
    sols
}

fn iri(k: &str, i: usize) -> Term { Term::Iri(format!("http://e/{}{}", k, i)) }
fn gen_data(r: &mut Rng) -> Data {
    let mk = |r: &mut Rng, n: usize| {
        let mut v = Vec::new();
        for _ in 0..n {
            let t = if r.chance(35) { (iri("s", r.below(4)), Term::Iri("http://e/n".into()), Term::Num(r.below(13) as i64)) }
                    else { (iri("s", r.below(4)), iri("p", r.below(2)), iri("s", r.below(4))) };
            if !v.contains(&t) { v.push(t); }
        }
        v
    };
    let (n0, n1, n2) = (6 + r.below(12), 2 + r.below(7), 2 + r.below(7));
    let default = mk(r, n0);
    let named = vec![("http://e/g0".to_string(), mk(r, n1)), ("http://e/g1".to_string(), mk(r, n2))];
    Data { default, named }
}
const VARS: [&str; 5] = ["a", "b", "c", "d", "e"];
const NUMVARS: [&str; 2] = ["x", "y"];
fn gen_triple(r: &mut Rng) -> Elem {
    if r.chance(30) {
        let s = if r.chance(80) { Slot::Var(VARS[r.below(3)].into()) } else { Slot::Const(iri("s", r.below(4))) };
        let o = if r.chance(85) { Slot::Var(NUMVARS[r.below(2)].into()) } else { Slot::Const(Term::Num(r.below(13) as i64)) };
        Elem::Triple(s, Slot::Const(Term::Iri("http://e/n".into())), o)
    } else {
        let s = if r.chance(75) { Slot::Var(VARS[r.below(4)].into()) } else { Slot::Const(iri("s", r.below(4))) };
        let p = if r.chance(15) { Slot::Var("e".into()) } else { Slot::Const(iri("p", r.below(2))) };
        let o = if r.chance(75) { Slot::Var(VARS[r.below(4)].into()) } else { Slot::Const(iri("s", r.below(4))) };
        Elem::Triple(s, p, o)
    }
}
fn gen_expr(r: &mut Rng, depth: usize) -> Expr {
    if depth > 0 && r.chance(35) {
        return match r.below(3) { 0 => Expr::And(Box::new(gen_expr(r, depth - 1)), Box::new(gen_expr(r, depth - 1))), 1 => Expr::Or(Box::new(gen_expr(r, depth - 1)), Box::new(gen_expr(r, depth - 1))), _ => Expr::Not(Box::new(gen_expr(r, depth - 1))) };
    }
    if r.chance(50) {
        let op = ["<", ">", "<=", ">=", "=", "!="][r.below(6)];
        let rhs = if r.chance(70) { Slot::Const(Term::Num(r.below(13) as i64)) } else { Slot::Var(NUMVARS[r.below(2)].into()) };
        Expr::Cmp(NUMVARS[r.below(2)].into(), op, rhs)
    } else {
        let op = ["=", "!="][r.below(2)];
        let rhs = if r.chance(60) { Slot::Const(iri("s", r.below(4))) } else { Slot::Var(VARS[r.below(4)].into()) };
        Expr::Cmp(VARS[r.below(4)].into(), op, rhs)
    }
}
fn gen_group(r: &mut Rng, depth: usize, in_graph: bool) -> Vec<Elem> {
    let n = 1 + r.below(3);
    let mut es = Vec::new();
    for _ in 0..n {
        let k = r.below(100);
        if k < 50 || depth == 0 { es.push(gen_triple(r)); }
        else if k < 62 { es.push(Elem::Filter(gen_expr(r, 2))); }
        else if k < 70 {
            let vars: Vec<String> = if r.chance(50) { vec![VARS[r.below(3)].to_string()] } else { vec![VARS[r.below(2)].to_string(), VARS[2 + r.below(2)].to_string()] };
            let mut rows = Vec::new();
            for _ in 0..1 + r.below(3) {
                let mut row = Vec::new();
                for _ in 0..vars.len() { row.push(if r.chance(20) { None } else { Some(iri("s", r.below(4))) }); }
                rows.push(row);
            }
            es.push(Elem::Values(vars, rows));
        }
        else if k < 78 { es.push(Elem::Group(gen_group(r, depth - 1, in_graph))); }
        else if k < 88 {
            let mut bs = Vec::new();
            for _ in 0..2 + r.below(2) { bs.push(gen_group(r, depth - 1, in_graph)); }
            es.push(Elem::Union(bs));
        }
        else if k < 95 && !in_graph {
            let g = if r.chance(50) { GraphRef::Named(format!("http://e/g{}", r.below(3))) } else { GraphRef::Var("g".into()) };
            es.push(Elem::Graph(g, gen_group(r, depth - 1, true)));
        }
        else {
            let inner = gen_group(r, depth - 1, in_graph);
            let vars: Vec<String> = vec![VARS[r.below(4)].to_string(), NUMVARS[r.below(2)].to_string()];
            es.push(Elem::Sub(vars, r.chance(50), inner));
        }
    }
    if std::env::var("PROBE_UNSAFE_FILTERS").is_err() {
        let mut ivars: Vec<String> = Vec::new();
        let mut nvars: Vec<String> = Vec::new();
        for e in &es {
            if let Elem::Triple(a, b, c) = e {
                let is_n = matches!(b, Slot::Const(Term::Iri(i)) if i == "http://e/n");
                for (k, sl) in [a, b, c].iter().enumerate() {
                    if let Slot::Var(v) = sl { if is_n && k == 2 { if !nvars.contains(v) { nvars.push(v.clone()); } } else if !ivars.contains(v) { ivars.push(v.clone()); } }
                }
            }
        }
        // a variable used both as number and as IRI is left out of ordered comparisons
        let nonly: Vec<String> = nvars.iter().filter(|v| !ivars.contains(v)).cloned().collect();
        fn fix(e: &mut Expr, ivars: &[String], nonly: &[String], r: &mut Rng) -> bool {
            match e {
                Expr::Cmp(v, op, rhs) => {
                    let ordered = matches!(*op, "<" | ">" | "<=" | ">=");
                    let pool: &[String] = if ordered || matches!(rhs, Slot::Const(Term::Num(_))) { nonly } else { ivars };
                    if pool.is_empty() { return false; }
                    *v = pool[r.below(pool.len())].clone();
                    if let Slot::Var(w) = rhs { *w = pool[r.below(pool.len())].clone(); }
                    true
                }
                Expr::Not(a) => fix(a, ivars, nonly, r),
                Expr::And(a, b) | Expr::Or(a, b) => fix(a, ivars, nonly, r) && fix(b, ivars, nonly, r),
            }
        }
        let mut kept = Vec::new();
        for mut e in es {
            if let Elem::Filter(x) = &mut e { if !fix(x, &ivars, &nonly, r) { continue; } }
            kept.push(e);
        }
        if kept.is_empty() { kept.push(gen_triple(r)); }
        return kept;
    }
    es
}

fn load(data: &Data) -> SparqlDatabase {
    let mut db = SparqlDatabase::new();
    let mut up = String::from("INSERT DATA { ");
    for (s, p, o) in &data.default { up.push_str(&format!("{} {} {} . ", s.text(), p.text(), o.text())); }
    for (g, ts) in &data.named {
        up.push_str(&format!("GRAPH <{}> {{ ", g));
        for (s, p, o) in ts { up.push_str(&format!("{} {} {} . ", s.text(), p.text(), o.text())); }
        up.push_str("} ");
    }
    up.push('}');
    execute_sparql_update(&up, &mut db).expect("load");
    db
}

#[test]
fn differential() {
    let seeds: u64 = std::env::var("PROBE_SEEDS").ok().and_then(|v| v.parse().ok()).unwrap_or(400);
    let start: u64 = std::env::var("PROBE_START").ok().and_then(|v| v.parse().ok()).unwrap_or(1);
    let mut bad = 0;
    for seed in start..start + seeds {
        let mut r = Rng(seed.wrapping_mul(0x9E3779B97F4A7C15) | 1);
        let data = gen_data(&mut r);
        let group = gen_group(&mut r, 2, false);
        let distinct = r.chance(25);
        let proj: Vec<&str> = VARS.iter().chain(NUMVARS.iter()).chain(["g"].iter()).cloned().collect();
        let q = format!("SELECT {}{} WHERE {}", if distinct { "DISTINCT " } else { "" }, proj.iter().map(|v| format!("?{}", v)).collect::<Vec<_>>().join(" "), group_text(&group));
        let mut want: Vec<Vec<String>> = eval_group(&group, &data, None).iter().map(|s| proj.iter().map(|v| s.get(*v).map(|t| t.out()).unwrap_or_default()).collect()).collect();
        want.sort();
        if distinct { want.dedup(); }
        if std::env::var("PROBE_SHOW").is_ok() { println!("seed {} Q {} want {}", seed, q, want.len()); }
        let mut db = load(&data);
        let got = std::panic::catch_unwind(std::panic::AssertUnwindSafe(|| execute_sparql_query(&q, &mut db)));
        let mut got = match got { Ok(Ok(rows)) => rows, Ok(Err(e)) => { println!("seed {} ERROR {}\n  {}", seed, e.lines().nth(1).unwrap_or(""), q); bad += 1; continue; } Err(_) => { println!("seed {} PANIC\n  {}", seed, q); bad += 1; continue; } };
        got.sort();
        if got != want {
            bad += 1;
            println!("seed {} MISMATCH\n  {}\n  default={:?}\n  named={:?}\n  want {} rows {:?}\n  got  {} rows {:?}", seed, q,
                data.default.iter().map(|(a, b, c)| format!("{} {} {}", a.out(), b.out(), c.out())).collect::<Vec<_>>(),
                data.named.iter().map(|(g, t)| (g.clone(), t.iter().map(|(a, b, c)| format!("{} {} {}", a.out(), b.out(), c.out())).collect::<Vec<_>>())).collect::<Vec<_>>(),
                want.len(), &want[..want.len().min(6)], got.len(), &got[..got.len().min(6)]);
        }
    }
    println!("checked {} queries, {} discrepancies", seeds, bad);
}


// ---- modifiers: datasets (FROM / FROM NAMED), GROUP BY aggregates, ORDER BY + LIMIT
fn cmp_vals(a: &str, b: &str) -> std::cmp::Ordering {
    match (a.parse::<f64>(), b.parse::<f64>()) { (Ok(x), Ok(y)) => x.partial_cmp(&y).unwrap(), _ => a.cmp(b) }
}
#[test]
fn differential_modifiers() {
    let seeds: u64 = std::env::var("PROBE_SEEDS").ok().and_then(|v| v.parse().ok()).unwrap_or(400);
    let start: u64 = std::env::var("PROBE_START").ok().and_then(|v| v.parse().ok()).unwrap_or(1);
    let mut bad = 0;
    for seed in start..start + seeds {
        let mut r = Rng(seed.wrapping_mul(0xD1B54A32D192ED03) | 1);
        let mut data = gen_data(&mut r);
        let group = gen_group(&mut r, 1, false);
        // dataset clause
        let mut from = String::new();
        let mode = r.below(4);
        if mode == 1 || mode == 2 {
            let mut merged: Vec<(Term, Term, Term)> = Vec::new();
            let mut named = Vec::new();
            let nf = r.below(3);
            for i in 0..nf { let g = format!("http://e/g{}", (seed as usize + i) % 2); from.push_str(&format!("FROM <{}> ", g)); for t in &data.named.iter().find(|(n, _)| *n == g).unwrap().1 { if !merged.contains(t) { merged.push(t.clone()); } } }
            if mode == 2 || nf == 0 { let g = format!("http://e/g{}", r.below(2)); from.push_str(&format!("FROM NAMED <{}> ", g)); named.push(data.named.iter().find(|(n, _)| *n == g).unwrap().clone()); }
            data = Data { default: merged, named };
        }
        let sols = eval_group(&group, &data, None);
        let kind = r.below(3);
        let (q, want, ordered): (String, Vec<Vec<String>>, bool) = if kind == 0 {
            // aggregates over ?x grouped by ?a: make sure both are bound
            let agg = ["SUM", "MIN", "MAX", "AVG"][r.below(4)];
            let mut g2 = group.clone();
            g2.insert(0, Elem::Triple(Slot::Var("a".into()), Slot::Const(Term::Iri("http://e/n".into())), Slot::Var("x".into())));
            let sols = eval_group(&g2, &data, None);
            let mut groups: BTreeMap<String, Vec<i64>> = BTreeMap::new();
            for s in &sols { if let (Some(a), Some(Term::Num(x))) = (s.get("a"), s.get("x")) { groups.entry(a.out()).or_default().push(*x); } }
            let grouped = r.chance(70);
            let fmt = |v: f64| if v.fract() == 0.0 { format!("{}", v as i64) } else { format!("{}", v) };
            let aggf = |xs: &Vec<i64>| -> String { match agg { "SUM" => fmt(xs.iter().sum::<i64>() as f64), "MIN" => fmt(*xs.iter().min().unwrap() as f64), "MAX" => fmt(*xs.iter().max().unwrap() as f64), _ => fmt(xs.iter().sum::<i64>() as f64 / xs.len() as f64) } };
            if grouped {
                let want = groups.iter().map(|(a, xs)| vec![a.clone(), aggf(xs)]).collect();
                (format!("SELECT ?a {}(?x) AS ?t {}WHERE {} GROUP BY ?a", agg, from, group_text(&g2)), want, false)
            } else {
                let all: Vec<i64> = groups.values().flatten().cloned().collect();
                if all.is_empty() { continue; }
                (format!("SELECT {}(?x) AS ?t {}WHERE {}", agg, from, group_text(&g2)), vec![vec![aggf(&all)]], false)
            }
        } else if kind == 1 {
            // ORDER BY all projected variables (a total order up to equal rows), then LIMIT
            let proj = ["x", "a", "b"];
            let dirs: Vec<bool> = proj.iter().map(|_| r.chance(40)).collect();
            let mut rows: Vec<Vec<String>> = sols.iter().map(|s| proj.iter().map(|v| s.get(*v).map(|t| t.out()).unwrap_or_default()).collect()).collect();
            // a column must be homogeneous (all numbers or all IRIs, unbound allowed) for the order to be defined alike
            let homog = (0..3).all(|i| { let vals: Vec<&String> = rows.iter().map(|r| &r[i]).filter(|v| !v.is_empty()).collect(); vals.iter().all(|v| v.parse::<f64>().is_ok()) || vals.iter().all(|v| v.parse::<f64>().is_err()) });
            if !homog { continue; }
            rows.sort_by(|p, q| { for i in 0..3 { let o = cmp_vals(&p[i], &q[i]); let o = if dirs[i] { o.reverse() } else { o }; if o != std::cmp::Ordering::Equal { return o; } } std::cmp::Ordering::Equal });
            let limit = if r.chance(60) { Some(r.below(5)) } else { None };
            if let Some(n) = limit { rows.truncate(n); }
            let keys: Vec<String> = proj.iter().zip(&dirs).map(|(v, d)| if *d { format!("DESC(?{})", v) } else { format!("?{}", v) }).collect();
            (format!("SELECT ?x ?a ?b {}WHERE {} ORDER BY {}{}", from, group_text(&group), keys.join(" "), limit.map(|n| format!(" LIMIT {}", n)).unwrap_or_default()), rows, true)
        } else {
            let proj: Vec<&str> = VARS.iter().chain(NUMVARS.iter()).chain(["g"].iter()).cloned().collect();
            let mut rows: Vec<Vec<String>> = sols.iter().map(|s| proj.iter().map(|v| s.get(*v).map(|t| t.out()).unwrap_or_default()).collect()).collect();
            rows.sort();
            (format!("SELECT {} {}WHERE {}", proj.iter().map(|v| format!("?{}", v)).collect::<Vec<_>>().join(" "), from, group_text(&group)), rows, false)
        };
        // the engine is loaded with the full original data; the dataset clause selects
        if std::env::var("PROBE_SHOW").is_ok() { println!("seed {} Q {} want {}", seed, q, want.len()); }
        let mut r2 = Rng(seed.wrapping_mul(0xD1B54A32D192ED03) | 1);
        let full = gen_data(&mut r2);
        let mut db = load(&full);
        let got = std::panic::catch_unwind(std::panic::AssertUnwindSafe(|| execute_sparql_query(&q, &mut db)));
        let mut got = match got { Ok(Ok(rows)) => rows, Ok(Err(e)) => { println!("seed {} ERROR {}\n  {}", seed, e.lines().nth(1).unwrap_or(""), q); bad += 1; continue; } Err(_) => { println!("seed {} PANIC\n  {}", seed, q); bad += 1; continue; } };
        let mut want = want;
        if !ordered { got.sort(); want.sort(); }
        if got != want {
            bad += 1;
            println!("seed {} MISMATCH\n  {}\n  default={:?}\n  named={:?}\n  want {} rows {:?}\n  got  {} rows {:?}", seed, q,
                full.default.iter().map(|(a, b, c)| format!("{} {} {}", a.out(), b.out(), c.out())).collect::<Vec<_>>(),
                full.named.iter().map(|(g, t)| (g.clone(), t.iter().map(|(a, b, c)| format!("{} {} {}", a.out(), b.out(), c.out())).collect::<Vec<_>>())).collect::<Vec<_>>(),
                want.len(), &want[..want.len().min(8)], got.len(), &got[..got.len().min(8)]);
        }
    }
    println!("modifiers: checked {} queries, {} discrepancies", seeds, bad);
}

// ---- C03: random update sequences against a set-of-quads model
type Quad = (Option<String>, Term, Term, Term);
fn tmpl_text(t: &[(Option<String>, Slot, Slot, Slot)]) -> String {
    let mut s = String::from("{ ");
    for (g, a, b, c) in t {
        match g { None => s.push_str(&format!("{} {} {} . ", a.text(), b.text(), c.text())), Some(g) => s.push_str(&format!("GRAPH <{}> {{ {} {} {} }} ", g, a.text(), b.text(), c.text())) }
    }
    s.push('}');
    s
}
fn gen_const_term(r: &mut Rng, pos: usize) -> Term {
    match pos { 1 => if r.chance(30) { Term::Iri("http://e/n".into()) } else { iri("p", r.below(2)) }, 2 => if r.chance(30) { Term::Num(r.below(13) as i64) } else { iri("s", r.below(4)) }, _ => iri("s", r.below(4)) }
}
fn gen_template(r: &mut Rng, vars: &[String], ground: bool) -> Vec<(Option<String>, Slot, Slot, Slot)> {
    let mut out = Vec::new();
    let n = if ground && vars.is_empty() && r.chance(50) { 4 + r.below(5) } else { 1 + r.below(3) };
    for _ in 0..n {
        let g = if r.chance(35) { Some(format!("http://e/g{}", r.below(3))) } else { None };
        let mut slot = |r: &mut Rng, pos: usize| if !ground && !vars.is_empty() && r.chance(55) { Slot::Var(vars[r.below(vars.len())].clone()) } else { Slot::Const(gen_const_term(r, pos)) };
        let (a, b, c) = (slot(r, 0), slot(r, 1), slot(r, 2));
        out.push((g, a, b, c));
    }
    out
}
fn instantiate(t: &[(Option<String>, Slot, Slot, Slot)], sol: &Sol) -> Vec<Quad> {
    let mut out = Vec::new();
    for (g, a, b, c) in t {
        let f = |s: &Slot| match s { Slot::Const(t) => Some(t.clone()), Slot::Var(v) => sol.get(v).cloned() };
        if let (Some(a), Some(b), Some(c)) = (f(a), f(b), f(c)) {
            // literals are not allowed as subject or predicate
            if matches!(a, Term::Num(_)) || matches!(b, Term::Num(_)) { continue; }
            out.push((g.clone(), a, b, c));
        }
    }
    out
}
fn model_data(quads: &Vec<Quad>) -> Data {
    let mut named: Vec<(String, Vec<(Term, Term, Term)>)> = Vec::new();
    let mut default = Vec::new();
    for (g, a, b, c) in quads {
        match g { None => default.push((a.clone(), b.clone(), c.clone())), Some(g) => { if let Some(e) = named.iter_mut().find(|(n, _)| n == g) { e.1.push((a.clone(), b.clone(), c.clone())); } else { named.push((g.clone(), vec![(a.clone(), b.clone(), c.clone())])); } } }
    }
    Data { default, named }
}
fn dump(db: &mut SparqlDatabase) -> Vec<Vec<String>> {
    let mut rows: Vec<Vec<String>> = execute_sparql_query("SELECT ?s ?p ?o WHERE { ?s ?p ?o }", db).unwrap().into_iter().map(|r| vec![String::new(), r[0].clone(), r[1].clone(), r[2].clone()]).collect();
    rows.extend(execute_sparql_query("SELECT ?g ?s ?p ?o WHERE { GRAPH ?g { ?s ?p ?o } }", db).unwrap());
    rows.sort();
    rows
}
#[test]
fn differential_updates() {
    let seeds: u64 = std::env::var("PROBE_SEEDS").ok().and_then(|v| v.parse().ok()).unwrap_or(300);
    let start: u64 = std::env::var("PROBE_START").ok().and_then(|v| v.parse().ok()).unwrap_or(1);
    let mut bad = 0;
    'seed: for seed in start..start + seeds {
        let mut r = Rng(seed.wrapping_mul(0xA24BAED4963EE407) | 1);
        let mut db = SparqlDatabase::new();
        let mut model: Vec<Quad> = Vec::new();
        let mut history = Vec::new();
        for step in 0..10 {
            let kind = if step < 3 { 0 } else { r.below(6) };
            let (text, dels, inss): (String, Vec<Quad>, Vec<Quad>) = match kind {
                0 | 1 => {
                    let t = gen_template(&mut r, &[], true);
                    let qs = instantiate(&t, &Sol::new());
                    if kind == 0 { (format!("INSERT DATA {}", tmpl_text(&t)), vec![], qs) } else { (format!("DELETE DATA {}", tmpl_text(&t)), qs, vec![]) }
                }
                _ => {
                    let mut where_g = Vec::new();
                    let np = if r.chance(65) { 1 } else { 2 };
                    for _ in 0..np {
                        let loose = |r: &mut Rng, pos: usize, v: &str| if r.chance(75) { Slot::Var(v.to_string()) } else { Slot::Const(gen_const_term(r, pos)) };
                        let (v1, v2, v3) = (VARS[r.below(3)], ["e", "d"][r.below(2)], VARS[r.below(4)]);
                        where_g.push(Elem::Triple(loose(&mut r, 0, v1), loose(&mut r, 1, v2), loose(&mut r, 2, v3)));
                    }
                    if r.chance(30) { where_g.push(Elem::Graph(GraphRef::Named(format!("http://e/g{}", r.below(3))), vec![gen_triple(&mut r)])); }
                    let mut vars: Vec<String> = Vec::new();
                    fn collect(es: &[Elem], vars: &mut Vec<String>) { for e in es { match e { Elem::Triple(a, b, c) => for s in [a, b, c] { if let Slot::Var(v) = s { if !vars.contains(v) { vars.push(v.clone()); } } }, Elem::Graph(_, i) => collect(i, vars), _ => {} } } }
                    collect(&where_g, &mut vars);
                    let sols = eval_group(&where_g, &model_data(&model), None);
                    let dt = gen_template(&mut r, &vars, false);
                    let it = gen_template(&mut r, &vars, false);
                    let mut dels = Vec::new();
                    let mut inss = Vec::new();
                    match kind {
                        2 => { for s in &sols { inss.extend(instantiate(&it, s)); } (format!("INSERT {} WHERE {}", tmpl_text(&it), group_text(&where_g)), dels, inss) }
                        3 => { for s in &sols { dels.extend(instantiate(&dt, s)); } (format!("DELETE {} WHERE {}", tmpl_text(&dt), group_text(&where_g)), dels, inss) }
                        4 => { for s in &sols { dels.extend(instantiate(&dt, s)); inss.extend(instantiate(&it, s)); } (format!("DELETE {} INSERT {} WHERE {}", tmpl_text(&dt), tmpl_text(&it), group_text(&where_g)), dels, inss) }
                        _ => {
                            // DELETE WHERE shorthand: the quad block is template and pattern
                            let pats: Vec<(Option<String>, Slot, Slot, Slot)> = where_g.iter().flat_map(|e| match e { Elem::Triple(a, b, c) => vec![(None, a.clone(), b.clone(), c.clone())], Elem::Graph(GraphRef::Named(g), inner) => inner.iter().filter_map(|e| if let Elem::Triple(a, b, c) = e { Some((Some(g.clone()), a.clone(), b.clone(), c.clone())) } else { None }).collect(), _ => vec![] }).collect();
                            for s in &sols { dels.extend(instantiate(&pats, s)); }
                            (format!("DELETE WHERE {}", tmpl_text(&pats)), dels, inss)
                        }
                    }
                }
            };
            // expected effect: deletions first, then insertions; counts are quads that actually changed
            let mut want_deleted = 0;
            let mut dels_u = dels.clone(); dels_u.sort(); dels_u.dedup();
            for q in &dels_u { if let Some(i) = model.iter().position(|m| m == q) { model.remove(i); want_deleted += 1; } }
            let mut want_inserted = 0;
            let mut inss_u = inss.clone(); inss_u.sort(); inss_u.dedup();
            for q in &inss_u { if !model.contains(q) { model.push(q.clone()); want_inserted += 1; } }
            history.push(text.clone());
            if std::env::var("PROBE_SHOW").is_ok() { println!("seed {} step {} {} want +{} -{}", seed, step, text, want_inserted, want_deleted); }
            let res = std::panic::catch_unwind(std::panic::AssertUnwindSafe(|| execute_sparql_update(&text, &mut db)));
            let summary = match res { Ok(Ok(s)) => s, Ok(Err(e)) => { println!("seed {} step {} ERROR {}\n  {}", seed, step, e.lines().nth(1).unwrap_or(&e), text); bad += 1; continue 'seed; } Err(_) => { println!("seed {} step {} PANIC\n  {}", seed, step, text); bad += 1; continue 'seed; } };
            let mut want: Vec<Vec<String>> = model.iter().map(|(g, a, b, c)| vec![g.clone().unwrap_or_default(), a.out(), b.out(), c.out()]).collect();
            want.sort();
            let got = dump(&mut db);
            if got != want || summary.inserted_quads != want_inserted || summary.deleted_quads != want_deleted {
                bad += 1;
                println!("seed {} step {} MISMATCH\n  history: {:?}\n  counts want +{} -{} got +{} -{}\n  missing {:?}\n  extra {:?}", seed, step, history, want_inserted, want_deleted, summary.inserted_quads, summary.deleted_quads,
                    want.iter().filter(|q| !got.contains(q)).collect::<Vec<_>>(), got.iter().filter(|q| !want.contains(q)).collect::<Vec<_>>());
                continue 'seed;
            }
        }
    }
    println!("updates: checked {} sequences, {} discrepancies", seeds, bad);
}

// ---- C02: answers do not depend on what statistics the optimizer holds (stale: gathered on a prefix of the data)
#[test]
fn differential_stale_statistics() {
    let seeds: u64 = std::env::var("PROBE_SEEDS").ok().and_then(|v| v.parse().ok()).unwrap_or(400);
    let start: u64 = std::env::var("PROBE_START").ok().and_then(|v| v.parse().ok()).unwrap_or(1);
    let mut bad = 0;
    for seed in start..start + seeds {
        let mut r = Rng(seed.wrapping_mul(0xF1357AEA2E62A9C5) | 1);
        let data = gen_data(&mut r);
        let group = gen_group(&mut r, 2, false);
        let proj: Vec<&str> = VARS.iter().chain(NUMVARS.iter()).chain(["g"].iter()).cloned().collect();
        let q = format!("SELECT {} WHERE {}", proj.iter().map(|v| format!("?{}", v)).collect::<Vec<_>>().join(" "), group_text(&group));
        let mut want: Vec<Vec<String>> = eval_group(&group, &data, None).iter().map(|s| proj.iter().map(|v| s.get(*v).map(|t| t.out()).unwrap_or_default()).collect()).collect();
        want.sort();
        // load a prefix through the update path, warm the statistics with a query, then add the rest through APIs that bypass the update path
        let cut = data.default.len() / 3;
        let early = Data { default: data.default[..cut].to_vec(), named: vec![] };
        let mut db = load(&early);
        let _ = execute_sparql_query("SELECT ?s WHERE { ?s ?p ?o . ?o ?q ?z }", &mut db);
        let mut nt = String::new();
        for (s, p, o) in &data.default[cut..] { nt.push_str(&format!("{} {} {} .\n", s.text(), p.text(), o.text())); }
        db.parse_ntriples_and_add(&nt);
        let mut nq = String::new();
        for (g, ts) in &data.named { for (s, p, o) in ts { nq.push_str(&format!("{} {} {} <{}> .\n", s.text(), p.text(), o.text(), g)); } }
        db.parse_nquads_and_add(&nq);
        let got = std::panic::catch_unwind(std::panic::AssertUnwindSafe(|| execute_sparql_query(&q, &mut db)));
        let mut got = match got { Ok(Ok(rows)) => rows, Ok(Err(e)) => { println!("seed {} ERROR {}\n  {}", seed, e.lines().nth(1).unwrap_or(""), q); bad += 1; continue; } Err(_) => { println!("seed {} PANIC\n  {}", seed, q); bad += 1; continue; } };
        got.sort();
        if got != want {
            bad += 1;
            println!("seed {} MISMATCH under stale statistics\n  {}\n  want {} rows {:?}\n  got  {} rows {:?}", seed, q, want.len(), &want[..want.len().min(4)], got.len(), &got[..got.len().min(4)]);
        }
    }
    println!("stale statistics: checked {} queries, {} discrepancies", seeds, bad);
}


// ---- metamorphic: the names of the variables do not matter (names an engine might use internally)
fn rename(q: &str, map: &[(&str, &str)]) -> String {
    let mut out = String::new();
    let b: Vec<char> = q.chars().collect();
    let mut i = 0;
    while i < b.len() {
        if b[i] == '?' {
            let mut j = i + 1;
            while j < b.len() && (b[j].is_alphanumeric() || b[j] == '_') { j += 1; }
            let name: String = b[i + 1..j].iter().collect();
            let new = map.iter().find(|(a, _)| *a == name).map(|(_, n)| n.to_string()).unwrap_or(name);
            out.push('?');
            out.push_str(&new);
            i = j;
        } else {
            out.push(b[i]);
            i += 1;
        }
    }
    out
}

#[test]
fn differential_renamed_variables() {
    let seeds: u64 = std::env::var("PROBE_SEEDS").ok().and_then(|v| v.parse().ok()).unwrap_or(400);
    let pools: [&[&str]; 4] = [
        &["s", "p", "o", "g", "subject", "predicate", "object", "graph"],
        &["_0", "_1", "x0", "v1", "var", "value", "type", "a"],
        &["S", "s", "Ss", "sS", "s_", "_s", "s1", "s11"],
        &["count", "COUNT", "sum", "limit", "where", "select", "filter", "union"],
    ];
    let mut bad = 0;
    let mut n = 0;
    for seed in 1..1 + seeds {
        let mut r = Rng(seed.wrapping_mul(0x9E3779B97F4A7C15) | 1);
        let data = gen_data(&mut r);
        let group = gen_group(&mut r, 2, false);
        let distinct = r.chance(25);
        let proj: Vec<&str> = VARS.iter().chain(NUMVARS.iter()).chain(["g"].iter()).cloned().collect();
        let q = format!("SELECT {}{} WHERE {}", if distinct { "DISTINCT " } else { "" }, proj.iter().map(|v| format!("?{}", v)).collect::<Vec<_>>().join(" "), group_text(&group));
        let mut db = load(&data);
        let base = match std::panic::catch_unwind(std::panic::AssertUnwindSafe(|| execute_sparql_query(&q, &mut db))) { Ok(Ok(mut rows)) => { rows.sort(); rows } _ => continue };
        let all: Vec<&str> = proj.clone();
        for pool in pools.iter() {
            let map: Vec<(&str, &str)> = all.iter().enumerate().map(|(i, v)| (*v, pool[i % pool.len()])).collect();
            // keep the mapping injective
            let mut seen = std::collections::HashSet::new();
            if !map.iter().all(|(_, n)| seen.insert(*n)) { continue; }
            let q2 = rename(&q, &map);
            n += 1;
            let mut db2 = load(&data);
            let got = std::panic::catch_unwind(std::panic::AssertUnwindSafe(|| execute_sparql_query(&q2, &mut db2)));
            let got = match got { Ok(Ok(mut rows)) => { rows.sort(); Ok(rows) } Ok(Err(e)) => Err(format!("ERROR {}", e.lines().nth(1).unwrap_or(""))), Err(_) => Err("PANIC".to_string()) };
            if got.as_ref().ok() != Some(&base) {
                bad += 1;
                if bad <= 12 { println!("seed {} renamed differs\n  {}\n  {}\n  base {:?}\n  got  {:?}", seed, q, q2, &base[..base.len().min(4)], got.as_ref().map(|r| r[..r.len().min(4)].to_vec())); }
            }
        }
    }
    println!("checked {} renamed queries, {} discrepancies", n, bad);
    assert_eq!(bad, 0);
}

// Probe: a quoted triple whose terms carry `#` survives export -> import in every format.
use kolibrie::execute_query::execute_sparql_update;
use kolibrie::sparql_database::SparqlDatabase;

fn triples(db: &SparqlDatabase) -> Vec<(String, String, String)> {
    let mut out: Vec<_> = db.query_default_triples(None, None, None).into_iter().map(|t| (db.decode_any(t.subject).unwrap_or_default(), db.decode_any(t.predicate).unwrap_or_default(), db.decode_any(t.object).unwrap_or_default())).collect();
    out.sort();
    out
}

#[test]
fn quoted_triple_with_fragment_iris_round_trips() {
    let mut db = SparqlDatabase::new();
    execute_sparql_update("INSERT DATA { << <http://e/s#a> <http://e/p#b> \"v # w\" >> <http://e/src#c> <http://e/o#d> . <http://e/x#1> <http://e/p#b> \"plain # text\" }", &mut db).unwrap();
    let base = triples(&db);
    println!("base {:?}", base);
    let nt = db.generate_ntriples();
    println!("NT:\n{}", nt);
    let mut d2 = SparqlDatabase::new();
    d2.parse_ntriples_and_add(&nt);
    println!("nt  {:?}", triples(&d2));
    let ttl = db.generate_turtle();
    println!("TTL:\n{}", ttl);
    let mut d3 = SparqlDatabase::new();
    d3.parse_turtle(&ttl);
    println!("ttl {:?}", triples(&d3));
    assert_eq!(triples(&d2), base, "n-triples");
    assert_eq!(triples(&d3), base, "turtle");
}

use kolibrie::execute_query::{execute_sparql_query, execute_sparql_update};
use kolibrie::parser::parse_combined_query;
use kolibrie::sparql_database::SparqlDatabase;
use std::panic::{catch_unwind, AssertUnwindSafe};

fn quads(db: &SparqlDatabase) -> Vec<(String, String, String)> {
    let mut v: Vec<_> = db
        .dataset_index
        .all_quads()
        .into_iter()
        .map(|q| {
            (
                db.decode_any(q.subject).unwrap_or_default(),
                db.decode_any(q.predicate).unwrap_or_default(),
                db.decode_any(q.object).unwrap_or_default(),
            )
        })
        .collect();
    v.sort();
    v
}

#[test]
fn a_error_handler_multibyte_offset() {
    let mut db = SparqlDatabase::new();
    let q = "PREFIX 1ab: <http://x/> SELECT * WHERE { ?s ?p \"\u{20ac}x\" }";
    let r = catch_unwind(AssertUnwindSafe(|| execute_sparql_query(q, &mut db)));
    println!("PROBE a: {:?}", r.as_ref().map(|x| x.as_ref().map(|_| "ok").map_err(|e| e.len())));
    let r2 = catch_unwind(AssertUnwindSafe(|| execute_sparql_update(q, &mut db)));
    println!("PROBE a2: panicked={}", r2.is_err());
}

#[test]
fn b_ml_predict_slice_order() {
    let q = "ML.PREDICT(MODEL \"m\", INPUT { WHERE { } SELECT ?x }, OUTPUT ?y)";
    let r = catch_unwind(|| parse_combined_query(q).map(|_| ()).map_err(|_| ()));
    println!("PROBE b: panicked={} {:?}", r.is_err(), r.ok());
}

#[test]
fn j_duration_overflow() {
    let q = "REGISTER RSTREAM <http://o> AS SELECT * FROM NAMED WINDOW :w ON :s [RANGE PT6000000000000000H] WHERE { WINDOW :w { ?s ?p ?o } }";
    let r = catch_unwind(|| parse_combined_query(q).map(|_| ()).map_err(|_| ()));
    println!("PROBE j: panicked={} {:?}", r.is_err(), r.ok());
}

#[test]
fn f_ntriples_roundtrip_quotes() {
    let mut db = SparqlDatabase::new();
    db.add_triple_parts("http://e/s", "http://e/p", "say \"hi\"\\ there");
    db.add_triple_parts("http://e/s", "http://e/p", "urn:x:y");
    db.add_triple_parts("_:b1", "http://e/p", "plain");
    let text = db.generate_ntriples();
    println!("PROBE f text: {:?}", text);
    let mut db2 = SparqlDatabase::new();
    db2.parse_ntriples_and_add(&text);
    println!("PROBE f: equal={} before={:?} after={:?}", quads(&db) == quads(&db2), quads(&db), quads(&db2));
    let nq = db.generate_nquads();
    let mut db3 = SparqlDatabase::new();
    db3.parse_nquads_and_add(&nq);
    println!("PROBE f nquads: equal={}", quads(&db) == quads(&db3));
    let ttl = db.generate_turtle();
    let mut db4 = SparqlDatabase::new();
    db4.parse_turtle(&ttl);
    println!("PROBE f turtle: equal={} text={:?} after={:?}", quads(&db) == quads(&db4), ttl, quads(&db4));
}

#[test]
fn g_parse_n3_nonempty() {
    let mut db = SparqlDatabase::new();
    db.add_triple_parts("http://e/zzz", "http://e/yyy", "http://e/xxx");
    let doc = "@prefix ex: <http://e/> .\nex:a ex:b ex:c .\n";
    db.parse_n3(doc);
    println!("PROBE g: {:?}", quads(&db));
    // chunk boundary
    let mut db2 = SparqlDatabase::new();
    let mut big = String::from("@prefix ex: <http://e/> .\n");
    for i in 0..1500 {
        big.push_str(&format!("ex:s{} ex:p ex:o{} .\n", i, i));
    }
    db2.parse_n3(&big);
    let qs = quads(&db2);
    let wrong = qs.iter().filter(|(s, _, o)| {
        let si = s.trim_start_matches("http://e/s").trim_start_matches("ex:s");
        let oi = o.trim_start_matches("http://e/o").trim_start_matches("ex:o");
        si != oi
    }).count();
    let unresolved = qs.iter().filter(|(s, _, _)| s.starts_with("ex:")).count();
    println!("PROBE g2: n={} mismatched={} unresolved_prefix={}", qs.len(), wrong, unresolved);
}

#[test]
fn e_qts_default() {
    let mut s = shared::quoted_triple_store::QuotedTripleStore::default();
    let id = s.encode(1, 2, 3);
    println!("PROBE e: id={} is_quoted={}", id, shared::quoted_triple_store::is_quoted_triple_id(id));
}

#[test]
fn k_turtle_lone_quote() {
    let mut db = SparqlDatabase::new();
    let r = catch_unwind(AssertUnwindSafe(|| db.parse_turtle("<http://a> <http://b> \"")));
    println!("PROBE k: panicked={}", r.is_err());
}

#[test]
fn p_roundtrip_after_fix() {
    let mut db = SparqlDatabase::new();
    db.add_triple_parts("http://e/s", "http://e/p", "say \"hi\"\\ there");
    db.add_triple_parts("http://e/s", "http://e/p", "line1\nline2\r\tend");
    db.add_triple_parts("http://e/s", "http://e/p", "");
    db.add_triple_parts("http://e/s", "http://e/p", "\u{20ac} ünï");
    let nt = db.generate_ntriples();
    let mut d2 = SparqlDatabase::new();
    d2.parse_ntriples_and_add(&nt);
    let ttl = db.generate_turtle();
    let mut d3 = SparqlDatabase::new();
    d3.parse_turtle(&ttl);
    println!("PROBE p: ntriples_equal={} turtle_equal={}", quads(&db) == quads(&d2), quads(&db) == quads(&d3));
    if quads(&db) != quads(&d3) { println!("PROBE p ttl={:?} got={:?}", ttl, quads(&d3)); }
    let mut d4 = SparqlDatabase::new();
    let r = catch_unwind(AssertUnwindSafe(|| d4.parse_turtle("<http://a> <http://b> \"")));
    println!("PROBE p: lone quote panicked={}", r.is_err());
}

use kolibrie::sparql_database::SparqlDatabase;

fn triples(db: &SparqlDatabase) -> Vec<(String, String, String)> {
    let mut out: Vec<_> = db
        .query_default_triples(None, None, None)
        .into_iter()
        .map(|t| {
            (
                db.decode_any(t.subject).unwrap_or_default(),
                db.decode_any(t.predicate).unwrap_or_default(),
                db.decode_any(t.object).unwrap_or_default(),
            )
        })
        .collect();
    out.sort();
    out
}

fn source() -> SparqlDatabase {
    let mut db = SparqlDatabase::new();
    db.parse_ntriples_and_add(concat!(
        "<http://e/s> <http://e/p1> \"a \\\"quoted\\\" \\\\ back\" .\n",
        "<http://e/s> <http://e/p2> \"line\\nbreak\" .\n",
        "<http://e/s> <http://e/p2> \"\" .\n",
        "<http://e/s> <http://e/p3> <http://e/o> .\n",
        "<http://e/t> <http://e/p1> \"caf\u{e9} \u{4e2d}\" .\n",
        "<< <http://e/s> <http://e/p3> <http://e/o> >> <http://e/src> <http://e/doc> .\n",
        "<http://e/u> <http://e/says> << <http://e/s> <http://e/p3> <http://e/o> >> .\n",
    ));
    db
}

#[test]
fn ntriples_roundtrip() {
    let db = source();
    let before = triples(&db);
    let text = db.generate_ntriples();
    println!("{}", text);
    let mut db2 = SparqlDatabase::new();
    db2.parse_ntriples_and_add(&text);
    assert_eq!(triples(&db2), before);
}

#[test]
fn turtle_roundtrip() {
    let db = source();
    let before = triples(&db);
    let text = db.generate_turtle();
    println!("{}", text);
    let mut db2 = SparqlDatabase::new();
    db2.parse_turtle(&text);
    assert_eq!(triples(&db2), before);
}

#[test]
fn nquads_roundtrip() {
    let db = source();
    let before = triples(&db);
    let text = db.generate_nquads();
    println!("{}", text);
    let mut db2 = SparqlDatabase::new();
    db2.parse_nquads_and_add(&text);
    assert_eq!(triples(&db2), before);
}

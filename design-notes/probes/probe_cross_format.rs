use kolibrie::sparql_database::SparqlDatabase;

fn triples(db: &SparqlDatabase) -> Vec<(String, String, String)> {
    let mut out: Vec<_> = db
        .query_default_triples(None, None, None)
        .into_iter()
        .map(|t| {
            (
                db.decode_any(t.subject).unwrap_or_default(),
                db.decode_any(t.predicate).unwrap_or_default(),
                db.decode_any(t.object).unwrap_or_default(),
            )
        })
        .collect();
    out.sort();
    out
}

const DOC: &str = concat!(
    "<http://e/s> <http://e/p> \"chat\"@fr .\n",
    "<http://e/s> <http://e/q> \"5\"^^<http://www.w3.org/2001/XMLSchema#integer> .\n",
    "<http://e/s> <http://e/r> \"plain\" .\n",
    "<http://e/s> <http://e/t> <http://e/o> .\n",
    "_:b1 <http://e/t> _:b2 .\n",
);

#[test]
fn same_document_loads_identically_in_three_formats() {
    let mut nt = SparqlDatabase::new();
    nt.parse_ntriples_and_add(DOC);
    let mut nq = SparqlDatabase::new();
    nq.parse_nquads_and_add(DOC);
    let mut ttl = SparqlDatabase::new();
    ttl.parse_turtle(DOC);
    println!("nt  {:?}", triples(&nt));
    println!("nq  {:?}", triples(&nq));
    println!("ttl {:?}", triples(&ttl));
    assert_eq!(triples(&nt), triples(&nq), "N-Triples vs N-Quads");
    assert_eq!(triples(&nt), triples(&ttl), "N-Triples vs Turtle");
}

#[test]
fn turtle_annotation_on_a_literal_with_blanks() {
    let mut db = SparqlDatabase::new();
    db.parse_turtle("<http://e/s> <http://e/p> \"two words\" {| <http://e/src> <http://e/doc> |} .\n");
    let all = triples(&db);
    println!("{:?}", all);
    assert!(all.contains(&("http://e/s".to_string(), "http://e/p".to_string(), "two words".to_string())));
    assert!(
        all.contains(&("<< http://e/s http://e/p two words >>".to_string(), "http://e/src".to_string(), "http://e/doc".to_string())),
        "annotation must be about the asserted triple"
    );
}

// Brute-force probe for C08: hybrid results never certify a wrong decision, whatever the budgets.
use shared::hybrid::{evaluate_hybrid_with_clock, AlertDecision, HybridClock, HybridConfig, HybridProbabilityResult, LineageId, LineageStore, SeedId, SeedRegistry};
use shared::triple::Triple;
use std::sync::atomic::{AtomicU64, Ordering};
use std::sync::{Arc, Mutex};
use std::time::{Duration, Instant};

struct Rng(u64);
impl Rng {
    fn next(&mut self) -> u64 { self.0 ^= self.0 << 13; self.0 ^= self.0 >> 7; self.0 ^= self.0 << 17; self.0 }
    fn below(&mut self, n: usize) -> usize { (self.next() % n as u64) as usize }
    fn chance(&mut self, pct: usize) -> bool { self.below(100) < pct }
}
// every reading of the clock advances it: budgets run out after a given number of steps, at any point of the computation
struct StepClock { base: Instant, ticks: AtomicU64, step: Duration }
impl HybridClock for StepClock { fn now(&self) -> Instant { let n = self.ticks.fetch_add(1, Ordering::SeqCst); self.base + self.step * n as u32 } }

#[derive(Clone, Debug)]
enum Fm { Lit(usize), Not(Box<Fm>), And(Vec<Fm>), Or(Vec<Fm>) }
fn gen(r: &mut Rng, depth: usize, n: usize, neg: bool) -> Fm {
    if depth == 0 || r.chance(30) { return Fm::Lit(r.below(n)); }
    match r.below(if neg { 7 } else { 6 }) {
        0..=2 => Fm::And((0..2 + r.below(2)).map(|_| gen(r, depth - 1, n, neg)).collect()),
        3..=5 => Fm::Or((0..2 + r.below(3)).map(|_| gen(r, depth - 1, n, neg)).collect()),
        _ => Fm::Not(Box::new(gen(r, depth - 1, n, neg))),
    }
}
fn truth(f: &Fm, a: u32) -> bool { match f { Fm::Lit(i) => (a >> i) & 1 == 1, Fm::Not(x) => !truth(x, a), Fm::And(xs) => xs.iter().all(|x| truth(x, a)), Fm::Or(xs) => xs.iter().any(|x| truth(x, a)) } }
fn build(s: &mut LineageStore, f: &Fm, ids: &[SeedId]) -> LineageId {
    match f {
        Fm::Lit(i) => s.literal(ids[*i]),
        Fm::Not(x) => { let a = build(s, x, ids); s.not(a) }
        Fm::And(xs) => { let v: Vec<LineageId> = xs.iter().map(|x| build(s, x, ids)).collect(); s.and(v) }
        Fm::Or(xs) => { let v: Vec<LineageId> = xs.iter().map(|x| build(s, x, ids)).collect(); s.or(v) }
    }
}
#[test]
fn hybrid_never_certifies_a_wrong_decision() {
    let seeds_n: u64 = std::env::var("PROBE_SEEDS").ok().and_then(|v| v.parse().ok()).unwrap_or(2000);
    let mut bad = 0;
    let mut kinds = std::collections::BTreeMap::new();
    for seed in 1..=seeds_n {
        let mut r = Rng(seed.wrapping_mul(0x9E3779B97F4A7C15) | 1);
        let n = 2 + r.below(7);
        let probs: Vec<f64> = (0..n).map(|_| [0.0, 0.05, 0.2, 0.5, 0.5, 0.8, 0.95, 1.0][r.below(8)]).collect();
        let mut reg = SeedRegistry::new();
        let ids: Vec<SeedId> = (0..n).map(|i| reg.register_static(Triple { subject: i as u32, predicate: 1, object: 2 }, probs[i]).unwrap()).collect();
        let snapshot = Arc::new(reg.snapshot_all());
        let neg = r.chance(40);
        let f = gen(&mut r, 3, n, neg);
        let mut store = LineageStore::new();
        let root = build(&mut store, &f, &ids);
        let store = Arc::new(Mutex::new(store));
        let truth_p: f64 = (0..(1u32 << n)).filter(|a| truth(&f, *a)).map(|a| (0..n).map(|i| if (a >> i) & 1 == 1 { probs[i] } else { 1.0 - probs[i] }).product::<f64>()).sum();
        let mut config = HybridConfig::default();
        config.threshold = [0.1, 0.3, 0.5, 0.5, 0.7, 0.9, truth_p.clamp(0.01, 0.99)][r.below(7)];
        config.band_epsilon = [0.0, 0.02, 0.1][r.below(3)];
        config.k_initial = 1 + r.below(4);
        config.k_max = config.k_initial + r.below(8);
        config.k_growth = 1 + r.below(3);
        config.sdd_node_budget = [3, 8, 20, 100_000][r.below(4)];
        config.topk_budget = Duration::from_millis([0, 1, 3, 10, 1000][r.below(5)]);
        config.sdd_budget = Duration::from_millis([0, 1, 5, 20, 1000][r.below(5)]);
        let clock = StepClock { base: Instant::now(), ticks: AtomicU64::new(0), step: Duration::from_micros([0, 1, 10, 100, 1000][r.below(5)]) };
        let res = std::panic::catch_unwind(std::panic::AssertUnwindSafe(|| evaluate_hybrid_with_clock(&store, &snapshot, root, &config, &clock)));
        let result = match res { Ok(x) => x, Err(_) => { bad += 1; println!("seed {} PANIC {:?} probs {:?} config {:?}", seed, f, probs, config); continue; } };
        *kinds.entry(result.status()).or_insert(0usize) += 1;
        let eps = 1e-9;
        let mut problems = Vec::new();
        match &result {
            HybridProbabilityResult::Exact { probability, .. } => if (probability - truth_p).abs() > 1e-7 { problems.push(format!("Exact {} but the probability is {}", probability, truth_p)); },
            HybridProbabilityResult::LowerBound { lower_bound, .. } => if *lower_bound > truth_p + eps { problems.push(format!("LowerBound {} above the probability {}", lower_bound, truth_p)); },
            HybridProbabilityResult::Bounded { interval, .. } => if interval.lower > truth_p + eps || interval.upper < truth_p - eps { problems.push(format!("interval [{}, {}] does not contain {}", interval.lower, interval.upper, truth_p)); },
            HybridProbabilityResult::NeedsExact { lower_bound, upper_bound, .. } => {
                if let Some(l) = lower_bound { if *l > truth_p + eps { problems.push(format!("NeedsExact lower bound {} above {}", l, truth_p)); } }
                if let Some(u) = upper_bound { if *u < truth_p - eps { problems.push(format!("NeedsExact upper bound {} below {}", u, truth_p)); } }
            }
            HybridProbabilityResult::UnsafeApproximation { .. } => {}
        }
        match result.decision() {
            AlertDecision::Alert => if truth_p < config.threshold - eps { problems.push(format!("Alert although {} < threshold {}", truth_p, config.threshold)); },
            AlertDecision::NoAlert => if truth_p >= config.threshold + eps { problems.push(format!("NoAlert although {} >= threshold {}", truth_p, config.threshold)); },
            AlertDecision::Indeterminate => {}
        }
        if !problems.is_empty() { bad += 1; println!("seed {} {:?}\n  formula {:?}\n  probs {:?}\n  threshold {} eps {} k {}..{} nodes {} budgets {:?}/{:?}\n  result {} reason {:?}", seed, problems, f, probs, config.threshold, config.band_epsilon, config.k_initial, config.k_max, config.sdd_node_budget, config.topk_budget, config.sdd_budget, result.status(), result.reason()); }
    }
    println!("hybrid: checked {} formulas, {} discrepancies; results {:?}", seeds_n, bad, kinds);
}

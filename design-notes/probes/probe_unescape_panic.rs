//! Probe: can a public entry point deliver an un-validated `\uXXXX` escape
//! (whose "hex digits" contain a multi-byte character) to
//! `unescape_sparql_iri` / `literal_lexical_value` in
//! kolibrie/src/streamertail_optimizer/utils.rs ?
//!
//! Nothing is asserted. Each attempt prints
//!   PROBE <name>: panicked=<bool> result=<debug>

use kolibrie::execute_query::{
    execute_query_rayon_parallel2_volcano, execute_sparql_query, execute_sparql_update,
};
use kolibrie::parser::process_rule_definition;
use kolibrie::rsp_engine::{
    OperationMode, QueryExecutionMode, RSPBuilder, RSPEngine, ResultConsumer, SimpleR2R,
};
use kolibrie::sparql_database::SparqlDatabase;
use kolibrie::streamertail_optimizer::{
    build_logical_plan, build_logical_plan_from_group, compile_graph_term, compile_term,
    compile_triple,
};
use shared::query::{FilterExpression, GroupGraphPattern};
use shared::triple::Triple;
use std::collections::HashMap;
use std::fmt::Debug;
use std::panic::{catch_unwind, AssertUnwindSafe};
use std::sync::{Arc, Mutex};

fn short<T: Debug>(value: &T) -> String {
    let text = format!("{value:?}");
    if text.chars().count() > 220 {
        let cut: String = text.chars().take(220).collect();
        format!("{cut}...")
    } else {
        text
    }
}

fn panic_message(payload: &(dyn std::any::Any + Send)) -> String {
    if let Some(text) = payload.downcast_ref::<&str>() {
        (*text).to_string()
    } else if let Some(text) = payload.downcast_ref::<String>() {
        text.clone()
    } else {
        "<non-string panic payload>".to_string()
    }
}

fn probe<T: Debug>(name: &str, attempt: impl FnOnce() -> T) -> bool {
    match catch_unwind(AssertUnwindSafe(attempt)) {
        Ok(value) => {
            println!("PROBE {name}: panicked=false result={}", short(&value));
            false
        }
        Err(payload) => {
            println!(
                "PROBE {name}: panicked=true result=PANIC({:?})",
                panic_message(payload.as_ref())
            );
            true
        }
    }
}

fn seeded_db() -> SparqlDatabase {
    let mut db = SparqlDatabase::new();
    db.add_triple_parts("http://a/s", "http://a/p", "http://a/o");
    db.add_triple_parts("http://a/s", "http://a/q", "lit");
    db
}

/// Same text with the malformed escape replaced by a well-formed one. Used to
/// show that a rejection of the probe text is caused by the escape itself and
/// not by an unrelated syntax problem in the probe.
fn control_text(text: &str) -> String {
    text.replace("\\uabcé", "\\u00e9").replace("\\uabc>", "\\u00e9>")
}

fn query(name: &str, text: &str) -> bool {
    let panicked = probe(name, || {
        let mut db = seeded_db();
        execute_sparql_query(text, &mut db)
    });
    let control = control_text(text);
    if control != text {
        probe(&format!("{name}[control \\u00e9]"), || {
            let mut db = seeded_db();
            execute_sparql_query(&control, &mut db).map(|rows| format!("Ok rows={}", rows.len()))
        });
    }
    panicked
}

fn update(name: &str, text: &str) -> bool {
    let panicked = probe(name, || {
        let mut db = seeded_db();
        execute_sparql_update(text, &mut db)
    });
    let control = control_text(text);
    if control != text {
        probe(&format!("{name}[control \\u00e9]"), || {
            let mut db = seeded_db();
            execute_sparql_update(&control, &mut db)
        });
    }
    panicked
}

// ---------------------------------------------------------------------------
// (1) Direct calls of PUBLIC functions that reach the decoders.
// ---------------------------------------------------------------------------
#[test]
fn part1_direct_public_functions() {
    let prefixes: HashMap<String, String> = HashMap::new();

    probe("direct.compile_term.iri_u4", || {
        let mut db = SparqlDatabase::new();
        compile_term(r"<http://a/\uabcé>", &prefixes, &mut db)
    });
    probe("direct.compile_term.iri_U8", || {
        let mut db = SparqlDatabase::new();
        compile_term(r"<http://a/\U0000abcé>", &prefixes, &mut db)
    });
    probe("direct.compile_term.literal_dq_u4", || {
        let mut db = SparqlDatabase::new();
        compile_term(r#""\uabcé""#, &prefixes, &mut db)
    });
    probe("direct.compile_term.literal_sq_u4", || {
        let mut db = SparqlDatabase::new();
        compile_term(r"'\uabcé'", &prefixes, &mut db)
    });
    probe("direct.compile_term.literal_dq_U8", || {
        let mut db = SparqlDatabase::new();
        compile_term(r#""x\U0010abcéy""#, &prefixes, &mut db)
    });
    probe("direct.compile_term.bare_else_branch", || {
        let mut db = SparqlDatabase::new();
        // neither <...> nor quoted: resolve_query_term + unescape_sparql_iri
        compile_term(r"foo\uabcé", &prefixes, &mut db)
    });
    probe("direct.compile_term.control_valid_escape", || {
        let mut db = SparqlDatabase::new();
        compile_term(r"<http://a/\u00e9>", &prefixes, &mut db)
    });
    probe("direct.compile_triple.object_literal", || {
        let mut db = SparqlDatabase::new();
        compile_triple(("?s", "?p", r#""\uabcé""#), &prefixes, &mut db)
    });
    probe("direct.compile_graph_term.iri", || {
        let mut db = SparqlDatabase::new();
        compile_graph_term(r"<http://g/\uabcé>", &prefixes, &mut db)
    });
    probe("direct.build_logical_plan_from_group.bgp", || {
        let mut db = SparqlDatabase::new();
        let pattern = GroupGraphPattern::Bgp(vec![("?s", "?p", r"<http://a/\uabcé>")]);
        build_logical_plan_from_group(&pattern, &prefixes, &mut db).map(|_| "plan built")
    });
    probe("direct.build_logical_plan.legacy_pattern", || {
        let mut db = SparqlDatabase::new();
        let _ = build_logical_plan(
            Vec::new(),
            vec![("?s", "?p", r#""\uabcé""#)],
            Vec::new(),
            &prefixes,
            &mut db,
            &[],
            None,
        );
        "plan built"
    });
    probe("direct.build_logical_plan.legacy_filter", || {
        let mut db = SparqlDatabase::new();
        let _ = build_logical_plan(
            Vec::new(),
            vec![("?s", "?p", "?o")],
            vec![FilterExpression::Comparison("?o", "=", r#""\uabcé""#)],
            &prefixes,
            &mut db,
            &[],
            None,
        );
        "plan built"
    });
    probe("direct.resolve_query_term_only(control,no decoder)", || {
        let db = SparqlDatabase::new();
        db.resolve_query_term(r"<http://a/\uabcé>", &prefixes)
    });
}

// ---------------------------------------------------------------------------
// (2a) Straightforward placements through the string APIs. These are expected
//      to be stopped by sparql_iri / sparql_quoted_literal.
// ---------------------------------------------------------------------------
#[test]
fn part2a_plain_positions_through_string_apis() {
    query(
        "query.subject_iri",
        r"SELECT * WHERE { <http://a/\uabcé> ?p ?o }",
    );
    query(
        "query.predicate_iri",
        r"SELECT * WHERE { ?s <http://a/\uabcé> ?o }",
    );
    query(
        "query.object_iri",
        r"SELECT * WHERE { ?s ?p <http://a/\uabcé> }",
    );
    query(
        "query.object_literal_dq",
        r#"SELECT * WHERE { ?s ?p "\uabcé" }"#,
    );
    query(
        "query.object_literal_sq",
        r"SELECT * WHERE { ?s ?p '\uabcé' }",
    );
    query(
        "query.object_literal_long",
        r#"SELECT * WHERE { ?s ?p """x\uabcé""" }"#,
    );
    query(
        "query.object_literal_datatype_iri",
        r#"SELECT * WHERE { ?s ?p "x"^^<http://a/\uabcé> }"#,
    );
    query(
        "query.filter_literal",
        r#"SELECT * WHERE { ?s ?p ?o FILTER(?o = "\uabcé") }"#,
    );
    query(
        "query.filter_iri",
        r"SELECT * WHERE { ?s ?p ?o FILTER(?o = <http://a/\uabcé>) }",
    );
    query(
        "query.values_literal",
        r#"SELECT * WHERE { VALUES ?o { "\uabcé" } ?s ?p ?o }"#,
    );
    query(
        "query.values_iri",
        r"SELECT * WHERE { VALUES ?o { <http://a/\uabcé> } ?s ?p ?o }",
    );
    query(
        "query.bind_literal",
        r#"SELECT * WHERE { ?s ?p ?o BIND(CONCAT(?o, "\uabcé") AS ?x) }"#,
    );
    query(
        "query.graph_name",
        r"SELECT * WHERE { GRAPH <http://g/\uabcé> { ?s ?p ?o } }",
    );
    query(
        "query.from",
        r"SELECT * FROM <http://g/\uabcé> WHERE { ?s ?p ?o }",
    );
    query(
        "query.prefix_decl",
        "PREFIX ex: <http://a/\\uabc>\nSELECT * WHERE { ex:éx ?p ?o }",
    );
    query(
        "query.prefixed_local_backslash_u",
        "PREFIX ex: <http://a/>\nSELECT * WHERE { ex:\\uabcé ?p ?o }",
    );
    query(
        "query.quoted_triple_member",
        r"SELECT * WHERE { << <http://a/s> <http://a/p> <http://a/\uabcé> >> ?p ?o }",
    );
    query(
        "query.quoted_triple_sq_literal_with_spaces",
        r"SELECT * WHERE { << <http://a/s> <http://a/p> 'x <\\uabcé> y' >> ?p ?o }",
    );
    query(
        "query.subquery",
        r#"SELECT * WHERE { { SELECT ?s WHERE { ?s ?p "\uabcé" } } }"#,
    );

    update(
        "update.insert_data_object_literal",
        r#"INSERT DATA { <http://a/s> <http://a/p> "\uabcé" }"#,
    );
    update(
        "update.insert_data_subject_iri",
        r"INSERT DATA { <http://a/\uabcé> <http://a/p> <http://a/o> }",
    );
    update(
        "update.delete_data_object_literal",
        r#"DELETE DATA { <http://a/s> <http://a/p> "\uabcé" }"#,
    );
    update(
        "update.insert_where_template",
        r#"INSERT { ?s <http://a/p2> "\uabcé" } WHERE { ?s ?p ?o }"#,
    );
    update(
        "update.delete_where_shorthand",
        r#"DELETE WHERE { ?s ?p "\uabcé" }"#,
    );
    update(
        "update.delete_insert_where_filter",
        r#"DELETE { ?s ?p ?o } INSERT { ?s ?p "n" } WHERE { ?s ?p ?o FILTER(?o = "\uabcé") }"#,
    );
    update(
        "update.insert_data_graph",
        r"INSERT DATA { GRAPH <http://g/\uabcé> { <http://a/s> <http://a/p> <http://a/o> } }",
    );

    // Extension grammars (RULE / CONSTRUCT / ML.PREDICT / REGISTER).
    let rule_body = r#"PREFIX ex: <http://a/>
RULE :R :- CONSTRUCT { ?s ex:flag "\uabcé" . } WHERE { ?s ex:p <http://a/\uabcé> . FILTER(?s = "\uabcé") }"#;
    query("query.rule_clause", rule_body);
    probe("process_rule_definition.rule_clause", || {
        let mut db = seeded_db();
        process_rule_definition(rule_body, &mut db).map(|(_, inferred)| inferred.len())
    });
    probe("process_rule_definition.rule_clause[control \\u00e9]", || {
        let mut db = seeded_db();
        process_rule_definition(&control_text(rule_body), &mut db)
            .map(|(_, inferred)| inferred.len())
    });
    probe("process_rule_definition.comment_in_quoted_triple_body", || {
        let mut db = seeded_db();
        process_rule_definition(
            "RULE :R :- CONSTRUCT { ?s <http://a/flag> <http://a/yes> . } WHERE { ?s <http://a/says> << <http://a/s> # <\\uabcé>\n <http://a/p> <http://a/o> >> . }",
            &mut db,
        )
        .map(|(_, inferred)| inferred.len())
    });
    let rule_then_select = r#"PREFIX ex: <http://a/>
RULE :R :- CONSTRUCT { ?s ex:flag "yes" . } WHERE { ?s ex:p ?o . }
SELECT * WHERE { ?s ex:flag "\uabcé" }"#;
    query("query.rule_then_select", rule_then_select);
    query(
        "query.register_clause",
        r#"REGISTER RSTREAM <http://out/\uabcé> AS
SELECT *
FROM NAMED WINDOW :w ON ?stream [RANGE 3 STEP 1]
WHERE { WINDOW :w { ?s <http://a/p> "\uabcé" . } }"#,
    );
    query(
        "query.ml_predict_clause",
        r#"ML.PREDICT(MODEL "m\uabcé", INPUT { SELECT ?s WHERE { ?s <http://a/p> "\uabcé" } }, OUTPUT ?y)"#,
    );
}

// ---------------------------------------------------------------------------
// (2b) Bypass candidates: text that the token scanners never validate
//      (SPARQL `#` comments kept inside a raw source slice; prefix IRIs
//      registered by un-validating helpers).
// ---------------------------------------------------------------------------
#[test]
fn part2b_bypass_candidates() {
    // --- comment inside an RDF-star quoted triple: sparql_quoted_triple
    //     returns the RAW slice (comment included); compile_term /
    //     instantiate_term re-split it with split_quoted_triple_content.
    let qt_select = "SELECT * WHERE { << <http://a/s> # <\\uabcé>\n <http://a/p> <http://a/o> >> ?p ?o }";
    query("bypass.query.comment_in_quoted_triple_subject", qt_select);
    query(
        "bypass.query.comment_in_quoted_triple_object",
        "SELECT * WHERE { ?s ?p << <http://a/s> <http://a/p> # \"\\uabcé\"\n <http://a/o> >> }",
    );
    query(
        "bypass.query.comment_in_quoted_triple_literal_decoder",
        "SELECT * WHERE { ?s ?p << <http://a/s> <http://a/p> # x\n \"\\\\\" # \\uabcé\"\n >> }",
    );
    // comment word that starts with a quote becomes the first word of the
    // re-joined "object" => literal_lexical_value (utils.rs:337) is the decoder
    query(
        "bypass.query.comment_in_quoted_triple_reaches_literal_lexical_value",
        "SELECT * WHERE { << <http://a/s> # \"\\uabcé\"\n <http://a/p> <http://a/o> >> ?p ?o }",
    );
    update(
        "bypass.update.comment_in_quoted_triple_reaches_literal_lexical_value",
        "INSERT DATA { << <http://a/s> # '\\uabcé'\n <http://a/p> <http://a/o> >> <http://a/says> <http://a/x> }",
    );
    probe("bypass.volcano.comment_in_quoted_triple", || {
        let mut db = seeded_db();
        execute_query_rayon_parallel2_volcano(qt_select, &mut db)
    });
    update(
        "bypass.update.insert_data_comment_in_quoted_triple",
        "INSERT DATA { << <http://a/s> # <\\uabcé>\n <http://a/p> <http://a/o> >> <http://a/says> <http://a/x> }",
    );
    update(
        "bypass.update.delete_where_comment_in_quoted_triple",
        "DELETE WHERE { << <http://a/s> # <\\uabcé>\n <http://a/p> <http://a/o> >> ?p ?o }",
    );
    update(
        "bypass.update.insert_where_template_comment_in_quoted_triple",
        "INSERT { ?s <http://a/says> << <http://a/s> # <\\uabcé>\n <http://a/p> <http://a/o> >> } WHERE { ?s ?p ?o }",
    );
    probe("bypass.db.execute_update.comment_in_quoted_triple", || {
        let mut db = seeded_db();
        db.execute_update(
            "INSERT DATA { << <http://a/s> # <\\uabcé>\n <http://a/p> <http://a/o> >> <http://a/says> <http://a/x> }",
        )
    });
    probe("bypass.db.handle_update.comment_in_quoted_triple", || {
        let mut db = seeded_db();
        db.handle_update(
            "INSERT DATA { << <http://a/s> # <\\uabcé>\n <http://a/p> <http://a/o> >> <http://a/says> <http://a/x> }",
        )
    });

    // --- comment inside a FILTER operand slice.
    query(
        "bypass.query.filter_parenthesised_operand_with_comment",
        "SELECT * WHERE { ?s ?p ?o FILTER(?o = ( # \\uabcé\n 1 )) }",
    );
    query(
        "bypass.query.filter_istriple_comment_in_quoted_triple",
        "SELECT * WHERE { ?s ?p ?o FILTER(isTRIPLE(<< <http://a/s> # \\uabcé\n <http://a/p> <http://a/o> >>)) }",
    );
    update(
        "bypass.update.delete_where_filter_comment",
        "DELETE { ?s ?p ?o } WHERE { ?s ?p ?o FILTER(?o = ( # \\uabcé\n 1 )) }",
    );

    // --- HTTP front door of SparqlDatabase.
    probe("bypass.http.post_sparql_query", || {
        let mut db = seeded_db();
        let body = "SELECT * WHERE { ?s ?p ?o FILTER(?o = ( # \\uabcé\n 1 )) }";
        let request = format!(
            "POST /sparql HTTP/1.1\r\nHost: localhost\r\nContent-Type: application/sparql-query\r\nContent-Length: {}\r\n\r\n{}",
            body.len(),
            body
        );
        db.handle_http_request(&request)
    });
    probe("bypass.http.post_sparql_update", || {
        let mut db = seeded_db();
        let body = "INSERT DATA { << <http://a/s> # <\\uabcé>\n <http://a/p> <http://a/o> >> <http://a/says> <http://a/x> }";
        let request = format!(
            "POST /sparql HTTP/1.1\r\nHost: localhost\r\nContent-Type: application/sparql-update\r\nContent-Length: {}\r\n\r\n{}",
            body.len(),
            body
        );
        db.handle_http_request(&request)
    });

    // --- prefix IRIs stored by helpers that do not validate escapes; the
    //     prefixed-name branch runs unescape_sparql_iri on prefix+local.
    probe("bypass.prefix.register_prefixes_from_query_then_select", || {
        let mut db = seeded_db();
        db.register_prefixes_from_query("PREFIX ex: <http://a/\\uabc>");
        execute_sparql_query("SELECT * WHERE { ex:éx ?p ?o }", &mut db)
    });
    probe("bypass.prefix.process_rule_definition_then_select", || {
        let mut db = seeded_db();
        // parse fails, but register_prefixes_from_query already ran
        let first = process_rule_definition("PREFIX ex: <http://a/\\uabc>", &mut db).is_ok();
        let second = execute_sparql_query("SELECT * WHERE { ex:éx ?p ?o }", &mut db);
        (first, second)
    });
    probe("bypass.prefix.parse_turtle_then_select", || {
        let mut db = seeded_db();
        db.parse_turtle("@prefix ex: <http://a/\\uabc> .\n");
        execute_sparql_query("SELECT * WHERE { ex:éx ?p ?o }", &mut db)
    });
    probe("bypass.prefix.parse_turtle_then_insert_data", || {
        let mut db = seeded_db();
        db.parse_turtle("@prefix ex: <http://a/\\uabc> .\n");
        execute_sparql_update("INSERT DATA { ex:éx <http://a/p> <http://a/o> }", &mut db)
    });
    probe("bypass.prefix.set_prefixes_then_select", || {
        let mut db = seeded_db();
        let mut prefixes = HashMap::new();
        prefixes.insert("ex".to_string(), "http://a/\\uabc".to_string());
        db.set_prefixes(prefixes);
        execute_sparql_query("SELECT * WHERE { ex:éx ?p ?o }", &mut db)
    });

    // --- RSP engine builder (legacy parse_where + build_logical_plan).
    probe("bypass.rsp_builder.comment_in_quoted_triple", || {
        let sink = Arc::new(Mutex::new(Vec::<Vec<(String, String)>>::new()));
        let sink_clone = Arc::clone(&sink);
        let consumer = ResultConsumer {
            function: Arc::new(move |rows: Vec<(String, String)>| {
                sink_clone.lock().unwrap().push(rows);
            }),
        };
        let r2r = Box::new(SimpleR2R::with_execution_mode(QueryExecutionMode::Volcano));
        let rsp_query = "REGISTER RSTREAM <http://out/stream> AS\nSELECT *\nFROM NAMED WINDOW :w ON ?stream [RANGE 3 STEP 1]\nWHERE { WINDOW :w { << <http://a/s> # <\\uabcé>\n <http://a/p> <http://a/o> >> <http://a/says> ?o . } }";
        let built: Result<RSPEngine<Triple, Vec<(String, String)>>, String> = RSPBuilder::new()
            .add_rsp_ql_query(rsp_query)
            .add_consumer(consumer)
            .add_r2r(r2r)
            .set_operation_mode(OperationMode::SingleThread)
            .build();
        built.map(|_| "engine built")
    });
}

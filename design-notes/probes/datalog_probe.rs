use datalog::reasoning::backward_chaining::resolve_term;
use datalog::reasoning::Reasoner;
use shared::rule::{FilterCondition, Rule};
use shared::terms::Term;
use std::collections::BTreeSet;

fn enc(r: &Reasoner, s: &str) -> u32 {
    r.dictionary.write().unwrap().encode(s)
}
fn v(n: &str) -> Term {
    Term::Variable(n.into())
}
fn c(i: u32) -> Term {
    Term::Constant(i)
}
fn rule(p: Vec<(Term, Term, Term)>, n: Vec<(Term, Term, Term)>, f: Vec<FilterCondition>, cl: Vec<(Term, Term, Term)>) -> Rule {
    Rule { premise: p, negative_premise: n, filters: f, conclusion: cl }
}
fn facts(r: &Reasoner) -> BTreeSet<(String, String, String)> {
    let d = r.dictionary.read().unwrap();
    r.dataset_index
        .query(None, None, None)
        .into_iter()
        .map(|t| {
            (
                d.decode(t.subject).unwrap().to_string(),
                d.decode(t.predicate).unwrap().to_string(),
                d.decode(t.object).unwrap().to_string(),
            )
        })
        .collect()
}

#[test]
fn c_repairs_nonmaximal() {
    let mut bad = 0;
    for run in 0..40 {
        let mut r = Reasoner::new();
        r.add_abox_triple("x", "a", "1");
        r.add_abox_triple("x", "b", "1");
        r.add_abox_triple("y", "free", "2");
        r.add_abox_triple("z", "free", "3");
        let a = enc(&r, "a");
        let b = enc(&r, "b");
        let free = enc(&r, "free");
        // constraint: ?s a ?o , ?s b ?o  => violation
        r.add_constraint(rule(
            vec![(v("s"), c(a), v("o")), (v("s"), c(b), v("o"))],
            vec![],
            vec![],
            vec![],
        ));
        let ans = r.query_with_repairs(&(v("s"), c(free), v("o")));
        if ans.len() != 2 {
            bad += 1;
            if bad == 1 {
                println!("PROBE c: run {} answers={:?}", run, ans);
            }
        }
    }
    println!("PROBE c: runs_with_missing_unrelated_facts={}/40", bad);
}

#[test]
fn d_backward_capture() {
    let mut r = Reasoner::new();
    r.add_abox_triple("A", "parent", "B");
    r.add_abox_triple("B", "parent", "C");
    let parent = enc(&r, "parent");
    let anc = enc(&r, "ancestor");
    r.add_rule(rule(vec![(v("X"), c(parent), v("Y"))], vec![], vec![], vec![(v("X"), c(anc), v("Y"))]));
    r.add_rule(rule(
        vec![(v("X"), c(parent), v("Y")), (v("Y"), c(anc), v("Z"))],
        vec![],
        vec![],
        vec![(v("X"), c(anc), v("Z"))],
    ));
    for (s, o) in [("Q", "R"), ("v0", "v1"), ("v1", "v0"), ("v2", "v3")] {
        let goal = (v(s), c(anc), v(o));
        let res = r.backward_chaining(&goal);
        let mut pairs: BTreeSet<(String, String)> = BTreeSet::new();
        for b in &res {
            let a = resolve_term(&v(s), b);
            let z = resolve_term(&v(o), b);
            pairs.insert((format!("{:?}", a), format!("{:?}", z)));
        }
        println!("PROBE d: goal vars ({},{}) -> {} distinct answers: {:?}", s, o, pairs.len(), pairs);
    }
}

#[test]
fn i_parallel_three_premise_and_filter() {
    let build = || {
        let mut r = Reasoner::new();
        r.add_abox_triple("a", "p", "b");
        r.add_abox_triple("b", "q", "c");
        r.add_abox_triple("c", "r", "d");
        r.add_abox_triple("n1", "val", "5");
        r.add_abox_triple("n2", "val", "50");
        let p = enc(&r, "p");
        let q = enc(&r, "q");
        let rr = enc(&r, "r");
        let t = enc(&r, "three");
        let val = enc(&r, "val");
        let big = enc(&r, "big");
        let yes = enc(&r, "yes");
        r.add_rule(rule(
            vec![(v("A"), c(p), v("B")), (v("B"), c(q), v("C")), (v("C"), c(rr), v("D"))],
            vec![],
            vec![],
            vec![(v("A"), c(t), v("D"))],
        ));
        r.add_rule(rule(
            vec![(v("N"), c(val), v("V"))],
            vec![],
            vec![FilterCondition { variable: "V".into(), operator: ">".into(), value: "10".into() }],
            vec![(v("N"), c(big), c(yes))],
        ));
        // variable predicate rule
        let same = enc(&r, "linked");
        r.add_rule(rule(vec![(v("S"), v("P"), v("O"))], vec![], vec![], vec![(v("S"), c(same), v("O"))]));
        r
    };
    let mut a = build();
    a.infer_new_facts_semi_naive();
    let mut b = build();
    b.infer_new_facts_semi_naive_parallel();
    let mut n = build();
    n.infer_new_facts_naive();
    let fa = facts(&a);
    let fb = facts(&b);
    let fnv = facts(&n);
    println!("PROBE i: seminaive={} parallel={} naive={}", fa.len(), fb.len(), fnv.len());
    println!("PROBE i: only_seminaive={:?}", fa.difference(&fb).take(6).collect::<Vec<_>>());
    println!("PROBE i: only_parallel={:?}", fb.difference(&fa).take(6).collect::<Vec<_>>());
    println!("PROBE i: naive_vs_semi equal={}", fa == fnv);
}

#[test]
fn l_negation_plain_strategies() {
    let build = || {
        let mut r = Reasoner::new();
        r.add_abox_triple("a", "bird", "yes");
        r.add_abox_triple("b", "bird", "yes");
        r.add_abox_triple("b", "penguin", "yes");
        let bird = enc(&r, "bird");
        let peng = enc(&r, "penguin");
        let flies = enc(&r, "flies");
        let yes = enc(&r, "yes");
        r.add_rule(rule(
            vec![(v("X"), c(bird), c(yes))],
            vec![(v("X"), c(peng), c(yes))],
            vec![],
            vec![(v("X"), c(flies), c(yes))],
        ));
        r
    };
    let mut a = build();
    a.infer_new_facts_semi_naive();
    let mut p = build();
    let _ = p.infer_new_facts_with_provenance(shared::provenance::BooleanProvenance);
    let mut n = build(); n.infer_new_facts_naive();
    let mut pa = build(); pa.infer_new_facts_semi_naive_parallel();
    let mut wr = build(); wr.infer_new_facts_semi_naive_with_repairs();
    println!("PROBE l: naive flies={:?}", facts(&n).into_iter().filter(|f| f.1 == "flies").collect::<Vec<_>>());
    println!("PROBE l: parallel flies={:?}", facts(&pa).into_iter().filter(|f| f.1 == "flies").collect::<Vec<_>>());
    println!("PROBE l: with_repairs flies={:?}", facts(&wr).into_iter().filter(|f| f.1 == "flies").collect::<Vec<_>>());
    println!("PROBE l: seminaive flies={:?}", facts(&a).into_iter().filter(|f| f.1 == "flies").collect::<Vec<_>>());
    println!("PROBE l: provenance flies={:?}", facts(&p).into_iter().filter(|f| f.1 == "flies").collect::<Vec<_>>());
}

#[test]
fn q_backward_ignores_filters_and_negation() {
    let mut r = Reasoner::new();
    r.add_abox_triple("n1", "val", "5");
    r.add_abox_triple("n2", "val", "50");
    let val = enc(&r, "val");
    let big = enc(&r, "big");
    let yes = enc(&r, "yes");
    r.add_rule(rule(
        vec![(v("N"), c(val), v("V"))],
        vec![],
        vec![FilterCondition { variable: "V".into(), operator: ">".into(), value: "10".into() }],
        vec![(v("N"), c(big), c(yes))],
    ));
    let res = r.backward_chaining(&(v("X"), c(big), c(yes)));
    let xs: BTreeSet<String> = res.iter().map(|b| format!("{:?}", resolve_term(&v("X"), b))).collect();
    println!("PROBE q filter: answers={:?} (n1 id={}, n2 id={})", xs, enc(&r, "n1"), enc(&r, "n2"));
    let mut f = Reasoner::new();
    f.add_abox_triple("n1", "val", "5");
    f.add_abox_triple("n2", "val", "50");
    let val = enc(&f, "val"); let big = enc(&f, "big"); let yes = enc(&f, "yes");
    f.add_rule(rule(vec![(v("N"), c(val), v("V"))], vec![], vec![FilterCondition { variable: "V".into(), operator: ">".into(), value: "10".into() }], vec![(v("N"), c(big), c(yes))]));
    f.infer_new_facts_semi_naive();
    println!("PROBE q filter: forward big={:?}", facts(&f).into_iter().filter(|t| t.1 == "big").collect::<Vec<_>>());

    let mut g = Reasoner::new();
    g.add_abox_triple("a", "bird", "yes");
    g.add_abox_triple("b", "bird", "yes");
    g.add_abox_triple("b", "penguin", "yes");
    let bird = enc(&g, "bird"); let peng = enc(&g, "penguin"); let flies = enc(&g, "flies"); let yes = enc(&g, "yes");
    g.add_rule(rule(vec![(v("X"), c(bird), c(yes))], vec![(v("X"), c(peng), c(yes))], vec![], vec![(v("X"), c(flies), c(yes))]));
    let res = g.backward_chaining(&(v("Q"), c(flies), c(yes)));
    let xs: BTreeSet<String> = res.iter().map(|b| format!("{:?}", resolve_term(&v("Q"), b))).collect();
    println!("PROBE q negation: answers={:?} (a id={}, b id={})", xs, enc(&g, "a"), enc(&g, "b"));
}

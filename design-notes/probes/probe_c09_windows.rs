// Model probe for C09: a time window reports exactly the items of one aligned interval, each closing interval once.
use kolibrie::rsp::s2r::{CSPARQLWindow, Report, ReportStrategy, Tick};
use std::collections::BTreeSet;
use std::sync::{Arc, Mutex};

struct Rng(u64);
impl Rng {
    fn next(&mut self) -> u64 { self.0 ^= self.0 << 13; self.0 ^= self.0 >> 7; self.0 ^= self.0 << 17; self.0 }
    fn below(&mut self, n: usize) -> usize { (self.next() % n as u64) as usize }
}

#[test]
fn windows_report_aligned_intervals_once() {
    let seeds: u64 = std::env::var("PROBE_SEEDS").ok().and_then(|v| v.parse().ok()).unwrap_or(500);
    let mut bad = 0;
    for seed in 1..=seeds {
        let mut r = Rng(seed.wrapping_mul(0x9E3779B97F4A7C15) | 1);
        let scale: usize = std::env::var("PROBE_SCALE").ok().and_then(|v| v.parse().ok()).unwrap_or(1);
        let slide = (1 + r.below(5)) * scale;
        let width = if r.below(4) == 0 { 1 + r.below(slide) } else { slide * (1 + r.below(3)) + r.below(slide) };
        let dense = r.below(3) != 0; // gaps at most one slide
        let mut report = Report::new();
        report.add(ReportStrategy::OnWindowClose);
        let mut w: CSPARQLWindow<String> = CSPARQLWindow::new(width, slide, report, Tick::TimeDriven, "w".to_string());
        let got: Arc<Mutex<Vec<(usize, BTreeSet<(String, usize)>)>>> = Arc::new(Mutex::new(Vec::new()));
        let now = Arc::new(Mutex::new(0usize));
        let (g2, n2) = (got.clone(), now.clone());
        w.register_callback(Box::new(move |c| { let items: BTreeSet<(String, usize)> = c.iter_with_timestamps().map(|(i, t)| (i.clone(), t)).collect(); g2.lock().unwrap().push((*n2.lock().unwrap(), items)); }));
        let base: usize = std::env::var("PROBE_BASE").ok().and_then(|v| v.parse().ok()).unwrap_or(0);
        let mut ts = base + r.below(4);
        let mut stream: Vec<(String, usize)> = Vec::new();
        for i in 0..12 + r.below(20) {
            let k = 1 + r.below(2); // several items may share a timestamp
            for j in 0..k {
                let item = format!("i{}_{}", i, j);
                *now.lock().unwrap() = ts;
                w.add_to_window(item.clone(), ts);
                stream.push((item, ts));
            }
            ts += if dense { r.below(slide + 1) } else { r.below(3 * slide + 2) };
            if dense && r.below(5) == 0 { ts += 0; }
        }
        let reports = got.lock().unwrap().clone();
        if std::env::var("PROBE_SHOW").is_ok() { println!("seed {} width {} slide {} dense {} items {} reports {}", seed, width, slide, dense, stream.len(), reports.len()); }
        let last_ts = stream.last().unwrap().1;
        let interval = |c: usize| -> BTreeSet<(String, usize)> { stream.iter().filter(|(_, t)| *t + width >= c && *t < c).cloned().collect() };
        let mut problems = Vec::new();
        let mut prev_trigger: Option<usize> = None;
        let mut prev_c: Option<usize> = None;
        let mut reported_cs = Vec::new();
        for (trigger, content) in &reports {
            if let Some(p) = prev_trigger { if *trigger <= p { problems.push(format!("trigger {} not after {}", trigger, p)); } }
            prev_trigger = Some(*trigger);
            // which aligned interval is it: c multiple of slide, c <= trigger; only items that had arrived before this event count
            let arrived: Vec<&(String, usize)> = stream.iter().filter(|(_, t)| *t < *trigger).collect();
            let mut found = None;
            let mut c = (*trigger / slide) * slide;
            loop {
                let want: BTreeSet<(String, usize)> = arrived.iter().filter(|(_, t)| *t + width >= c && *t < c).map(|x| (*x).clone()).collect();
                if want == *content && (c > 0) { found = Some(c); break; }
                if c < slide || c + 8 * slide + 2 * width + 8 < *trigger { break; }
                c -= slide;
            }
            match found {
                None => problems.push(format!("report at {} with {} items matches no aligned interval: {:?}", trigger, content.len(), content.iter().map(|(i, t)| format!("{}@{}", i, t)).collect::<Vec<_>>())),
                Some(c) => { if let Some(p) = prev_c { if c < p { problems.push(format!("interval closing at {} reported after {}", c, p)); } } prev_c = Some(c); reported_cs.push(c); }
            }
        }
        if dense {
            // every interval that closed while the stream was running (first item .. last item) and holds an item is reported exactly once
            let first_ts = stream[0].1;
            let mut c = ((first_ts / slide) + 1) * slide;
            while c <= last_ts {
                if !interval(c).is_empty() {
                    let n = reported_cs.iter().filter(|x| **x == c).count();
                    if n != 1 { problems.push(format!("interval closing at {} reported {} times", c, n)); }
                }
                c += slide;
            }
        }
        if !problems.is_empty() {
            bad += 1;
            println!("seed {} width {} slide {} dense {}\n  stream {:?}\n  problems {:?}", seed, width, slide, dense, stream.iter().map(|(i, t)| format!("{}@{}", i, t)).collect::<Vec<_>>(), &problems[..problems.len().min(4)]);
        }
    }
    println!("windows: checked {} streams, {} discrepancies", seeds, bad);
}

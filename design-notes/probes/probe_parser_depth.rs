use kolibrie::parser::{parse_combined_query, parse_group_graph_pattern};

#[test]
fn deeply_nested_groups() {
    for depth in [100usize, 1000, 5000, 20000, 100000] {
        let text = format!("SELECT * WHERE {}{}", "{ ".repeat(depth), "} ".repeat(depth));
        let r = parse_combined_query(&text);
        println!("depth {} -> ok={}", depth, r.is_ok());
        let g = format!("{}{}", "{ ".repeat(depth), "} ".repeat(depth));
        let _ = parse_group_graph_pattern(&g);
    }
}

#[test]
fn deeply_nested_filter_parens() {
    for depth in [100usize, 1000, 5000, 20000, 100000] {
        let text = format!("SELECT * WHERE {{ ?s ?p ?o FILTER({}?o > 1{}) }}", "(".repeat(depth), ")".repeat(depth));
        let r = parse_combined_query(&text);
        println!("filter depth {} -> ok={}", depth, r.is_ok());
    }
}

#[test]
fn deeply_nested_quoted_triples() {
    for depth in [100usize, 1000, 5000, 20000] {
        let text = format!("SELECT * WHERE {{ {}<http://a>{} <http://p> ?o }}", "<< ".repeat(depth), " <http://b> <http://c> >>".repeat(depth));
        let r = parse_combined_query(&text);
        println!("qt depth {} -> ok={}", depth, r.is_ok());
    }
}

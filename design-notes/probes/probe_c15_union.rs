// Probe for C15: the union of two independently built databases denotes the union of their datasets although identifiers clash.
use kolibrie::execute_query::{execute_sparql_query, execute_sparql_update};
use kolibrie::sparql_database::SparqlDatabase;
use std::collections::BTreeSet;

struct Rng(u64);
impl Rng {
    fn next(&mut self) -> u64 { self.0 ^= self.0 << 13; self.0 ^= self.0 >> 7; self.0 ^= self.0 << 17; self.0 }
    fn below(&mut self, n: usize) -> usize { (self.next() % n as u64) as usize }
    fn chance(&mut self, pct: usize) -> bool { self.below(100) < pct }
}
fn term(r: &mut Rng, pos: usize, depth: usize) -> String {
    if pos != 1 && depth < 2 && r.chance(15) { return format!("<< {} {} {} >>", term(r, 0, depth + 1), term(r, 1, depth + 1), term(r, 2, depth + 1)); }
    match pos { 1 => format!("<http://e/p{}>", r.below(3)), 2 if r.chance(40) => format!("\"{}\"", ["a", "b c", "x y z", "1", ""][r.below(5)]), _ => format!("<http://e/n{}>", r.below(5)) }
}
fn build(r: &mut Rng) -> SparqlDatabase {
    let mut db = SparqlDatabase::new();
    // a different number of warm-up terms makes the numeric identifiers of the two databases clash
    for i in 0..r.below(6) { db.parse_ntriples_and_add(&format!("<http://warm/{}> <http://warm/p> \"w{}\" .\n", r.below(9), i)); }
    let mut up = String::from("INSERT DATA { ");
    for _ in 0..2 + r.below(6) {
        let t = format!("{} {} {} . ", term(r, 0, 0), term(r, 1, 0), term(r, 2, 0));
        if r.chance(35) { up.push_str(&format!("GRAPH <http://e/g{}> {{ {} }} ", r.below(3), t)); } else { up.push_str(&t); }
    }
    up.push('}');
    execute_sparql_update(&up, &mut db).unwrap_or_else(|e| panic!("{}\n{}", up, e));
    db
}
fn dump(db: &mut SparqlDatabase) -> BTreeSet<Vec<String>> {
    let mut rows: BTreeSet<Vec<String>> = execute_sparql_query("SELECT ?s ?p ?o WHERE { ?s ?p ?o }", db).unwrap().into_iter().map(|r| vec![String::new(), r[0].clone(), r[1].clone(), r[2].clone()]).collect();
    rows.extend(execute_sparql_query("SELECT ?g ?s ?p ?o WHERE { GRAPH ?g { ?s ?p ?o } }", db).unwrap());
    rows
}
#[test]
fn union_is_the_union() {
    let seeds: u64 = std::env::var("PROBE_SEEDS").ok().and_then(|v| v.parse().ok()).unwrap_or(300);
    let mut bad = 0;
    for seed in 1..=seeds {
        let mut r = Rng(seed.wrapping_mul(0x9E3779B97F4A7C15) | 1);
        let mut a = build(&mut r);
        let mut b = build(&mut r);
        let (da, dbb) = (dump(&mut a), dump(&mut b));
        let want: BTreeSet<Vec<String>> = da.union(&dbb).cloned().collect();
        let res = std::panic::catch_unwind(std::panic::AssertUnwindSafe(|| { let mut u = a.union(&b); dump(&mut u) }));
        match res {
            Err(_) => { bad += 1; println!("seed {} PANIC", seed); }
            Ok(got) => if got != want {
                bad += 1;
                println!("seed {} MISMATCH\n  missing {:?}\n  extra {:?}", seed, want.difference(&got).take(3).collect::<Vec<_>>(), got.difference(&want).take(3).collect::<Vec<_>>());
            }
        }
        // the operands are untouched
        if dump(&mut a) != da || dump(&mut b) != dbb { bad += 1; println!("seed {} operand changed", seed); }
    }
    println!("union: checked {} pairs, {} discrepancies", seeds, bad);
}

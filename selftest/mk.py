#!/usr/bin/env python3
"""helper: create a mutant patch from an exact-text replacement.  mk(prop, name, file, old, new)
The patch is computed on a copy: /repo is never modified (checks running concurrently read /repo's working tree)."""
import difflib, os, subprocess, sys, tempfile
REPO='/repo'
def mk(prop, name, file, old, new, count=1, base=None):
    """base: optional patch file (e.g. a seeded patch.diff) applied to the copy first; the result then contains both changes"""
    tmp=tempfile.mkdtemp(prefix='kolibrie-mk-')
    try:
        files=[file]
        if base:
            for l in open(base, errors='replace'):
                if l.startswith('+++ b/'):
                    files.append(l[6:].strip())
        files=sorted(set(files))
        for f in files:
            os.makedirs(os.path.dirname(os.path.join(tmp,'a',f)),exist_ok=True)
            os.makedirs(os.path.dirname(os.path.join(tmp,'b',f)),exist_ok=True)
            data=open(os.path.join(REPO,f),'rb').read()
            open(os.path.join(tmp,'a',f),'wb').write(data)
            open(os.path.join(tmp,'b',f),'wb').write(data)
        if base:
            subprocess.check_call(['patch','-p1','-s','--no-backup-if-mismatch','-i',os.path.abspath(base)],cwd=os.path.join(tmp,'b'))
        p=os.path.join(tmp,'b',file)
        s=open(p,'rb').read().decode()
        if s.count(old)==0 and '\r\n' in s and '\r\n' not in old:
            old=old.replace('\n','\r\n'); new=new.replace('\n','\r\n')
        assert s.count(old)>=1,(name,'no match')
        open(p,'wb').write(s.replace(old,new,count).encode())
        r=subprocess.run(['git','diff','--no-index','--binary','a','b'],cwd=tmp,capture_output=True)
        d=r.stdout
        assert d,(name,'empty diff')
        fixed=[]
        for line in d.split(b'\n'):
            if line.startswith(b'diff --git a/a/'):
                line=line.replace(b' a/a/',b' a/').replace(b' b/b/',b' b/')
            elif line.startswith(b'--- a/a/'):
                line=b'--- a/'+line[8:]
            elif line.startswith(b'+++ b/b/'):
                line=b'+++ b/'+line[8:]
            fixed.append(line)
        d=b'\n'.join(fixed)
        os.makedirs('/verif/selftest/%s'%prop,exist_ok=True)
        open('/verif/selftest/%s/%s.diff'%(prop,name),'wb').write(d)
        print('made',prop,name)
    finally:
        subprocess.call(['rm','-rf',tmp])

#!/usr/bin/env python3
"""helper: create a mutant patch from an exact-text replacement.  mk(prop, name, file, old, new)"""
import subprocess, os, sys
REPO='/repo'
def mk(prop, name, file, old, new, count=1):
    p=os.path.join(REPO,file)
    s=open(p,'rb').read().decode()
    if s.count(old)==0 and '\r\n' in s and '\r\n' not in old:
        old=old.replace('\n','\r\n'); new=new.replace('\n','\r\n')
    assert s.count(old)>=1,(name,'no match')
    s2=s.replace(old,new,count)
    open(p,'wb').write(s2.encode())
    d=subprocess.check_output(['git','diff','--binary'],cwd=REPO)
    os.makedirs('/verif/selftest/%s'%prop,exist_ok=True)
    open('/verif/selftest/%s/%s.diff'%(prop,name),'wb').write(d)
    subprocess.check_call(['git','checkout','--','.'],cwd=REPO)
    print('made',prop,name)

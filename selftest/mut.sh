#!/bin/sh
# usage: selftest/mut.sh <Cnn> <patch.diff>   -- apply a mutant patch to /repo, run the check, revert.
P="$1"; D="$(realpath "$2")"
cd /repo || exit 3
git apply --whitespace=nowarn "$D" || { echo "PATCH-DOES-NOT-APPLY $D"; exit 3; }
/verif/check "$P" --no-evidence > /tmp/mut.out 2>&1; rc=$?
git checkout -- . 
grep -E "^(VIOLATION|BUILD-FAILURE|  what|  at  )" /tmp/mut.out | head -12
echo "rc=$rc"

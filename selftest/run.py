#!/usr/bin/env python3
"""Checker self-test for one property: every mutant patch in selftest/<Cnn>/m*.diff and seeded/<Cnn>*/patch.diff must make the
check fire (exit 1), every selftest/<Cnn>/benign_*.diff must leave it silent (exit 0).

Each patch is applied to a scratch copy of /repo (outside /repo and /verif), the scratch copy is analysed with the same
driver and rules (KOLIBRIE_REPO points at it; dependency artefacts in .work/target are reused), and the copy is removed.
Nothing of the repository is executed. Prints one line per patch; exit 0 iff every expectation is met.
"""
import glob
import json
import os
import shutil
import subprocess
import sys
import tempfile

VERIF = os.path.dirname(os.path.dirname(os.path.abspath(__file__)))
REPO = os.environ.get("KOLIBRIE_REPO", "/repo")


def patches(prop):
    out = []
    for p in sorted(glob.glob(os.path.join(VERIF, "selftest", prop, "*.diff"))):
        out.append((os.path.basename(p), p, 0 if os.path.basename(p).startswith("benign_") else 1))
    for d in sorted(glob.glob(os.path.join(VERIF, "seeded", "C*"))):
        meta = os.path.join(d, "meta.json")
        p = os.path.join(d, "patch.diff")
        if os.path.exists(p) and os.path.exists(meta):
            m = json.load(open(meta))
            if prop in m.get("detected_by_props", [m.get("property")]):
                out.append(("seeded/" + os.path.basename(d), p, 1))
    return out


def run(prop, only=None):
    results = []
    tmp = tempfile.mkdtemp(prefix="kolibrie-selftest-")
    scratch = os.path.join(tmp, "repo")
    try:
        for name, path, want in patches(prop):
            if only and only not in name:
                continue
            if os.path.isdir(scratch):
                shutil.rmtree(scratch)
            subprocess.check_call(["rsync", "-a", "--exclude", "target", "--exclude", ".git", "--exclude", "datasets",
                                   REPO + "/", scratch + "/"])
            r = subprocess.run(["patch", "-p1", "-s", "--no-backup-if-mismatch", "-i", path], cwd=scratch, capture_output=True, text=True)
            if r.returncode != 0:
                results.append((name, want, "patch-does-not-apply", False))
                continue
            env = dict(os.environ, KOLIBRIE_REPO=scratch, VERIF_FACTS_TAG=os.environ.get("SELFTEST_TAG", "selftest"))
            c = subprocess.run([os.path.join(VERIF, "check"), prop, "--no-evidence", "--tier", "quick"], env=env, capture_output=True, text=True)
            got = c.returncode
            ok = (got == want)
            first = ""
            for line in c.stdout.splitlines():
                if line.strip().startswith("what"):
                    first = line.strip()[5:]
                    break
            results.append((name, want, "rc=%d %s" % (got, first[:120]), ok))
    finally:
        shutil.rmtree(tmp, ignore_errors=True)
    return results


if __name__ == "__main__":
    prop = sys.argv[1].upper()
    only = sys.argv[2] if len(sys.argv) > 2 else None
    res = run(prop, only)
    bad = 0
    for name, want, info, ok in res:
        print("%s %-52s expect=%s %s" % ("ok  " if ok else "FAIL", name, "fires" if want else "silent", info))
        bad += 0 if ok else 1
    print("selftest %s: %d patches, %d unexpected" % (prop, len(res), bad))
    sys.exit(0 if bad == 0 else 3)

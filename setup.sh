#!/bin/sh
# Build the framework offline: the rustc_private fact extractor.
set -e
DIR="$(cd "$(dirname "$0")" && pwd)"
cd "$DIR/tools/kmir"
CARGO_NET_OFFLINE=true cargo build --offline
echo "setup ok"

"""C16 — the query parser is total: certificates for panic-capable constructs, remainder-empty acceptance, token discipline."""
import json
import os
from lib import facts as F
from lib import guards as G
from lib.cert import Prover, strip
from lib.taint import Taint
from c14 import const_text

ENTRIES = ["parser::parse_combined_query_with_options", "parser::parse_combined_query", "parser::parse_sparql_query",
           "parser::parse_group_graph_pattern"]
LEMMAS = os.path.join(os.path.dirname(os.path.abspath(__file__)), "c16_lemmas.json")
STR_MUTATORS = ("split_at", "truncate", "drain", "replace_range", "split_off", "insert", "insert_str", "remove", "split_at_mut")


def load_lemmas():
    if not os.path.exists(LEMMAS):
        return {}
    return {e["key"]: e for e in json.load(open(LEMMAS))}


def scope_bodies(prog, entries, files=None):
    keys = prog.reachable([e.key for e in entries])
    out = []
    for k in keys:
        b = prog.bodies[k]
        if b.crate != "kolibrie":
            continue
        if files and not b.file.endswith(tuple(files)):
            continue
        out.append(b)
    return sorted(out, key=lambda b: (b.file, b.line, b.key))


def body_fingerprint(b):
    """multiset of callee names, constants and operators of a body: a summary lemma is only valid for this fingerprint"""
    import hashlib
    items = []
    for c in b.calls():
        items.append("c:" + (c.name() or "?"))
    for bb, i, pl, rv, s in b.assigns():
        if rv["rv"] == "binop":
            items.append("o:" + rv["op"])
        for op in F.rv_operands(rv):
            if op.get("k") == "const" and (op.get("v") is not None or op.get("ty", "").endswith("str")):
                items.append("k:" + str(op.get("v") or op.get("d")))
    for bb, t in b.terms():
        if t["t"] == "switch":
            items.append("s:" + ",".join(v for v, _ in t["targets"]))
    return hashlib.sha1("|".join(sorted(items)).encode()).hexdigest()[:12]


def family_fingerprint(prog, fn_path):
    fb = prog.one(fn_path, crate="kolibrie")
    if fb is None:
        return None
    import hashlib
    parts = [body_fingerprint(x) for x in sorted(prog.family(fb.key), key=lambda v: v.key)]
    return hashlib.sha1("|".join(parts).encode()).hexdigest()[:12]


def lemma_valid(prog, e, cache={}):
    """a lemma holds only for the audited versions of its function and of the functions it depends on"""
    for fn, fp in [(e.get("function"), e.get("fingerprint"))] + [(d["function"], d["fingerprint"]) for d in e.get("depends", [])]:
        if fn is None:
            continue
        k = (id(prog), fn)
        if k not in cache:
            cache[k] = family_fingerprint(prog, fn)
        if cache[k] != fp:
            return False, fn
    return True, None


def summaries_from(lemmas, prog):
    out = {}
    for k, e in lemmas.items():
        if e.get("summary") and lemma_valid(prog, e)[0]:
            fb = prog.one(e["function"], crate="kolibrie")
            if fb is not None:
                out[fb.name] = e["summary"]
    return out


def var_closure(P, exprs):
    """definitions of every non-parameter variable mentioned in the expressions (transitively), as stable text"""
    S = P.S
    seen = {}
    work = list(exprs)
    while work:
        e = work.pop()
        if not isinstance(e, tuple):
            continue
        if e and e[0] == "var":
            l = e[1]
            if l in seen or l <= P.b.nargs:
                continue
            ds = S.var_defs(l)
            seen[l] = sorted(S.show(d[0]) for d in ds)
            for d in ds:
                work.append(d[0])
            continue
        for x in e:
            if isinstance(x, tuple):
                work.append(x)
    parts = []
    if S.canon is not None:
        # canonical form: re-render every definition under the canonical variable names, ordered by those names
        items = []
        for l in seen:
            nm = S.show(("var", l))
            ds = sorted(S.show(d[0]) for d in S.var_defs(l))
            items.append((int(nm[1:]) if nm[1:].isdigit() else 0, nm, ds))
        for _, nm, ds in sorted(items):
            parts.append("%s := {%s}" % (nm, " | ".join(ds)))
        return "; ".join(parts)
    for l, ds in sorted(seen.items(), key=lambda kv: (P.b.local_name(kv[0]) or "tmp", kv[1])):
        parts.append("%s := {%s}" % (P.b.local_name(l) or "tmp", " | ".join(ds)))
    return "; ".join(parts)


def sites(prog, b):
    """panic-capable sites of a body: (kind, call or term, description pieces)"""
    out = []
    for c in b.calls():
        nm = c.name()
        g = c.t.get("gargs", [])
        if nm in ("index", "index_mut") and "ops::index::Index" in (c.pretty or "") and len(g) >= 2:
            recv = g[0].lstrip("&")
            if recv == "str" or recv.endswith("::String"):
                out.append(("str-slice", c))
            else:
                out.append(("seq-index", c))
        elif nm in ("expect", "unwrap") and ("option::Option" in (c.pretty or "") or "result::Result" in (c.pretty or "")):
            recv_ty = b.local_ty(F.op_place(c.args[0])["l"]) if c.args and F.op_place(c.args[0]) else ""
            if "PoisonError" in recv_ty or "LockResult" in recv_ty:
                continue
            out.append(("unwrap", c))
        elif nm == "span" and "annotate_snippets" in (c.pretty or "") and len(c.args) == 2:
            out.append(("snippet-span", c))
        elif nm == "offset" and ("nom::traits::Offset" in (c.pretty or "") or "Offset" in (c.trait or "")) and len(c.args) == 2:
            # address subtraction `second.as_ptr() - first.as_ptr()`: underflows unless the second slice lies inside (after the start of) the first
            out.append(("ptr-offset", c))
        elif nm in STR_MUTATORS and ("str" in (c.pretty or "") or "String" in (c.pretty or "")) and "core::str" in (c.pretty or "") + "alloc::string" * ("String" in (c.pretty or "")):
            out.append(("str-offset", c))
    for bb, t in b.terms():
        if t["t"] == "assert" and t["kind"] == "BoundsCheck":
            out.append(("bounds", (bb, t)))
    return out


def judge_site(prog, b, P, kind, c):
    """returns (ok, signature, explanation)"""
    S = P.S
    if kind == "str-slice":
        base = S.operand(c.args[0])
        rng = S.operand(c.args[1])
        sig = "%s[%s]" % (S.show(base), S.show(rng))
        clo = var_closure(P, [base, rng])
        full = sig + (" where " + clo if clo else "")
        if rng[0] != "range":
            return False, full, "index is not a literal range expression"
        knd, st, en = rng[1], rng[2], rng[3]
        ok = True
        why = []
        if knd in ("RangeFrom", "Range"):
            r = P.bd(base, st, c.bb)
            ok &= r
            why.append("start %s %s" % (S.show(st), "is a boundary" if r else "not proved a boundary"))
        if knd in ("RangeTo", "Range"):
            r = P.bd(base, en, c.bb)
            ok &= r
            why.append("end %s %s" % (S.show(en), "is a boundary" if r else "not proved a boundary"))
        if knd == "Range":
            r = P.le(st, en, c.bb)
            ok &= r
            why.append("start <= end %s" % ("holds" if r else "not proved"))
        if knd not in ("RangeFrom", "RangeTo", "Range", "RangeFull"):
            ok = False
            why.append("range kind %s not handled" % knd)
        return ok, full, "; ".join(why)
    if kind == "snippet-span":
        # annotate_snippets slices the snippet source with this byte range when rendering
        srcs = [x for x in b.calls() if x.name() == "source" and "annotate_snippets" in (x.pretty or "") and x.args]
        rng = S.operand(c.args[1])
        base = S.operand(srcs[0].args[0]) if srcs else ("unk", "no snippet source")
        sig = "span(%s)[%s]" % (S.show(base), S.show(rng))
        clo = var_closure(P, [base, rng])
        full = sig + (" where " + clo if clo else "")
        if rng[0] != "range" or rng[1] != "Range" or not srcs:
            return False, full, "span is not a plain start..end range over a known source"
        r1 = P.bd(base, rng[2], c.bb)
        r2 = P.bd(base, rng[3], c.bb)
        r3 = P.le(rng[2], rng[3], c.bb)
        return r1 and r2 and r3, full, "start boundary=%s end boundary=%s ordered=%s" % (r1, r2, r3)
    if kind == "unwrap":
        x = S.operand(c.args[0])
        sig = "%s(%s)" % (c.name(), S.show(x))
        clo = var_closure(P, [x])
        full = sig + (" where " + clo if clo else "")
        ok, why = some_cert(prog, b, P, x, c.bb)
        return ok, full, why
    if kind == "seq-index":
        base = S.operand(c.args[0])
        idx = S.operand(c.args[1])
        sig = "%s[%s]" % (S.show(base), S.show(idx))
        clo = var_closure(P, [base, idx])
        full = sig + (" where " + clo if clo else "")
        ok, why = bounds_cert(prog, b, P, base, idx, c.bb)
        return ok, full, why
    if kind == "str-offset":
        base = S.operand(c.args[0])
        offs = [S.operand(a) for a in c.args[1:2]]
        sig = "%s(%s, %s)" % (c.name(), S.show(base), ", ".join(S.show(o) for o in offs))
        clo = var_closure(P, [base] + offs)
        full = sig + (" where " + clo if clo else "")
        ok = bool(offs) and offs[0][0] != "range" and P.bd(base, offs[0], c.bb)
        return ok, full, "offset %s" % ("is a boundary" if ok else "not proved a boundary")
    if kind == "ptr-offset":
        base = S.operand(c.args[0])
        sub = S.operand(c.args[1])
        sig = "offset(%s, %s)" % (S.show(base), S.show(sub))
        clo = var_closure(P, [base, sub])
        full = sig + (" where " + clo if clo else "")
        # certificate: the second slice was obtained from the first one by slicing / trimming in this body
        ok = False
        pl = F.op_place(c.args[1])
        root0 = b.alias_root(c.args[0]) if F.op_place(c.args[0]) else None
        seen = set()
        work = [pl["l"]] if pl else []
        while work and not ok:
            l = work.pop()
            if l in seen:
                continue
            seen.add(l)
            if root0 is not None and b.alias_root(l) == root0 and l != (pl or {}).get("l"):
                ok = True
                break
            for d in b.defs().get(l, []):
                if d[0] == "call" and d[2].name() in ("index", "trim", "trim_start", "trim_end", "get", "split_at", "strip_prefix", "deref", "as_ref", "unwrap", "unwrap_or"):
                    work += [F.op_place(a)["l"] for a in d[2].args[:1] if F.op_place(a)]
                elif d[0] == "assign":
                    work += [q["l"] for q, kk in F.rv_places(d[3])]
        return ok, full, "the second slice %s derived from the first" % ("is" if ok else "is not shown to be")
    if kind == "bounds":
        bb, t = c
        ln_op, ix_op = t["ops"][0], t["ops"][1]
        ln, ix = S.operand(ln_op), S.operand(ix_op)
        sig = "bounds(index %s < len %s)" % (S.show(ix), S.show(ln))
        clo = var_closure(P, [ln, ix])
        full = sig + (" where " + clo if clo else "")
        ok, why = bounds_len_cert(prog, b, P, ln, ix, bb)
        return ok, full, why
    return False, "?", "unknown site kind"


def some_cert(prog, b, P, x, bb):
    """x is Some/Ok at bb"""
    S = P.S
    conds = G.conditions(b, bb)
    # pop() under a length match / non-empty guard
    if x[0] == "call" and x[1] == "pop" and x[3]:
        v = x[3][0]
        for c in conds:
            if c["kind"] == "intval" and c.get("value") not in (None, "0"):
                d = S.operand(c["discr"])
                if d[0] == "call" and d[1] == "len" and d[3] and strip(d[3][0]) == strip(v):
                    return True, "pop() under a match on len() == %s" % c["value"]
            if c["kind"] == "call" and c["call"].name() == "is_empty" and c["truth"] is False:
                d = S.operand(c["call"].args[0])
                if strip(d) == strip(v):
                    return True, "pop() under !is_empty()"
            if c["kind"] == "cmp":
                n = G.normalize_cmp(b, c)
                if n:
                    op, a, d = n[0], S.operand(n[1]), S.operand(n[2])
                    for l_, r_, o_ in ((a, d, op), (d, a, G.SWAP[op])):
                        if l_[0] == "call" and l_[1] == "len" and l_[3] and strip(l_[3][0]) == strip(v) and r_[0] == "int":
                            if (o_ == "Eq" and r_[1] >= 1) or (o_ == "Ge" and r_[1] >= 1) or (o_ == "Gt" and r_[1] >= 0):
                                return True, "pop() under len() %s %d" % (o_, r_[1])
        return False, "pop() without a dominating length test"
    # s[i..].chars().next() with i < s.len() and i a boundary
    if x[0] == "call" and x[1] == "next" and x[3]:
        src = P._iter_source(x[3][0], "chars")
        if src is not None:
            sn = P.str_norm(src)
            if sn[0] == "sub":
                s0, i = sn[1], sn[2]
                for c in conds:
                    if c["kind"] == "cmp":
                        n = G.normalize_cmp(b, c)
                        if n:
                            op, a, d = n[0], S.operand(n[1]), S.operand(n[2])
                            if op == "Lt" and strip(a) == strip(i) and d[0] == "call" and d[1] == "len" and d[3] and P.same(d[3][0], s0):
                                if P.bd(s0, i, bb):
                                    return True, "next() of a non-empty tail (index < len and a boundary)"
                            if op == "Gt" and strip(d) == strip(i) and a[0] == "call" and a[1] == "len" and a[3] and P.same(a[3][0], s0):
                                if P.bd(s0, i, bb):
                                    return True, "next() of a non-empty tail (index < len and a boundary)"
            # tail known non-empty by an is_empty guard
            for c in conds:
                if c["kind"] == "call" and c["call"].name() == "is_empty" and c["truth"] is False:
                    d = S.operand(c["call"].args[0])
                    if P.same(d, src):
                        return True, "next() under !is_empty()"
        return False, "next() without a non-emptiness argument"
    for c in conds:
        if c["kind"] == "call" and c["call"].name() in ("is_some", "is_ok") and c["truth"] is True:
            d = S.operand(c["call"].args[0])
            if strip(d) == strip(x):
                return True, "under is_some()/is_ok()"
    return False, "no certificate for Some/Ok"


def bounds_cert(prog, b, P, base, idx, bb):
    S = P.S
    conds = G.conditions(b, bb)
    # base[x - 1] under x <= len(base)
    if idx[0] == "op" and idx[1] == "Sub" and idx[3] == ("int", 1):
        x = idx[2]
        for c in conds:
            if c["kind"] == "cmp":
                n = G.normalize_cmp(b, c)
                if n:
                    op, a, d = n[0], S.operand(n[1]), S.operand(n[2])
                    for l_, r_, o_ in ((a, d, op), (d, a, G.SWAP[op])):
                        if o_ == "Le" and strip(l_) == strip(x) and r_[0] == "call" and r_[1] == "len" and r_[3] and strip(r_[3][0]) == strip(base):
                            return True, "index x-1 under x <= len()"
    if idx[0] == "int":
        k = idx[1]
        for c in conds:
            if c["kind"] == "intval" and c.get("value") is not None:
                d = S.operand(c["discr"])
                if d[0] == "call" and d[1] == "len" and d[3] and strip(d[3][0]) == strip(base):
                    try:
                        if int(c["value"]) > k:
                            return True, "index %d under a match on len() == %s" % (k, c["value"])
                    except ValueError:
                        pass
            if c["kind"] == "cmp":
                n = G.normalize_cmp(b, c)
                if n:
                    op, a, d = n[0], S.operand(n[1]), S.operand(n[2])
                    if a[0] == "call" and a[1] == "len" and a[3] and strip(a[3][0]) == strip(base) and d[0] == "int":
                        if (op == "Eq" and d[1] > k) or (op == "Ge" and d[1] > k) or (op == "Gt" and d[1] >= k):
                            return True, "index %d under len() %s %d" % (k, op, d[1])
                    if d[0] == "call" and d[1] == "len" and d[3] and strip(d[3][0]) == strip(base) and a[0] == "int":
                        if (op == "Eq" and a[1] > k) or (op == "Le" and a[1] > k) or (op == "Lt" and a[1] >= k):
                            return True, "index %d under %d %s len()" % (k, a[1], op)
            if c["kind"] == "call" and c["call"].name() == "is_empty" and c["truth"] is False and k == 0:
                d = S.operand(c["call"].args[0])
                if strip(d) == strip(base):
                    return True, "index 0 under !is_empty()"
    return False, "no length guard dominates the index"


def bounds_len_cert(prog, b, P, ln, ix, bb):
    S = P.S
    if ix[0] == "int" and ln[0] == "int":
        return ix[1] < ln[1], "constant index into a fixed-size array"
    if ln[0] == "call" and ln[1] in ("len",) and ln[3]:
        return bounds_cert(prog, b, P, ln[3][0], ix, bb)
    if ln[0] == "op" and ln[1] == "PtrMetadata":
        return bounds_cert(prog, b, P, ln[2], ix, bb)
    return False, "no certificate"


def run(R):
    prog = R.prog
    R.rule("C16-R1", "certificates: every panic-capable construct reachable from the parser entry points (str slicing and offset "
                     "operations, sequence indexing, unwrap/expect, arithmetic on parsed numbers) is discharged by the boundary / "
                     "order / non-emptiness prover or by an audited lemma keyed on the exact expression and the definitions of its variables")
    R.rule("C16-R2", "acceptance consumes the input: every Ok of the top-level parsers returns a remainder that was skipped for "
                     "blanks and tested empty")
    R.rule("C16-R3", "token discipline: the unified grammar recognises keywords only through the case-insensitive helper and skips "
                     "blanks only through the comment-aware helper")
    R.rule("C16-R4", "keyword case never reaches the tree: the text matched by the case-insensitive keyword helper (whose letter case is "
                     "the user's) is only tested or skipped; it never flows into a value a parser returns - parsers put canonical "
                     "literals into the syntax tree")
    R.rule("C16-R6", "a measured recogniser stops where its token stops: when a caller computes an operand's source text from the length of the "
                     "remainder a sub-parser returns (`start[..start.len() - rest.len()]`), that sub-parser - and every parser whose remainder it "
                     "passes on - must return the remainder right after the last thing it consumed, never the result of the blank/comment "
                     "skipper: otherwise a trailing `# comment` becomes part of the operand text (comment-dependent tree)")
    R.rule("C16-R7", "recursion through the parser is depth-bounded: every cycle of the call graph among the parser functions reachable from the "
                     "entry points (calls and function values handed to combinators) contains a function that enters a nesting guard - a "
                     "counter compared with a constant limit, failing the parse beyond it - before it recurses; otherwise a few kilobytes of "
                     "`(((((` or `{{{{{` exhaust the stack and abort the process (totality)")
    R.rule("C16-R8", "trees are not deepened without bound by iteration: a loop of the parser that wraps its accumulator into a new node of the same "
                     "recursive tree type each turn (`expression = And(Box::new(expression), right)`) charges the depth budget in that turn, before the "
                     "wrap, and leaves the parse when the charge fails. The tree types are walked recursively by every consumer (lowering, the "
                     "optimizer, Drop), so an operator chain of a few thousand links otherwise overflows the stack after a successful parse")
    R.rule("C16-R9", "a charge that fails is refunded: the depth counter lives as long as the thread. A function that charges it and hands back a guard "
                     "object (whose Drop releases the charge) has built that guard before it charges - so the early return of a failed charge drops "
                     "the guard and refunds - or the budget function itself takes the charge back before it reports failure. Otherwise every rejected "
                     "over-deep input permanently shrinks the budget of that thread, and after enough of them every query is rejected")
    R.rule("C16-R5", "nothing parsed is discarded: whatever a sub-parser of parser.rs returns as its payload flows into the value the "
                     "calling parser returns (or decides a branch); a payload may be ignored only by a recogniser that returns the "
                     "consumed source slice computed from the remainder (`input[..input.len() - rest.len()]`). A modifier or pattern "
                     "that is parsed and dropped is accepted text that silently changes the tree")
    ents = [b for b in (prog.one(e, crate="kolibrie") for e in ENTRIES)]
    for e, b in zip(ENTRIES, ents):
        R.anchor("C16-R1", e, b)
    ents = [b for b in ents if b is not None]
    if not ents:
        return
    bodies = scope_bodies(prog, ents)
    R.floor("C16-R1", "bodies reachable from the parser entry points", len(bodies), 150)
    certify(R, prog, bodies, "C16-R1")
    r2(R)
    r3(R, bodies)
    r4(R, bodies)
    r5(R)
    r6(R)
    r7(R, ents)
    r8(R, ents)
    r9(R)
    r10(R)
    r11(R)
    r12(R)
    r13(R)


def certify(R, prog, bodies, rule):
    lemmas = load_lemmas()
    counts = {"proved": 0, "lemma": 0, "open": 0}
    per_kind = {}
    used = set()
    for b in bodies:
        ss = sites(prog, b)
        if not ss:
            continue
        R.saw(b)
        P = Prover(prog, b, summaries=summaries_from(lemmas, prog))
        seen = set()
        for kind, c in ss:
            P.S.canon = None
            ok, sig_readable, why = judge_site(prog, b, P, kind, c)
            P.S.canon = {}
            _ok2, sig, _why2 = judge_site(prog, b, P, kind, c)     # same site, rename-invariant rendering for the key
            P.S.canon = None
            key = "%s|%s|%s" % (b.short, kind, sig)
            if key in seen:
                continue
            seen.add(key)
            per_kind[kind] = per_kind.get(kind, 0) + 1
            ln = c.ln if hasattr(c, "ln") else c[1].get("ln")
            if ok:
                counts["proved"] += 1
                R.ob(rule, "cert:" + key, "%s in %s is certified: %s" % (kind, b.short, why), True, where=b.where(ln))
            elif key in lemmas and lemma_valid(prog, lemmas[key])[0]:
                counts["lemma"] += 1
                used.add(key)
                R.ob(rule, "cert:" + key, "%s in %s holds by audited lemma: %s" % (kind, b.short, lemmas[key]["reason"]), True, where=b.where(ln))
            elif key in lemmas:
                counts["open"] += 1
                R.ob(rule, "cert:" + key, "%s in %s has a certificate" % (kind, b.short), False, where=b.where(ln),
                     detail="%s — the audited lemma was written for another version of `%s`; the argument must be re-audited (%s)"
                     % (sig_readable, lemma_valid(prog, lemmas[key])[1], lemmas[key]["reason"]))
            else:
                counts["open"] += 1
                R.ob(rule, "cert:" + key, "%s in %s has a certificate" % (kind, b.short), False, where=b.where(ln),
                     detail="%s — not proved (%s) and no audited lemma for this exact expression" % (sig_readable, why))
    # S4: arithmetic on parsed numbers
    s4(R, prog, bodies, rule, lemmas)
    R.ob(rule, "census", "sites: %s; proved %d, by lemma %d, open %d" % (per_kind, counts["proved"], counts["lemma"], counts["open"]), True)
    R.floor(rule, "panic-capable sites judged", sum(per_kind.values()), 60)
    stale = sorted(k for k in lemmas if k not in used and lemmas[k].get("rule", rule) == rule and not k.split("|")[1].startswith("arith"))
    if stale:
        R.advisory(rule, "lemmas not used on this tree (stale): %d" % len(stale))


def s4(R, prog, bodies, rule, lemmas):
    n = 0
    for b in bodies:
        srcs = [c for c in b.calls() if c.name() in ("parse", "from_str_radix", "from_str") and ("str" in (c.pretty or "") or "num" in (c.pretty or ""))]
        if not srcs:
            continue
        asserts = [(bb, t) for bb, t in b.terms() if t["t"] == "assert" and t["kind"].startswith(("Overflow", "DivisionByZero", "RemainderByZero"))]
        if not asserts:
            continue
        T = Taint(prog, b)
        for c in srcs:
            T.seed(b, c.dest["l"], "parsed")
        T.run()
        P = Prover(prog, b)
        for bb, t in asserts:
            tainted = [op for op in t.get("ops", []) if "parsed" in T.op_taint(b, op)]
            if not tainted:
                continue
            n += 1
            ops = [P.S.operand(o) for o in t.get("ops", [])]
            sig = "%s(%s)" % (t["kind"], ", ".join(P.S.show(o) for o in ops))
            key = "%s|arith|%s" % (b.short, sig)
            ok = key in lemmas
            R.ob(rule, "cert:" + key, "%s on a number parsed from the input in %s cannot overflow" % (t["kind"], b.short), ok, where=b.where(t.get("ln")),
                 detail=None if ok else "unchecked arithmetic on an attacker-chosen number panics in debug builds / wraps in release; use checked_/saturating_")
    R.ob(rule, "arith-scanned", "unchecked arithmetic sites on parsed numbers: %d" % n, True)


def r2(R):
    prog = R.prog
    n = 0
    for nm in ("parser::parse_combined_query_with_options", "parser::parse_sparql_query"):
        b = R.body("C16-R2", nm, crate="kolibrie")
        if b is None:
            continue
        P = Prover(prog, b)
        S = P.S
        for bb, i, pl, rv, s in b.assigns():
            if pl["l"] == 0 and not pl["p"] and rv["rv"] == "aggregate" and rv.get("variant") == "Ok":
                n += 1
                val = S.operand(rv["ops"][0])
                rem = val[1][0] if val[0] == "tuple" and val[1] else None
                ok = False
                why = "the returned remainder is not a tested value"
                if rem is not None:
                    skipped = rem[0] == "call" and rem[1] == "sparql_skip_ws"
                    tested = False
                    for c in G.conditions(b, bb):
                        if c["kind"] == "call" and c["call"].name() == "is_empty" and c["truth"] is True:
                            d = S.operand(c["call"].args[0])
                            if strip(d) == strip(rem):
                                tested = True
                    ok = skipped and tested
                    why = "remainder %s: skipped=%s tested-empty=%s" % (S.show(rem), skipped, tested)
                R.ob("C16-R2", "ok-return:%s:%d" % (b.name, n), "an Ok of %s returns an empty, blank-skipped remainder" % b.name, ok,
                     where=b.where(s.get("ln")), detail=None if ok else why + " — trailing garbage would be accepted")
    R.floor("C16-R2", "Ok returns of the top-level parsers", n, 4)


def _is_prefix_slice(b, op, depth=0):
    """the operand is a piece cut off the front of a longer text by length (`s.get(..n)`, `&s[..n]`, `split_at(n).0`): not a complete token"""
    if op is None or F.op_place(op) is None or depth > 6:
        return False
    pl = F.op_place(op)
    ds = [d for d in b.defs().get(pl["l"], []) if d[0] in ("assign", "call")]
    if b.is_closure and pl["l"] >= 2 and pl["l"] <= b.nargs:
        # a closure parameter: fed by the adaptor it is handed to (`get(..n).is_some_and(|head| ..)`)
        parent = b.prog_parent if hasattr(b, "prog_parent") else None
        return True if parent is None else False
    for d in ds:
        if d[0] == "call":
            if d[2].name() in ("get", "index", "split_at", "get_unchecked", "split_at_checked"):
                return True
            if d[2].name() in ("deref", "as_str", "borrow", "as_ref", "unwrap", "expect", "unwrap_or", "unwrap_or_default", "branch") and d[2].args:
                if _is_prefix_slice(b, d[2].args[0], depth + 1):
                    return True
        else:
            rv = d[3]
            src = F.op_place(rv["op"]) if rv["rv"] in ("use", "cast") else (rv["pl"] if rv["rv"] in ("ref",) else None)
            if src is not None and _is_prefix_slice(b, {"k": "copy", "pl": {"l": src["l"], "p": [], "t": ""}}, depth + 1):
                return True
    return False


def r3(R, bodies):
    prog = R.prog
    n = 0
    for b in bodies:
        root = prog.bodies.get(b.root) if b.is_closure else b
        nm = root.name if root is not None else b.name
        if not (nm.startswith("sparql_") or nm == "parse_group_graph_pattern"):
            continue
        n += 1
        for c in b.calls():
            cn = c.name()
            pk = c.pretty or ""
            if cn in ("multispace0", "multispace1", "space0", "space1") and "nom::" in pk:
                R.ob("C16-R3", "ws:%s:%s" % (b.short, cn), "%s skips blanks through sparql_skip_ws (comment-aware), not nom's %s" % (b.short, cn),
                     False, where=b.where(c.ln), detail="a comment between tokens would be a syntax error here")
            if cn in ("eq_ignore_ascii_case", "to_ascii_uppercase", "to_ascii_lowercase", "to_uppercase", "to_lowercase", "make_ascii_uppercase", "make_ascii_lowercase") \
                    and nm not in ("sparql_keyword", "sparql_starts_keyword", "sparql_keyword_ci", "sparql_tag_no_case") and _is_prefix_slice(b, c.args[0] if c.args else None):
                R.ob("C16-R3", "kwcase:%s:%s" % (b.short, cn), "%s compares keywords through the keyword helper (which also checks the token boundary), not with a home-made `%s`"
                     % (b.short, cn), False, where=b.where(c.ln), detail="a prefix test without a token boundary takes `values:max` for the keyword VALUES: a valid "
                     "statement is cut there and the query is rejected (or parsed differently)")
            if cn == "tag" and "nom::" in pk:
                lits = [const_text(a) for a in c.args]
                if any(l and any(ch.isalpha() for ch in l) for l in lits):
                    R.ob("C16-R3", "kw:%s:%s" % (b.short, lits), "%s recognises alphabetic keywords through sparql_keyword (case-insensitive, "
                         "token boundary), not nom's tag(%s)" % (b.short, lits), False, where=b.where(c.ln))
    R.floor("C16-R3", "bodies of the unified grammar", n, 60)


# ---------------------------------------------------------------- R4 keyword text never reaches the tree

_TRANSPARENT = {"branch", "ok", "unwrap", "expect", "unwrap_or", "unwrap_or_else", "unwrap_or_default", "map_err", "clone", "cloned", "copied",
                "from_residual", "into", "from", "as_ref", "take", "ok_or", "ok_or_else", "or", "or_else", "filter", "find", "next", "flatten",
                "iter", "into_iter", "deref", "unwrap_unchecked"}
_TESTS = {"is_ok", "is_err", "is_some", "is_none", "is_ok_and", "is_some_and"}
_CLOSURE_CONSUMERS = {"map", "and_then", "map_or", "map_or_else", "is_ok_and", "is_some_and", "inspect", "filter"}
_CLOSURE_PRODUCERS = {"find_map", "map", "filter_map", "and_then", "flat_map", "or_else", "then", "map_or_else", "unwrap_or_else"}


def _tuple_component(pl):
    """index of the first tuple-level field selected by a projection (variant payload `.0` of Ok/Some/Continue is skipped)"""
    ps = pl["p"]
    i = 0
    while i < len(ps):
        e = ps[i]
        if e["k"] == "downcast":
            # the variant's payload field follows
            i += 2
            continue
        if e["k"] == "field":
            if e.get("adt"):
                i += 1
                continue
            return e.get("i")
        i += 1
    return None


def keyword_flows(prog, b, carriers_in, sources, closure_returns):
    """within one body: (matched-text locals with site, escape sites, returns_carrier)"""
    carriers = set(carriers_in)
    for c in b.calls():
        if c.key in sources and not c.dest["p"]:
            carriers.add(c.dest["l"])
    matched, escapes = {}, []
    returns = False
    work = list(carriers)
    seen = set()
    while work:
        l = work.pop()
        if l in seen:
            continue
        seen.add(l)
        if l == 0:
            returns = True
        for (bb, where, kind, pl) in b.uses().get(l, []):
            if pl is None or kind in ("drop", "write"):
                continue
            if any(e["k"] == "downcast" and e.get("n") in ("Break", "Err", "None") for e in pl["p"]):
                continue            # the error side carries no matched text
            comp = _tuple_component(pl)
            if where[0] == "st":
                st = b.blocks[bb]["st"][where[1]]
                rv = st["rv"]
                dst = st["pl"]
                if rv["rv"] == "discriminant":
                    continue
                if comp == 0:
                    continue
                if comp is not None:
                    matched.setdefault(dst["l"], st.get("ln"))
                    continue
                # whole carrier copied / moved / borrowed / wrapped into an aggregate
                work.append(dst["l"])
            else:
                t = b.blocks[bb]["term"]
                if t["t"] == "switch" or t["t"] == "drop":
                    continue
                if t["t"] != "call":
                    continue
                c = next(x for x in b.calls() if x.bb == bb)
                nm = c.name()
                if comp == 0:
                    continue
                if comp is not None:
                    matched.setdefault(c.dest["l"], c.ln)
                    continue
                if nm in _TESTS:
                    continue
                argi = [i for i, a in enumerate(c.args) if (F.op_place(a) or {}).get("l") == l]
                if nm in _CLOSURE_CONSUMERS and argi == [0] and len(c.args) >= 2:
                    from c19 import closure_family_calls
                    key, inner = closure_family_calls(prog, b, c.args[-1])
                    cl = prog.bodies.get(key) if key else None
                    if cl is not None:
                        m2, e2, r2_ = keyword_flows(prog, cl, {2}, sources, closure_returns)
                        if m2:
                            # the closure reads the matched text: whatever it returns may carry it
                            matched.setdefault(c.dest["l"], c.ln)
                        escapes.extend(e2)
                        if r2_ and not c.dest["p"]:
                            work.append(c.dest["l"])
                        continue
                if nm in _TRANSPARENT and not c.dest["p"]:
                    work.append(c.dest["l"])
                    continue
                escapes.append((b, c))
    # closures created here that return a carrier: the call they are passed to yields a carrier
    for c in b.calls():
        if c.name() in _CLOSURE_PRODUCERS and len(c.args) >= 2 and not c.dest["p"] and c.dest["l"] not in seen:
            from c19 import closure_family_calls
            key, inner = closure_family_calls(prog, b, c.args[-1])
            if key and closure_returns.get(key):
                m3, e3, r3_ = keyword_flows(prog, b, {c.dest["l"]}, sources, closure_returns)
                matched.update({k: v for k, v in m3.items() if k not in matched})
                escapes.extend(x for x in e3 if x not in escapes)
                returns = returns or r3_
    return matched, escapes, returns


def r4(R, bodies):
    prog = R.prog
    kw = prog.one("parser::sparql_keyword", crate="kolibrie")
    R.anchor("C16-R4", "parser::sparql_keyword", kw)
    if kw is None:
        return
    # the helper itself must be the case-insensitive matcher
    R.ob("C16-R4", "helper", "sparql_keyword matches with tag_no_case", any(c.name() == "tag_no_case" for c in kw.calls()), where=kw.where())
    sources = {kw.key}
    closure_returns = {}
    scope = [b for b in prog.bodies.values() if b.crate == "kolibrie" and b.file.endswith("parser.rs") and b.key != kw.key
             and "::tests::" not in b.key]
    # fixpoint over wrappers (functions / closures that return the helper's result unchanged)
    for _ in range(6):
        changed = False
        for b in scope:
            if not any(c.key in sources for c in b.calls()) and not any(closure_returns.get(k.key) for k in prog.closures_of(b.key, recursive=False)):
                continue
            m, e, ret = keyword_flows(prog, b, set(), sources, closure_returns)
            if ret:
                if b.is_closure and not closure_returns.get(b.key):
                    closure_returns[b.key] = True
                    changed = True
                elif not b.is_closure and b.key not in sources:
                    sources.add(b.key)
                    changed = True
        if not changed:
            break
    nsites = 0
    for b in sorted(scope, key=lambda x: x.key):
        if b.is_closure:
            continue
        fam = prog.family(b.key)
        if not any(c.key in sources for x in fam for c in x.calls()):
            continue
        R.saw(b)
        allm, alle = [], []
        for x in fam:
            nsites += sum(1 for c in x.calls() if c.key in sources)
            m, e, ret = keyword_flows(prog, x, set(), sources, closure_returns)
            allm.extend((x, l, ln) for l, ln in m.items())
            alle.extend(e)
        for x, c in alle:
            R.ob("C16-R4", "escape:%s:%s" % (b.short, c.name()), "%s hands a keyword match (remainder + matched text) only to tests, `?`, remainder "
                 "reads or closures that read the remainder" % b.short, False, where=x.where(c.ln),
                 detail="passed whole to `%s`: the matched text (in the user's letter case) may end up in the syntax tree" % c.name())
        if allm:
            # does the matched text reach what the parser returns?
            T = Taint(prog, b)
            for x, l, ln in allm:
                T.seed(x, l, ("kwtext", ln))
            T.run()
            hit = [lab for lab in T.get(b, 0) if isinstance(lab, tuple) and lab[0] == "kwtext"]
            R.ob("C16-R4", "tree:%s" % b.short, "%s reads the matched keyword text but does not return it" % b.short, not hit,
                 where=b.where(hit[0][1] if hit else None),
                 detail=None if not hit else "the returned tree contains the keyword as the user typed it: `select (sum(?x) as ?t)` and the "
                 "upper-case spelling parse to different trees")
        else:
            R.ob("C16-R4", "clean:%s" % b.short, "%s never reads the text matched by a keyword" % b.short, True, where=b.where())
    R.floor("C16-R4", "keyword match sites", nsites, 40)


# ---------------------------------------------------------------- R5 nothing parsed is discarded

_TOKENS = {"sparql_keyword", "sparql_char", "sparql_skip_ws", "sparql_error", "sparql_starts_keyword"}
# audited exceptions: (calling parser, sub-parser) -> reason
_R5_EXCEPTIONS = {
    ("parse_sparql_query", "sparql_prefixes"): "documented: the prologue is accepted and skipped; SelectQuery has no prefix map (parse_combined_query keeps it)",
    ("parse_rule_call", "variable"): "the tree type RuleHead has no slot for call arguments (legacy rule-call syntax)",
}


def _remainder_len_idiom(b, call):
    """the remainder of `call` is measured (rest.len()) and subtracted from another length: the caller returns the consumed slice"""
    fam_rem = set()
    m = {}
    # locals holding the remainder component
    work = [call.dest["l"]]
    seen = set()
    while work:
        l = work.pop()
        if l in seen:
            continue
        seen.add(l)
        for (bb, where, kind, pl) in b.uses().get(l, []):
            if pl is None:
                continue
            if any(e["k"] == "downcast" and e.get("n") in ("Break", "Err", "None") for e in pl["p"]):
                continue
            comp = _tuple_component(pl)
            if where[0] == "st":
                st = b.blocks[bb]["st"][where[1]]
                if st["rv"]["rv"] == "discriminant":
                    continue
                if comp == 0:
                    fam_rem.add(st["pl"]["l"])
                elif comp is None:
                    work.append(st["pl"]["l"])
            else:
                t = b.blocks[bb]["term"]
                if t["t"] == "call":
                    c = next(x for x in b.calls() if x.bb == bb)
                    if comp is None and c.name() in _TRANSPARENT and not c.dest["p"]:
                        work.append(c.dest["l"])
    # remainder aliases
    rems = set(fam_rem)
    for _ in range(4):
        for bb, i, pl, rv, st in b.assigns():
            if not pl["p"] and rv["rv"] in ("use", "ref"):
                src = F.op_place(rv["op"]) if rv["rv"] == "use" else rv["pl"]
                if src is not None and src["l"] in rems and not [e for e in src["p"] if e["k"] != "deref"]:
                    rems.add(pl["l"])
    for c in b.calls():
        if c.name() == "len" and c.args:
            pl = F.op_place(c.args[0])
            if pl is not None and (pl["l"] in rems or b.alias_root(c.args[0]) in rems):
                # the length feeds a subtraction
                for bb, i, pl2, rv, st in b.assigns():
                    if rv["rv"] == "binop" and rv["op"].startswith("Sub"):
                        for o in (rv["a"], rv["b"]):
                            if F.op_place(o) is not None and b.alias_root(o) == c.dest["l"]:
                                return True
    return False


def r5(R):
    prog = R.prog
    scope = [b for b in prog.bodies.values() if b.crate == "kolibrie" and b.file.endswith("parser.rs") and "::tests::" not in b.key]
    fnkeys = {b.key for b in scope if not b.is_closure}

    def is_parser(b):
        rt = b.local_ty(0)
        return rt.startswith("core::result::Result<(&") and "nom::internal::Err" in rt
    nsites = 0
    used_exc = set()
    for b in sorted(scope, key=lambda x: x.key):
        if b.is_closure or not is_parser(b):
            continue
        fam = prog.family(b.key)
        for x in fam:
            for c in x.calls():
                if c.key not in fnkeys or c.name() in _TOKENS:
                    continue
                callee = prog.bodies[c.key]
                if not is_parser(callee):
                    continue
                rt = callee.local_ty(0)
                if rt.startswith("core::result::Result<(&str, ())") or ", char)" in rt.split("nom::internal")[0]:
                    continue
                nsites += 1
                m, e, ret = keyword_flows(prog, x, {c.dest["l"]}, set(), {})
                if ret:
                    continue            # the whole result is returned (wrapper / alternative)
                key = (b.name, c.name())
                ok = True
                why = None
                if not m and not e:
                    if _remainder_len_idiom(x, c):
                        continue        # recogniser: returns the consumed source slice
                    ok, why = False, "the payload is never read"
                else:
                    T = Taint(prog, b)
                    for l, ln in m.items():
                        T.seed(x, l, "payload")
                    for (xb, ec) in e:
                        T.seed(xb, ec.dest["l"], "payload")
                    T.run()
                    reaches = "payload" in T.get(b, 0)
                    if not reaches:
                        # or it decides a branch
                        for y in fam:
                            for bb, t in y.terms():
                                if t["t"] == "switch" and "payload" in T.op_taint(y, t["discr"]):
                                    reaches = True
                    if not reaches:
                        ok, why = False, "the payload is read but neither returned nor tested"
                if not ok and key in _R5_EXCEPTIONS:
                    used_exc.add(key)
                    R.advisory("C16-R5", "audited exception %s <- %s: %s" % (key[0], key[1], _R5_EXCEPTIONS[key]))
                    continue
                if not ok:
                    R.ob("C16-R5", "kept:%s:%s" % (b.name, c.name()), "%s keeps what %s parsed" % (b.name, c.name()), False, where=x.where(c.ln),
                         detail=why + ": the text is accepted but this part of it does not appear in the syntax tree")
        R.saw(b)
    R.ob("C16-R5", "sites", "sub-parser call sites whose payload is kept or legitimately measured (%d sites, %d audited exceptions)" % (nsites, len(used_exc)),
         True)
    R.floor("C16-R5", "sub-parser call sites in parser.rs", nsites, 100)


# ---------------------------------------------------------------- R6 measured recognisers do not return skipped remainders

def _returned_remainder_locals(b):
    """named locals that supply the remainder component of an Ok((rem, payload)) return"""
    out = set()
    for bb, i, pl, rv, st in b.assigns():
        if pl["l"] != 0 or pl["p"] or rv["rv"] != "aggregate" or rv.get("variant") != "Ok" or not rv["ops"]:
            continue
        o = b.origin(rv["ops"][0], stop_named=False)
        tup = o[1] if o[0] == "rv" else None
        if tup is None and o[0] == "place":
            d = b.single_def(o[1]["l"])
            tup = d[3] if d and d[0] == "assign" else None
        if tup is not None and tup["rv"] == "aggregate" and tup.get("ak") == "tuple" and tup["ops"]:
            r = b.origin(tup["ops"][0], stop_named=True)
            if r[0] == "place":
                out.add(r[1]["l"])
    return out


def r6(R):
    prog = R.prog
    scope = {b.key: b for b in prog.bodies.values() if b.crate == "kolibrie" and b.file.endswith("parser.rs") and "::tests::" not in b.key and not b.is_closure}

    def is_parser(b):
        rt = b.local_ty(0)
        return rt.startswith("core::result::Result<(&") and "nom::internal::Err" in rt
    measured = set()
    for b in scope.values():
        for x in prog.family(b.key):
            for c in x.calls():
                if c.key in scope and is_parser(scope[c.key]) and c.name() not in _TOKENS and _remainder_len_idiom(x, c):
                    measured.add(c.key)
    R.floor("C16-R6", "sub-parsers whose remainder is measured by a caller", len(measured), 3)
    # closure: parsers whose remainder a measured parser hands on
    work = list(measured)
    closed = set()
    while work:
        k = work.pop()
        if k in closed:
            continue
        closed.add(k)
        b = scope[k]
        rems = _returned_remainder_locals(b)
        for c in b.calls():
            if c.key in scope and is_parser(scope[c.key]) and c.key not in closed:
                # does component 0 of c's result reach a returned remainder local?
                m, e, ret = keyword_flows(prog, b, {c.dest["l"]}, set(), {})
                if ret:
                    work.append(c.key)
                    continue
                for l in _remainder_targets(b, c):
                    if l in rems:
                        work.append(c.key)
    n = 0
    for k in sorted(closed):
        b = scope[k]
        R.saw(b)
        rems = _returned_remainder_locals(b)
        bad = []
        for l in rems:
            for d in b.defs().get(l, []):
                if d[0] == "call" and d[2].name() == "sparql_skip_ws":
                    # a leading skip at function entry (before anything was consumed) is the caller's start point, not a trailing skip
                    if not any(x.bb != d[2].bb and b.dominates(x.bb, d[2].bb) and x.key in scope and is_parser(scope[x.key]) for x in b.calls()):
                        continue
                    bad.append(d[2].ln)
                elif d[0] == "assign" and d[3]["rv"] == "use":
                    o = b.origin(d[3]["op"], stop_named=False)
                    if o[0] == "call" and o[1].name() == "sparql_skip_ws":
                        if any(x.bb != o[1].bb and b.dominates(x.bb, o[1].bb) and x.key in scope and is_parser(scope[x.key]) for x in b.calls()):
                            bad.append(o[1].ln)
        n += 1
        R.ob("C16-R6", "stops-at-token:" + b.name, "%s returns the remainder right after what it consumed (not a blank/comment-skipped one)" % b.name, not bad,
             where=b.where(bad[0] if bad else None), detail=None if not bad else "the caller slices the operand text up to this remainder: blanks are trimmed away, "
             "but a `#` comment after the operand becomes part of the stored text (`30      # adults only`), so comments change the tree and the answers")
    R.floor("C16-R6", "measured recognisers (closure)", n, 3)


def _remainder_targets(b, call):
    """named locals that receive component 0 (the remainder) of a sub-parser call's result"""
    out = set()
    work = [call.dest["l"]]
    seen = set()
    while work:
        l = work.pop()
        if l in seen:
            continue
        seen.add(l)
        for (bb, where, kind, pl) in b.uses().get(l, []):
            if pl is None or where[0] != "st":
                if where[0] == "term" and pl is not None:
                    c = next((x for x in b.calls() if x.bb == bb), None)
                    if c is not None and c.name() in _TRANSPARENT and not c.dest["p"] and _tuple_component(pl) is None:
                        work.append(c.dest["l"])
                continue
            if any(e["k"] == "downcast" and e.get("n") in ("Break", "Err", "None") for e in pl["p"]):
                continue
            st = b.blocks[bb]["st"][where[1]]
            if st["rv"]["rv"] == "discriminant":
                continue
            comp = _tuple_component(pl)
            if comp == 0:
                dst = st["pl"]["l"]
                out.add(dst)
                # plain copies into a named cursor
                for bb2, i2, pl2, rv2, st2 in b.assigns():
                    if not pl2["p"] and rv2["rv"] == "use" and F.op_place(rv2["op"]) is not None and F.op_place(rv2["op"])["l"] == dst and not F.op_place(rv2["op"])["p"]:
                        out.add(pl2["l"])
            elif comp is None:
                work.append(st["pl"]["l"])
    return out


# ---------------------------------------------------------------- R7 bounded recursion

def _structural_descent(prog, comp, comps, guards, nodes):
    """A walker that re-parses its argument with a guarded recogniser and recurses only inside the closure applied to that recogniser's result, on
    parts of that result: its depth is the nesting of a text the guarded recogniser accepted, so it is bounded by the same limit."""
    from lib import pipeline as P
    fns = [k for k in comp if not prog.bodies[k].is_closure]
    cls = [k for k in comp if prog.bodies[k].is_closure]
    if len(fns) != 1 or not cls:
        return False
    f = prog.bodies[fns[0]]
    # recursion only from the closures
    if any(c.key in comp for c in f.calls()):
        return False
    gated = {k2 for c2 in comps if c2 is not comp for k2 in c2 if any(g.key in guards for g in prog.bodies[k2].calls())}
    gnames = {prog.bodies[g].name.split("::")[-1] for g in gated}

    def only_own_values(cb, l):
        d = P.derives(prog, cb, l)
        return bool(d) and all(t[0] in ("param", "field") for t in d)

    def from_top_param(ck):
        """every value closure `ck` can see is a part of the argument of the outermost closure it is nested in; returns that closure"""
        cb = prog.bodies[ck]
        parent = ck.rsplit("::{closure#", 1)[0]
        if parent == f.key:
            agg = [rv for bb, i, pl, rv, st in f.assigns() if rv["rv"] == "aggregate" and rv.get("closure") == ck]
            return ck if agg and all(not rv["ops"] for rv in agg) else None
        if parent not in prog.bodies:
            return None
        pb = prog.bodies[parent]
        for bb, i, pl, rv, st in pb.assigns():
            if rv["rv"] == "aggregate" and rv.get("closure") == ck:
                for o in rv["ops"]:
                    opl = F.op_place(o)
                    if opl is None or not only_own_values(pb, opl["l"]):
                        return None
        return from_top_param(parent)

    tops = set()
    for ck in cls:
        cb = prog.bodies[ck]
        for c in cb.calls():
            if c.key not in comp:
                continue
            for a in c.args:
                pl = F.op_place(a)
                if pl is None or not only_own_values(cb, pl["l"]):
                    return False
            top = from_top_param(ck)
            if top is None:
                return False
            tops.add(top)
    if not tops:
        return False
    # each outermost closure is applied to a value derived from a guarded recogniser's result
    for top in tops:
        applied = False
        for c in f.calls():
            for i, a in enumerate(c.args):
                key, _ = P._closure_calls(prog, f, a)
                if key == top and i > 0:
                    p0 = F.op_place(c.args[0])
                    if p0 is None:
                        return False
                    d = P.derives(prog, f, p0["l"])
                    if not any(t[0] == "call" and t[1] in gnames for t in d):
                        return False
                    applied = True
        if not applied:
            return False
    return True


def r7(R, ents):
    prog = R.prog
    reach = prog.reachable([b.key for b in ents if b is not None])
    nodes = {k for k in reach if k in prog.bodies and prog.bodies[k].crate == "kolibrie" and prog.bodies[k].file.endswith("parser.rs")}
    adj = {}
    for k in nodes:
        b = prog.bodies[k]
        outs = set()
        for c in b.calls():
            if c.key in nodes:
                outs.add(c.key)
            for a in c.args:
                fk = a.get("fn_resolved") or a.get("fn") if a.get("k") == "const" else None
                if fk in nodes:
                    outs.add(fk)
        for bb, i, pl, rv, st in b.assigns():
            for o in F.rv_operands(rv):
                fk = (o.get("fn_resolved") or o.get("fn")) if o.get("k") == "const" else None
                if fk in nodes:
                    outs.add(fk)
        for cl in prog.closures_of(k, recursive=False):
            if cl.key in nodes:
                outs.add(cl.key)
        adj[k] = outs
    # Tarjan, iterative
    index, low, onstack, stack, comps = {}, {}, set(), [], []
    counter = [0]
    for root in sorted(nodes):
        if root in index:
            continue
        work = [(root, iter(sorted(adj.get(root, ()))))]
        index[root] = low[root] = counter[0]
        counter[0] += 1
        stack.append(root)
        onstack.add(root)
        while work:
            v, it = work[-1]
            advanced = False
            for w in it:
                if w not in index:
                    index[w] = low[w] = counter[0]
                    counter[0] += 1
                    stack.append(w)
                    onstack.add(w)
                    work.append((w, iter(sorted(adj.get(w, ())))))
                    advanced = True
                    break
                elif w in onstack:
                    low[v] = min(low[v], index[w])
            if advanced:
                continue
            work.pop()
            if work:
                low[work[-1][0]] = min(low[work[-1][0]], low[v])
            if low[v] == index[v]:
                comp = []
                while True:
                    w = stack.pop()
                    onstack.discard(w)
                    comp.append(w)
                    if w == v:
                        break
                if len(comp) > 1 or v in adj.get(v, ()):
                    comps.append(comp)
    from lib import depth as D
    guards = D.charging_fns(prog, lambda x: x.file.endswith("parser.rs"))
    R.ob("C16-R7", "guards", "the parser has a nesting guard - a function that advances a counter, compares it with a constant and fails, or a wrapper "
         "that always passes through one (%s)" % ", ".join(sorted(prog.bodies[g].name for g in guards)), bool(guards),
         detail=None if guards else "no function of parser.rs has the shape of a depth guard")
    R.floor("C16-R7", "recursion cycles among the parser functions", len(comps), 4)
    for comp in sorted(comps, key=lambda c: sorted(c)[0]):
        names = sorted({(prog.bodies[prog.bodies[k].root].name if prog.bodies[k].is_closure and prog.bodies[k].root in prog.bodies else prog.bodies[k].name) for k in comp})
        guarded = False
        direct = False
        for k in comp:
            b = prog.bodies[k]
            gcalls = [c for c in b.calls() if c.key in guards]
            if gcalls:
                # the guard is entered before the function recurses
                rec = [c for c in b.calls() if c.key in comp or any((a.get("fn_resolved") or a.get("fn")) in comp for a in c.args if a.get("k") == "const")]
                # ... and the guard object is still alive when it does (`let _ = enter()?` releases it at once)
                gtypes = D._guard_types(prog)
                drops = [i for i, blk in enumerate(b.blocks) if blk["term"]["t"] == "drop" and D._base(blk["term"].get("ty", "")) in gtypes]
                released = any(c.bb in b.reach_from([d]) for d in drops for c in rec)
                if (all(any(b.dominates(g.bb, c.bb) or g.bb == c.bb for g in gcalls) for c in rec) or not rec) and not released:
                    guarded = True
                    direct = True
        if not guarded:
            guarded = _structural_descent(prog, comp, comps, guards, nodes)
        R.ob("C16-R7", "bounded:" + "+".join(names[:4]), "the recursion %s is depth-bounded%s" % (" -> ".join(names[:5]), "" if direct or not guarded else
             " (each level first runs a guarded recogniser on the same text)"), guarded, where=prog.bodies[sorted(comp)[0]].where(),
             detail=None if guarded else "nothing limits how deep this cycle nests: input such as 5000 opening parentheses / braces / `<<` overflows the stack and "
             "aborts the process instead of returning an error")


# ---------------------------------------------------------------- R8 bounded deepening by iteration

def r8(R, ents):
    from lib import depth as D
    prog = R.prog
    rec = D.recursive_adts(prog)
    reach = prog.reachable([b.key for b in ents if b is not None])
    budgets = D.persistent(prog, D.charging_fns(prog, lambda x: x.file.endswith("parser.rs")))
    n = 0
    for k in sorted(reach):
        b = prog.bodies.get(k)
        if b is None or b.crate != "kolibrie" or not b.file.endswith("parser.rs"):
            continue
        for h, blocks, l, nm, bb, how in D.deepening_loops(b, rec):
            n += 1
            c = D.loop_charged(b, h, blocks, bb, budgets)
            R.ob("C16-R8", "%s:%s" % (b.name.split("::")[-1], nm), "the loop of %s that deepens `%s` (%s) charges the depth budget each turn"
                 % (b.name, nm, D._base(b.local_ty(l)).split("::")[-1]), c is not None, where=b.where(),
                 detail=None if c is not None else "each turn wraps `%s` into a new node and nothing bounds the number of turns: a chain of operators as long "
                 "as the input builds a tree that deep, and the recursive consumers (optimizer, Drop) overflow the stack" % nm)
    R.floor("C16-R8", "loops of the parser that deepen a recursive tree", n, 4)



def r9(R):
    from lib import depth as D
    prog = R.prog
    inparser = lambda x: x.file.endswith("parser.rs")
    budgets = D.budget_fns(prog, inparser)
    charging = D.charging_fns(prog, inparser)
    gtypes = D._guard_types(prog)
    n = 0
    for k in sorted(charging - budgets):
        w = prog.bodies[k]
        import re as _re
        m = _re.match(r"^(?:core::result::)?Result<([\w:]+)", w.local_ty(0))
        g = m.group(1) if m else D._base(w.local_ty(0))
        if g not in gtypes:
            continue
        n += 1
        calls = [c for c in w.calls() if c.key in budgets or c.key in charging]
        builds = [bb for bb, i, pl, rv, st in w.assigns() if rv["rv"] == "aggregate" and rv.get("ak") == "adt" and (rv.get("adt") or "") == g]
        ok = bool(calls) and bool(builds) and all(any(w.dominates(bb, c.bb) or bb == c.bb for bb in builds) for c in calls)
        if not ok:
            # does the budget function refund on its failure path?
            refunds = False
            for c in calls:
                bfn = prog.bodies.get(c.key)
                if bfn is None:
                    continue
                errs = [bb for bb, i, pl, rv, st in bfn.assigns() if rv["rv"] == "aggregate" and rv.get("variant") in ("Err", "Failure")]
                wblocks = {cc.bb for cc in bfn.calls() if cc.name() in ("set", "fetch_sub", "replace", "update")}
                from lib import pipeline as P
                for cc in bfn.calls():
                    for a in cc.args:
                        key2, inner = P._closure_calls(prog, bfn, a)
                        if key2 and any(ic.name() in ("set", "fetch_sub", "replace", "update") for x2, ic in inner):
                            wblocks.add(cc.bb)
                exits = list(bfn.exits())
                for wb in wblocks:
                    only_some = not all(bfn.dominates(wb, e2) or wb == e2 for e2 in exits)
                    reaches_err = any(e in bfn.reach_from([wb]) or e == wb for e in errs)
                    if only_some and reaches_err:
                        refunds = True
            ok = refunds
        R.ob("C16-R9", "refund:" + w.name, "%s refunds a charge that fails (the guard exists before the charge, or the budget function takes it back)" % w.pretty.split("::")[-2:][-1] if False else
             "%s refunds a charge that fails (the guard exists before the charge, or the budget function takes it back)" % w.name, ok, where=w.where(),
             detail=None if ok else "the counter is advanced, the limit test fails and the function returns before any guard exists: nothing ever subtracts "
             "this charge, and the thread-local counter never returns to zero")
    R.floor("C16-R9", "functions that charge the depth counter and return a guard", n, 1)


def r10(R):
    """a comment ends at a carriage return or a line feed"""
    prog = R.prog
    R.rule("C16-R10", "comments end where SPARQL says: in the whitespace/comment skipper every token parser goes through, the code that "
                      "runs once a `#` was seen looks for both line terminators of the grammar (`#xD` and `#xA`) - they occur as character "
                      "constants of the search - and does not delegate the end of the comment to `str::lines`, which does not stop at a "
                      "lone carriage return: text after a CR-terminated comment would be parsed as comment (patterns silently disappear, "
                      "trailing garbage is accepted)")
    b = R.body("C16-R10", "parser::sparql_skip_ws", crate="kolibrie")
    if b is None:
        return
    R.saw(b)
    hashes = [c for c in b.calls() if c.name() in ("strip_prefix", "starts_with") and any(a.get("k") == "const" and
              (str(a.get("v")) == "35" or "#" in (F.const_strs(a) or [])) for a in c.args)]
    if not R.ob("C16-R10", "anchor", "the skipper recognises the comment introducer `#` (found %d test)" % len(hashes), len(hashes) >= 1, where=b.where()):
        return
    region = set()
    for bb in b.reachable_blocks():
        for cd in G.conditions(b, bb):
            if (cd.get("kind") == "variant" and cd.get("variant") == "Some" and cd.get("truth") is True) or \
               (cd.get("kind") == "call" and cd.get("truth") is True and cd["call"] in hashes):
                region.add(bb)
    chars, names = set(), []
    bodies = [(b, region)]
    for bb, i, pl, rv, st in b.assigns():
        if bb in region and rv["rv"] == "aggregate" and rv.get("ak") == "closure" and rv["closure"] in prog.bodies:
            for x in prog.family(rv["closure"]):
                bodies.append((x, None))
    for x, reg in bodies:
        for bb, t in x.terms():
            if (reg is None or bb in reg) and t["t"] == "switch" and "char" in x.local_ty((F.op_place(t["discr"]) or {"l": 0})["l"]):
                for v, tg in t["targets"]:
                    try:
                        chars.add(int(v))
                    except Exception:
                        pass
        for bb, i, pl, rv, st in x.assigns():
            if reg is None or bb in reg:
                for o in F.rv_operands(rv):
                    if o.get("k") == "const" and o.get("ty") == "char":
                        chars.add(int(o.get("v")))
        for c in x.calls():
            if reg is None or c.bb in reg:
                names.append(c.name())
                for a in c.args:
                    if a.get("k") == "const" and a.get("ty") == "char":
                        chars.add(int(a.get("v")))
                    for sx in (F.const_strs(a) or []) if a.get("k") == "const" else []:
                        chars.update(ord(ch) for ch in sx)
    R.ob("C16-R10", "region", "the comment branch of the skipper was located (%d blocks, calls: %s)" % (len(region), sorted(set(names))), len(region) >= 1, where=b.where())
    ok = {10, 13} <= chars and "lines" not in names
    R.ob("C16-R10", "terminators", "a comment runs to the first CR or LF (terminator characters searched for: %s%s)"
         % (sorted(repr(chr(c)) for c in chars & {10, 13}), "; delegated to str::lines" if "lines" in names else ""), ok, where=b.where(hashes[0].ln),
         detail=None if ok else "a comment closed by a lone carriage return swallows the query text up to the next line feed: the request is accepted "
         "with a different structure, or text that is neither comment nor SPARQL is accepted after the query")


def r11(R):
    """the re-tokeniser of quoted-triple source text knows the parser's comment syntax"""
    prog = R.prog
    from c14 import _char_consts
    R.rule("C16-R11", "raw slices are re-read with the parser's own layout rules: the parser keeps an RDF-star quoted triple as its complete source "
                      "slice (layout and comments included) and every consumer re-tokenises that text with "
                      "SparqlDatabase::split_quoted_triple_content. That tokeniser therefore dispatches on the comment introducer `#` and on both "
                      "line terminators, as sparql_skip_ws does - otherwise a comment inside `<< >>`, which the parser accepts, becomes "
                      "tokens of the triple (the statement is stored or matched with other terms: a comment-dependent tree)")
    sp = prog.one("sparql_database::SparqlDatabase::split_quoted_triple_content", crate="kolibrie")
    if not R.anchor("C16-R11", "split_quoted_triple_content", sp):
        return
    R.saw(sp)
    callers = sorted({x.root if x.is_closure else x.key for x in prog.bodies.values() if "::tests::" not in x.key and any(c.key == sp.key for c in x.calls())})
    R.floor("C16-R11", "consumers that re-tokenise a quoted triple", len(callers), 3)
    # the parser hands out the raw slice: sparql_quoted_triple computes its result from the remainder's length
    qt = prog.one("parser::sparql_quoted_triple", crate="kolibrie")
    if R.anchor("C16-R11", "sparql_quoted_triple", qt):
        raw = any(c.name() == "index" for c in qt.calls()) and sum(1 for c in qt.calls() if c.name() == "len") >= 2
        R.ob("C16-R11", "raw-slice", "sparql_quoted_triple returns the source slice it measured (so the consumers see layout and comments)", raw, where=qt.where())
    scope, work = set(), [sp.key]
    while work:
        k = work.pop()
        if k in scope or k not in prog.bodies:
            continue
        scope.add(k)
        for x in prog.family(k):
            for c in x.calls():
                if c.key in prog.bodies and prog.bodies[c.key].crate == "kolibrie" and c.key not in scope:
                    work.append(c.key)
    chars = set()
    for k in scope:
        chars |= (_char_consts(prog, prog.bodies[k]) or set())
    ok = {35, 10, 13} <= chars
    R.ob("C16-R11", "comment-aware", "split_quoted_triple_content dispatches on `#`, CR and LF (characters it distinguishes: %s)"
         % sorted(repr(chr(c)) for c in chars if c < 128), ok, where=sp.where(),
         detail=None if ok else "`INSERT DATA { << <urn:s> # note\\n <urn:p> \"v\" >> <urn:q> <urn:o> }` is accepted by the parser; the consumers split the "
         "kept text at blanks only, so `#` and the words of the comment become the predicate and object of the quoted triple (nothing "
         "sensible is stored, the same pattern in a WHERE clause matches nothing)")


def r12(R):
    """language tags: subtags after the first admit digits"""
    prog = R.prog
    R.rule("C16-R12", "a language tag is a LANGTAG: in the literal scanner the code that runs after `@` accepts digits in the subtags that follow the "
                      "primary one (`[a-zA-Z]+ ('-' [a-zA-Z0-9]+)*`) - a digit-accepting character class is among the classes it scans with. A scanner "
                      "that is alphabetic throughout rejects `\"hola\"@es-419` and `@de-CH-1996`: a valid query becomes a syntax error (the same "
                      "agreement C13-R6 demands of the N-Triples tokenizer)")
    b = R.body("C16-R12", "parser::sparql_quoted_literal", crate="kolibrie")
    if b is None:
        return
    R.saw(b)
    ats = [c for c in b.calls() if c.name() in ("strip_prefix", "starts_with") and any(a.get("k") == "const" and (str(a.get("v")) == "64" or "@" in (F.const_strs(a) or []))
                                                                                      for a in c.args)]
    if not R.ob("C16-R12", "at-branch", "the literal scanner has a branch for `@` (found %d test)" % len(ats), len(ats) >= 1, where=b.where()):
        return
    region = set()
    for bb in b.reachable_blocks():
        for cd in G.conditions(b, bb):
            if cd.get("bb") is not None and any(b.dominates(a.bb, cd["bb"]) for a in ats) and (
                    (cd.get("kind") == "variant" and cd.get("variant") == "Some" and cd.get("truth") is True and any(b.reads({"k": "copy", "pl": cd["pl"]}, a.dest["l"]) for a in ats if cd.get("pl")))
                    or (cd.get("kind") == "call" and cd["call"] in ats and cd.get("truth") is True)):
                region.add(bb)
    # classes the scanner *consumes* with: predicates handed to scanning adaptors, and class tests inside loops of the branch (a look-ahead
    # such as `next().is_some_and(..)` after the tag does not consume)
    SCAN = {"take_while", "skip_while", "position", "rposition", "find", "trim_start_matches", "trim_matches", "all", "any", "map_while", "split"}
    from lib.taint import Taint
    TT = Taint(prog, b)
    classes = set()
    for c in b.calls():
        if c.bb not in region:
            continue
        if c.name().startswith("is_") and b.loops_containing(c.bb):
            classes.add(c.name())
        if c.name() in SCAN:
            for a in c.args:
                if a.get("k") == "const":
                    nm = str(a.get("fn") or a.get("d") or "").split("::")[-1]
                    if nm.startswith("is_"):
                        classes.add(nm)
                cb = TT._closure_of(b, a)
                if cb is not None:
                    for y in prog.family(cb.key):
                        classes |= {cc.name() for cc in y.calls() if cc.name().startswith("is_")}
    R.ob("C16-R12", "region", "the `@` branch was located (%d blocks; character classes used: %s)" % (len(region), sorted(classes)), len(region) >= 1 and bool(classes), where=b.where())
    digits = {"is_alphanumeric", "is_ascii_alphanumeric", "is_ascii_digit", "is_numeric", "is_digit"}
    ok = bool(classes & digits)
    R.ob("C16-R12", "digits-in-subtags", "the language-tag scanner accepts digits after the primary subtag (character classes used: %s)" % sorted(classes), ok, where=b.where(ats[0].ln),
         detail=None if ok else "`SELECT .. { ?s ?p \"hola\"@es-419 }` is rejected although `@es-MX` parses")


def r13(R):
    """the branch list of a UNION is complete"""
    prog = R.prog
    GGP = "shared::query::GroupGraphPattern"
    R.rule("C16-R13", "every UNION branch reaches the tree: the list of alternatives that becomes GroupGraphPattern::Union - in the parser that builds the "
                      "node, or in a helper that is handed the Union constructor - is not filtered (`retain`, `dedup*`, `truncate`, `drain`, a `filter` "
                      "adaptor). The empty group `{}` is the unit of a join but a *solution* of a union: `{ {} UNION { ?s ?p ?o } }` has one more row "
                      "than `{ ?s ?p ?o }`; a collapse that drops Unit members before it wraps them changes the query")
    builders = {}
    for b in prog.bodies.values():
        if b.crate != "kolibrie" or "::tests::" in b.key or not b.file.endswith("parser.rs"):
            continue
        for bb, i, pl, rv, st in b.assigns():
            if rv["rv"] == "aggregate" and rv.get("adt") == GGP and rv.get("variant") == "Union":
                builders.setdefault(b.root if b.is_closure else b.key, "builds the node")
            if rv["rv"] == "cast" and (rv["op"].get("fn") or "").startswith(GGP + "::Union"):
                # the constructor as a function value: whoever receives it builds the node
                for c in b.calls():
                    if c.key in prog.bodies and any(F.op_place(a) and b.alias_root(a) == pl["l"] or F.op_local(a) == pl["l"] for a in c.args):
                        builders.setdefault(c.key, "is handed the Union constructor by %s" % b.short)
        for c in b.calls():
            if any(a.get("k") == "const" and (a.get("fn") or "").startswith(GGP + "::Union") for a in c.args) and c.key in prog.bodies:
                builders.setdefault(c.key, "is handed the Union constructor by %s" % b.short)
    R.floor("C16-R13", "functions that build a Union node", len(builders), 1)
    FILTERS = ("retain", "retain_mut", "dedup", "dedup_by", "dedup_by_key", "truncate", "drain", "filter", "filter_map", "skip", "skip_while", "take", "take_while", "step_by")
    for k, why in sorted(builders.items()):
        root = prog.bodies.get(k)
        if root is None:
            continue
        R.saw(root)
        bad = []
        for x in prog.family(k):
            for c in x.calls():
                if c.name() in FILTERS and c.args and F.op_place(c.args[0]) and "GroupGraphPattern" in x.local_ty(F.op_place(c.args[0])["l"]):
                    bad.append((x, c))
        R.ob("C16-R13", "complete:" + root.name, "%s (%s) hands every collected member on (filtering calls on pattern lists: %s)" % (root.name, why, sorted({c.name() for x, c in bad})),
             not bad, where=(bad[0][0].where(bad[0][1].ln) if bad else root.where()),
             detail=None if not bad else "an empty `{}` written as a UNION branch disappears from the tree: the query is accepted and answers with fewer rows")

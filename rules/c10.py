"""C10 — each firing sees exactly the current window: shape of the per-firing transaction (structural clauses)."""
from lib import facts as F

OPS = ("remove", "add", "materialize", "execute_query")
R2R_TRAIT = "kolibrie::rsp::r2r::R2ROperator"
SIMPLE = "kolibrie::rsp::simple_r2r::SimpleR2R"


def find_processor(prog):
    """the per-window processor closure: the closure created in register_windows that runs the R2R transaction"""
    out = []
    for rw in [b for b in prog.bodies.values() if b.name == "register_windows" and b.crate == "kolibrie"]:
        for c in prog.closures_of(rw.key):
            names = {x.name() for x in c.calls() if (x.trait or "") == R2R_TRAIT}
            if {"materialize", "execute_query"} <= names:
                out.append((rw, c))
    return out


def r2r_calls(b):
    return {nm: [c for c in b.calls() if c.name() == nm and (c.trait or "") == R2R_TRAIT] for nm in OPS}


def field_of_receiver(b, op):
    o = b.origin(op, stop_named=False)
    if o[0] == "place":
        fs = [e["n"] for e in o[1]["p"] if e["k"] == "field"]
        return fs
    return []


def run(R):
    _run(R)
    r7(R)
    r8(R)
    r9(R)


def r9(R):
    R.rule("C10-R9", "every firing is delivered: a window hands its content to the registered consumer with a send that cannot lose it "
                     "(mpsc::Sender::send or the blocking SyncSender::send); a try_send on a bounded queue drops the firing when the "
                     "consumer is behind, so the continuous query never sees that window (multi-thread mode under load only)")
    prog = R.prog
    sends = []
    for b in prog.bodies.values():
        if b.crate != "kolibrie" or not b.file.endswith("rsp/s2r.rs") or "::tests::" in b.key or "__test" in b.key:
            continue
        for c in b.calls():
            if "std::sync::mpsc" in (c.pretty or "") and c.name() in ("send", "try_send", "send_timeout", "send_deadline"):
                sends.append((b, c))
    R.floor("C10-R9", "consumer sends in rsp/s2r.rs", len(sends), 2)
    seen = {}
    for b, c in sends:
        R.saw(b)
        n = seen[b.key] = seen.get(b.key, 0) + 1
        ok = c.name() == "send"
        R.ob("C10-R9", "lossless:%s:%d" % (b.short, n), "%s delivers the window content with a send that cannot drop it (found %s)" % (b.short, c.name()),
             ok, where=b.where(c.ln), detail=None if ok else "a full queue makes %s return Err(Full): this firing is never processed" % c.name())


def r8(R):
    """rows are compared by ISTREAM / DSTREAM as Vec<(var, value)>: the order of the pairs is part of a row's identity"""
    prog = R.prog
    R.rule("C10-R8", "a row has one canonical form: wherever the RSP layer turns a solution map into the Vec<(variable, value)> that ISTREAM / DSTREAM "
                     "compare across firings, the pairs are sorted by a key that is unique within a row - the variable name (or the whole pair). "
                     "Sorting by the value alone ties when two variables are bound to the same term; the tie is broken by the hash map's "
                     "iteration order, so the same row looks new (ISTREAM) or vanished (DSTREAM) at the next firing")
    sites = 0
    for k, b in sorted(prog.bodies.items()):
        if b.crate != "kolibrie" or "::tests::" in k or not (b.file.endswith("rsp_engine.rs") or "/rsp/" in b.file):
            continue
        for c in b.calls():
            if c.name() not in ("sort_by", "sort_unstable_by", "sort_by_key", "sort_unstable_by_key", "sort_by_cached_key", "sort", "sort_unstable"):
                continue
            p0 = F.op_place(c.args[0]) if c.args else None
            if p0 is None or "(alloc::string::String, alloc::string::String)" not in b.local_ty(p0["l"]):
                continue
            sites += 1
            if c.name() in ("sort", "sort_unstable"):
                R.ob("C10-R8", "row-order:%s" % _rootname(prog, b), "%s sorts a row by a key that is unique within the row (whole pairs)" % _rootname(prog, b), True, where=b.where(c.ln))
                continue
            from c19 import closure_family_calls
            key, inner = closure_family_calls(prog, b, c.args[1])
            cl = prog.bodies.get(key) if key else None
            fields = set()
            if cl is not None:
                for x in prog.family(cl.key):
                    for cc in x.calls():
                        if cc.name() not in ("cmp", "partial_cmp", "clone", "as_str", "deref", "to_string", "to_owned"):
                            continue
                        for a in cc.args:
                            pl = F.op_place(a)
                            if pl is None:
                                continue
                            cur, seen = [pl], set()
                            while cur:
                                q = cur.pop()
                                if (q["l"], len(q["p"])) in seen:
                                    continue
                                seen.add((q["l"], len(q["p"])))
                                fs = [e.get("i", e.get("n")) for e in q["p"] if e["k"] == "field"]
                                if fs and q["l"] <= x.nargs + 1:
                                    fields.add(str(fs[-1]))
                                for d in x.defs().get(q["l"], []):
                                    if d[0] == "assign":
                                        for q2, kk in F.rv_places(d[3]):
                                            if [e for e in q2["p"] if e["k"] == "field"]:
                                                fs2 = [e.get("i", e.get("n")) for e in q2["p"] if e["k"] == "field"]
                                                fields.add(str(fs2[-1]))
                                            cur.append(q2)
            ok = ("0" in fields) or (cl is not None and not fields)
            R.ob("C10-R8", "row-order:%s" % _rootname(prog, b), "%s sorts a row by a key that is unique within the row (compared components: %s)"
                 % (_rootname(prog, b), sorted(fields) or "whole pair"), ok, where=b.where(c.ln),
                 detail=None if ok else "the comparator looks at the value only: two variables bound to the same term tie and keep their hash-map order")
    R.floor("C10-R8", "places where the RSP layer sorts a row's (variable, value) pairs", sites, 1)


def _rootname(prog, b):
    return prog.bodies[b.root].name if b.is_closure and b.root in prog.bodies else b.name


def _run(R):
    prog = R.prog
    R.rule("C10-R1", "one critical section: the processor acquires the shared store once; remove/add/materialize/execute_query "
                     "all run under that one guard (dominated by the acquisition, not reachable from its release)")
    R.rule("C10-R2", "order: evict (remove*) before load (add*) before materialize before execute_query")
    R.rule("C10-R3", "eviction bookkeeping: everything loaded into the store is recorded for the next eviction (window items in "
                     "the processor, derived triples and annotations in the materialiser); the materialiser evicts and clears "
                     "its record before reading the store")
    R.rule("C10-R4", "evict everything before loading anything — or the loader untracks what it loads: no deletion of "
                     "previous-firing state may hit current-firing content")
    procs = find_processor(prog)
    R.ob("C10-R1", "processor", "exactly one window-processor closure is generated (found %d)" % len(procs), len(procs) == 1)
    if len(procs) != 1:
        return
    rw, p = procs[0]
    R.saw(p)
    calls = r2r_calls(p)
    for nm in OPS:
        R.ob("C10-R1", "op:" + nm, "the processor calls R2ROperator::%s" % nm, len(calls[nm]) >= 1, where=p.where())
    # the store guard: lock() on the captured r2r store whose unwrap'ed guard is the receiver of the operations
    locks = [c for c in p.calls() if c.name() == "lock" and "Mutex" in (c.pretty or "")]
    guard_locals = {}
    for lc in locks:
        # guard local = dest of unwrap/expect applied to the lock result
        for u in p.calls():
            if u.name() in ("unwrap", "expect") and u.args and F.op_local(u.args[0]) == lc.dest["l"]:
                guard_locals[u.dest["l"]] = lc
    def guard_of(c):
        """which guard local the receiver of operation c derives from"""
        cur = c.args[0]
        for _ in range(12):
            o = p.origin(cur, stop_named=False)
            if o[0] == "place":
                if o[1]["l"] in guard_locals:
                    return o[1]["l"]
                return None
            if o[0] == "call" and o[1].args:
                if o[1].dest["l"] in guard_locals:
                    return o[1].dest["l"]
                cur = o[1].args[0]
                continue
            return None
        return None
    used = set()
    for nm in OPS:
        for c in calls[nm]:
            g = guard_of(c)
            used.add(g)
            R.ob("C10-R1", "under-guard:%s" % nm, "R2ROperator::%s is invoked through the store guard" % nm, g is not None, where=p.where(c.ln))
    used.discard(None)
    R.ob("C10-R1", "single-section", "all four operations use one and the same guard (one lock acquisition)", len(used) == 1, where=p.where(),
         detail=None if len(used) == 1 else "re-locking between the steps lets another window's firing interleave")
    if len(used) == 1:
        g = list(used)[0]
        lc = guard_locals[g]
        # releases of the guard: Drop terminators on g and mem::drop(move g)
        rel = set()
        for bb, t in p.terms():
            if t["t"] == "drop" and t["pl"]["l"] == g and not t["pl"]["p"]:
                rel.add(bb)
        for c in p.calls():
            if c.name() == "drop" and c.args and p.alias_root(c.args[0]) == g:
                rel.add(c.bb)
        R.ob("C10-R1", "released", "the guard is released explicitly or at scope end", bool(rel), where=p.where())
        after_rel = set()
        for r_ in rel:
            after_rel |= p.reach_after(r_)
        for nm in OPS:
            for c in calls[nm]:
                ok = p.dominates(lc.bb, c.bb) and c.bb not in after_rel and c.bb not in rel
                R.ob("C10-R1", "inside:%s" % nm, "R2ROperator::%s runs between acquisition and release on every path" % nm, ok, where=p.where(c.ln))
    # ---- R2 order
    order = list(OPS)
    for i, a in enumerate(order):
        for bname in order[i + 1:]:
            bad = []
            for cb in calls[bname]:
                reach = p.reach_from([cb.bb])
                for ca in calls[a]:
                    if ca.bb in reach and ca.bb != cb.bb:
                        bad.append((cb.ln, ca.ln))
            R.ob("C10-R2", "order:%s<%s" % (a, bname), "no %s happens after %s" % (a, bname), not bad, where=p.where(),
                 detail=None if not bad else "lines (later,earlier): %s" % bad[:3])
    for a, bname in (("materialize", "execute_query"),):
        ok = all(any(p.dominates(ca.bb, cb.bb) for ca in calls[a]) for cb in calls[bname])
        R.ob("C10-R2", "must:%s<%s" % (a, bname), "%s always precedes %s" % (a, bname), ok, where=p.where())
    # eviction loop and load loop are complete before materialize: the loops containing them do not contain materialize
    for nm in ("remove", "add"):
        for c in calls[nm]:
            lp = p.loops_containing(c.bb)
            ok = bool(lp) and all(all(m.bb not in body for m in calls["materialize"] + calls["execute_query"]) for h, body in lp)
            R.ob("C10-R2", "loop-complete:" + nm, "the %s loop finishes before materialisation/query" % nm, ok, where=p.where(c.ln))

    # ---- R3 bookkeeping in the processor: store.add(t) paired with prev_window_triples.push(t.clone())
    pushes = [c for c in p.calls() if c.name() == "push" and c.args and "prev_window_triples" in _upvar_names(p, c.args[0])]
    clears = [c for c in p.calls() if c.name() == "clear" and c.args and "prev_window_triples" in _upvar_names(p, c.args[0])]
    for c in calls["add"]:
        lp = p.loops_containing(c.bb)
        inner = min(lp, key=lambda x: len(x[1])) if lp else None
        ok = False
        if inner is not None:
            for pc in pushes:
                if pc.bb in inner[1] and (p.dominates(pc.bb, c.bb) or p.dominates(c.bb, pc.bb)):
                    # same item: both derive from the loop variable
                    ok = _same_item(p, pc.args[1], c.args[1])
                    # recorded on every path: once the item is in the store, the next turn of the loop is reached only through the push
                    if ok and p.dominates(c.bb, pc.bb) and not p.dominates(pc.bb, c.bb):
                        if inner[0] in p.reach_from(p.succ(c.bb), avoid={pc.bb}):
                            ok = False
        R.ob("C10-R3", "tracked:add", "every item loaded into the store is recorded in prev_window_triples", ok, where=p.where(c.ln),
             detail=None if ok else "an unrecorded item is never evicted and leaks into later firings (also an item the store already held, e.g. a fact "
             "derived in the previous firing: add() makes it window content, so the materialiser will not evict it either)")
    # eviction iterates prev_window_triples and clears it before the load loop
    for c in calls["remove"]:
        lp = p.loops_containing(c.bb)
        ok = False
        for h, body in lp:
            for nx in p.calls():
                if nx.bb in body and nx.name() == "next" and "prev_window_triples" in _chain_upvars(p, nx.args[0]):
                    ok = True
        R.ob("C10-R3", "evicts-record", "the eviction loop removes exactly the recorded items of the previous firing", ok, where=p.where(c.ln))
    okc = bool(clears) and all(all(cl.bb not in p.reach_from([a.bb]) or p.dominates(cl.bb, a.bb) for a in calls["add"]) for cl in clears) \
        and all(any(p.dominates(cl.bb, a.bb) for cl in clears) for a in calls["add"])
    R.ob("C10-R3", "record-reset", "the record is cleared after eviction and before loading", okc, where=p.where())

    # ---- R3 in the materialiser(s)
    mats = [b for b in prog.by_trait_item.get(R2R_TRAIT + "::materialize", [])]
    R.floor("C10-R3", "R2ROperator::materialize implementations", len(mats), 1)
    for m in mats:
        R.saw(m)
        adds = [c for c in m.calls() if c.name() == "add_triple"]
        dpush = [c for c in m.calls() if c.name() == "push" and c.args and "derived_triples" in field_of_receiver(m, c.args[0])]
        for n, c in enumerate(sorted(adds, key=lambda x: x.bb)):
            lp = m.loops_containing(c.bb)
            inner = min(lp, key=lambda x: len(x[1])) if lp else None
            ok = False
            if inner is not None:
                for pc in dpush:
                    if pc.bb in inner[1] and (m.dominates(pc.bb, c.bb) or m.dominates(c.bb, pc.bb)) and _same_item(m, pc.args[1], c.args[1]):
                        ok = True
            R.ob("C10-R3", "tracked:%s:%d" % (m.short, n), "every triple the materialiser adds to the store is recorded in derived_triples", ok,
                 where=m.where(c.ln), detail=None if ok else "an unrecorded derived triple survives into later firings")
        R.floor("C10-R3", "store insertions in %s" % m.short, len(adds), 2)
        dels = [c for c in m.calls() if c.name() == "delete_triple"]
        dclear = [c for c in m.calls() if c.name() == "clear" and c.args and "derived_triples" in field_of_receiver(m, c.args[0])]
        reads = [c for c in m.calls() if c.name().startswith("query") and c.args and "item" in field_of_receiver(m, c.args[0])]
        okd = bool(dels) and bool(dclear) and all(any(m.dominates(cl.bb, r.bb) for cl in dclear) for r in reads + adds)
        R.ob("C10-R3", "evict-before-read:" + m.short, "the materialiser evicts and clears last cycle's derived triples before reading the store",
             okd, where=m.where())
        for c in dels:
            lp = m.loops_containing(c.bb)
            ok = any(nx.bb in body and nx.name() == "next" and "derived_triples" in _chain_fields(m, nx.args[0]) for h, body in lp for nx in m.calls())
            R.ob("C10-R3", "evicts-derived:" + m.short, "the eviction loop deletes exactly the recorded derived triples", ok, where=m.where(c.ln))

    # ---- R4
    deleting_after_load = []
    for m in mats:
        dels = [c for c in m.calls() if c.name() in ("delete_triple", "delete_quad", "remove")]
        if dels:
            deleting_after_load.append(m)
    adds_impl = prog.by_trait_item.get(R2R_TRAIT + "::add", [])
    R.floor("C10-R4", "R2ROperator::add implementations", len(adds_impl), 1)
    if deleting_after_load:
        for a in adds_impl:
            untrack = []
            for c in a.calls():
                if c.name() in ("retain", "remove", "swap_remove") and c.args and "derived_triples" in field_of_receiver(a, c.args[0]):
                    untrack.append(c)
            ok = bool(untrack)
            R.ob("C10-R4", "loader-untracks:" + a.short, "materialisation deletes last cycle's derived triples after the window was loaded, so the "
                 "loader must untrack an item that equals a previously derived triple", ok, where=a.where(),
                 detail=None if ok else "a stream item equal to a previously derived fact is deleted from the current window")
    else:
        R.ob("C10-R4", "evict-first", "no deletion of previous-firing state follows the load", True)
    r5(R)
    r6(R)


def r6(R):
    """relation-to-stream operators: the last-result memory is replaced by the current answer on every stateful firing"""
    from lib import guards as G
    prog = R.prog
    R.rule("C10-R6", "last-result memory: in every arm of the relation-to-stream operator that consults last_result, every path to the "
                     "return replaces last_result by the set of the current answer (so the next firing diffs against this firing)")
    ev = R.body("C10-R6", "Relation2StreamOperator::eval", crate="kolibrie")
    if ev is None:
        return
    ADT = "kolibrie::rsp::r2s::Relation2StreamOperator"
    asg = [(bb, rv, s) for bb, i, pl, rv, s in ev.assigns() if pl["p"] and pl["p"][-1].get("n") == "last_result" and pl["p"][-1].get("adt") == ADT]
    R.floor("C10-R6", "assignments of last_result", len(asg), 2)
    from lib.taint import Taint
    T = Taint(prog, ev)
    T.seed(ev, 2, "answer")
    T.run()
    exits = set(ev.exits())
    narm = 0
    for bb, t in ev.terms():
        if t["t"] != "switch":
            continue
        for tgt, c in G.edge_conditions(ev, bb):
            if c["kind"] != "variant" or not (c.get("adt") or "").endswith("StreamOperator"):
                continue
            region = {k for k in ev.reachable_blocks() if ev.dominates(tgt, k)} if ev.pred(tgt) == [bb] else {tgt}
            # does the arm consult last_result (directly or in a closure created in the arm)?
            reads = False
            for b2, i, pl, rv, s in ev.assigns():
                if b2 in region:
                    for p2, kind in F.rv_places(rv):
                        if any(e["k"] == "field" and e["n"] == "last_result" for e in p2["p"]):
                            reads = True
            if not reads:
                continue
            narm += 1
            ab = {b2 for b2, rv, s in asg if b2 in region}
            escapes = ev.reach_from([tgt], avoid=ab) & exits
            ok = bool(ab) and not escapes
            R.ob("C10-R6", "memory-updated:" + str(c.get("variant")), "the %s arm replaces last_result on every path to its return" % c.get("variant"),
                 ok, where=ev.where(), detail=None if ok else "a firing that returns early keeps an older answer as the reference for the next diff")
            for b2, rv, s in asg:
                if b2 in region:
                    okv = rv["rv"] == "use" and "answer" in T.op_taint(ev, rv["op"])
                    R.ob("C10-R6", "memory-is-answer:" + str(c.get("variant")), "the %s arm stores the set of the current answer" % c.get("variant"), okv,
                         where=ev.where(s.get("ln")))
    R.floor("C10-R6", "stateful stream-operator arms", narm, 2)


def r5(R):
    """lock order at engine level"""
    from lib.lockorder import Locks, find_cycle
    prog = R.prog
    R.rule("C10-R5", "lock order: the engine-level lock graph (B acquired while a guard of A is live, callees included) is acyclic, no "
                     "guard is live across a blocking receive/join, and the database-internal RwLocks are leaf locks with respect "
                     "to the engine's mutexes")
    bodies = [b for b in prog.bodies.values() if b.crate == "kolibrie" and b.file.endswith(("rsp_engine.rs", "rsp/simple_r2r.rs", "rsp/r2s.rs"))
              and not b.unit.endswith("__test") and "::tests::" not in b.key]
    L = Locks(prog)
    nacq = 0
    unnamed = []
    for b in bodies:
        for a in L.acquisitions(b):
            nacq += 1
            if not a["name"]:
                unnamed.append(b.where(a["call"].ln))
    R.floor("C10-R5", "lock acquisitions in the stream engine", nacq, 18)
    R.ob("C10-R5", "identities", "every lock acquisition resolves to a lock identity (unresolved: %s)" % unnamed[:4], not unnamed)
    edges, blocking = L.edges(bodies)
    uniq = sorted({(a, b2) for a, b2, w in edges})
    R.advisory("C10-R5", "lock nesting edges: %s" % uniq)
    cyc = find_cycle(edges)
    R.ob("C10-R5", "acyclic", "the lock-nesting graph is acyclic (%d edges)" % len(uniq), cyc is None,
         detail=None if cyc is None else "cycle: %s" % " -> ".join(cyc))
    R.ob("C10-R5", "no-recv-under-guard", "no guard is live across a blocking receive / join", not blocking,
         detail=None if not blocking else "; ".join("%s held at %s" % x for x in blocking[:4]))
    # leaf rule: while a dictionary / quoted-triple-store guard is live no engine mutex is acquired
    leaf_names = ("dictionary", "quoted_triple_store")
    bad = [(a, b2, w) for a, b2, w in edges if a.split(".")[-1] in leaf_names and b2.startswith("RSPEngine.")]
    R.ob("C10-R5", "db-locks-are-leaves", "no engine-level lock is acquired while a dictionary / quoted-store guard is live", not bad,
         detail=None if not bad else "; ".join("%s -> %s at %s" % x for x in bad[:4]))


def _upvar_names(p, op):
    """names of captured variables an operand refers to"""
    pl = F.op_place(op)
    if pl is None:
        return set()
    out = set()
    seen = set()
    work = [pl]
    while work:
        q = work.pop()
        key = (q["l"], len(q["p"]))
        if key in seen:
            continue
        seen.add(key)
        if p.is_closure and q["l"] == 1:
            for e in q["p"]:
                if e["k"] == "field":
                    for idx, nm in p.r.get("upvars", []):
                        if idx == e["i"]:
                            out.add(nm)
                    break
            continue
        d = p.single_def(q["l"])
        if d and d[0] == "assign":
            rv = d[3]
            src = rv.get("pl") or F.op_place(rv.get("op") or {})
            if src is not None:
                work.append(src)
    return out


def _chain_upvars(p, op, depth=0):
    out = set(_upvar_names(p, op))
    if depth > 8:
        return out
    o = p.origin(op, stop_named=False)
    if o[0] == "call" and o[1].args:
        out |= _chain_upvars(p, o[1].args[0], depth + 1)
    elif o[0] == "place":
        d = p.single_def(o[1]["l"])
        if d and d[0] == "call" and d[2].args:
            out |= _chain_upvars(p, d[2].args[0], depth + 1)
        out |= _upvar_names(p, {"k": "copy", "pl": o[1]})
    return out


def _chain_fields(b, op, depth=0):
    out = set()
    if depth > 8:
        return out
    o = b.origin(op, stop_named=False)
    if o[0] == "place":
        out |= {e["n"] for e in o[1]["p"] if e["k"] == "field"}
        d = b.single_def(o[1]["l"])
        if d and d[0] == "call" and d[2].args:
            out |= _chain_fields(b, d[2].args[0], depth + 1)
    elif o[0] == "call" and o[1].args:
        out |= _chain_fields(b, o[1].args[0], depth + 1)
    return out


def _same_item(b, op1, op2):
    """both operands are the same loop item (possibly cloned)"""
    def root(op):
        l = b.alias_root(op)
        for _ in range(6):
            if l is None:
                return None
            d = b.single_def(l)
            if d and d[0] == "call" and d[2].name() in ("clone", "to_owned") and d[2].args:
                l = b.alias_root(d[2].args[0])
                continue
            return l
        return l
    a, c = root(op1), root(op2)
    return a is not None and a == c


# ---------------------------------------------------------------- R7 every firing is processed (multi-thread worker)

def r7(R):
    prog = R.prog
    R.rule("C10-R7", "every firing is processed: the worker thread of a window hands EVERY content it receives to the window processor, in "
                     "arrival order - one blocking receive per iteration, no second / non-blocking receive that could coalesce or drop "
                     "firings, no path from a received content back to the receive that bypasses the processor (otherwise multi-thread "
                     "mode emits a different sequence than single-thread mode under load)")
    workers = []
    for b in prog.bodies.values():
        if b.crate != "kolibrie" or not b.file.endswith("rsp_engine.rs") or not b.is_closure:
            continue
        if "register_windows" not in b.key:
            continue
        names = [c.name() for c in b.calls()]
        if any(n in names for n in ("recv", "try_recv", "recv_timeout", "try_iter", "iter")) and b.loops():
            if "std::sync::mpsc" in " ".join((c.pretty or "") for c in b.calls()):
                workers.append(b)
    R.floor("C10-R7", "window worker loops", len(workers), 1)
    for b in workers:
        R.saw(b)
        rec = [c for c in b.calls() if "mpsc" in (c.pretty or "") and c.name() in ("recv", "try_recv", "recv_timeout", "try_iter", "iter", "recv_deadline")]
        kinds = sorted({c.name() for c in rec})
        R.ob("C10-R7", "one-blocking-receive", "the worker receives with exactly one blocking recv() (found %s)" % [c.name() for c in rec],
             len(rec) == 1 and kinds == ["recv"], where=b.where(rec[0].ln if rec else None),
             detail=None if (len(rec) == 1 and kinds == ["recv"]) else "a second or non-blocking receive lets the worker skip ahead to a newer window content: "
             "firings are dropped under load, in multi-thread mode only")
        if len(rec) != 1:
            continue
        r = rec[0]
        from lib import guards as G
        ok_t = None
        for bb, t in b.terms():
            if t["t"] == "switch":
                for tgt, cd in G.edge_conditions(b, bb):
                    if cd.get("kind") == "variant" and cd["pl"]["l"] == r.dest["l"] and cd.get("variant") == "Ok":
                        ok_t = tgt
        procs = [c for c in b.calls() if (c.callee or "").rsplit("::", 1)[-1] in ("call_mut", "call", "call_once") and ok_t is not None and (c.bb == ok_t or b.dominates(ok_t, c.bb))]
        R.ob("C10-R7", "processor-called", "the received content is passed to the window processor", len(procs) >= 1 and ok_t is not None, where=b.where(r.ln))
        if procs and ok_t is not None:
            # payload identity: the argument tuple holds the Ok payload of the receive
            pay = False
            for c in procs:
                o = b.origin(c.args[1], stop_named=False) if len(c.args) > 1 else ("?",)
                rv = o[1] if o[0] == "rv" else None
                if rv is None and o[0] == "place":
                    d = b.single_def(o[1]["l"])
                    rv = d[3] if d and d[0] == "assign" else None
                if rv is not None and rv["rv"] == "aggregate":
                    for op in rv["ops"]:
                        oo = b.origin(op, stop_named=False)
                        if oo[0] == "place" and oo[1]["l"] == r.dest["l"]:
                            pay = True
            R.ob("C10-R7", "same-content", "what is processed is the content that was received", pay, where=b.where(procs[0].ln))
            h = [hh for hh, blk in b.loops() if r.bb in blk]
            skip = bool(h) and (r.bb in b.reach_from([ok_t], avoid={c.bb for c in procs}))
            R.ob("C10-R7", "no-skip", "no path from a received content back to the receive bypasses the processor", not skip, where=b.where(r.ln))

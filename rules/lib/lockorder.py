"""Lock-order analysis over MIR: lock identities, guard live ranges, nesting edges, blocking receives under a guard."""
from . import facts as F

LOCK_CALLS = ("lock", "read", "write")
GUARD_UNWRAP = ("unwrap", "expect", "unwrap_or_else", "ok")


def is_lock_call(c):
    pk = c.pretty or ""
    return c.name() in LOCK_CALLS and ("sync::poison::mutex::Mutex" in pk or "sync::poison::rwlock::RwLock" in pk or "sync::Mutex" in pk or "sync::RwLock" in pk)


def is_blocking_recv(c):
    pk = c.pretty or ""
    return c.name() in ("recv", "recv_timeout", "join") and ("mpsc" in pk or "thread::JoinHandle" in pk)


class Locks:
    def __init__(self, prog):
        self.prog = prog
        self._summ = {}

    # ---- identities
    def name_of(self, b, op, depth=0):
        """stable name of the lock object an operand refers to"""
        if depth > 14:
            return None
        o = b.origin(op, stop_named=False)
        if o[0] == "call":
            c = o[1]
            if c.name() in ("deref", "clone", "borrow", "as_ref", "deref_mut") and c.args:
                return self.name_of(b, c.args[0], depth + 1)
            return None
        if o[0] != "place":
            return None
        pl = o[1]
        fields = [e for e in pl["p"] if e["k"] == "field"]
        l = pl["l"]
        if b.is_closure and l == 1 and fields:
            # captured variable -> what the creator put there
            idx = fields[0]["i"]
            parent = self.prog.bodies.get(b.parent)
            if parent is not None:
                for bb, i, pl2, rv, s in parent.assigns():
                    if rv["rv"] == "aggregate" and rv.get("ak") == "closure" and rv.get("closure") == b.key and idx < len(rv["ops"]):
                        inner = self.name_of(parent, rv["ops"][idx], depth + 1)
                        rest = [f["n"] for f in fields[1:]]
                        if inner is not None:
                            return inner + "".join("." + r for r in rest)
            for i2, nm in b.r.get("upvars", []):
                if i2 == idx:
                    return "capture:" + nm
            return None
        if fields:
            root = b.local_name(l) or ("arg%d" % l if l <= b.nargs else "_")
            # self.field -> field ; other.field -> <type>.field
            names = [f["n"] for f in fields]
            adt = fields[0].get("adt", "").rsplit("::", 1)[-1]
            return "%s.%s" % (adt, ".".join(names))
        d = b.single_def(l)
        if d and d[0] == "call" and d[2].name() in ("clone", "deref", "borrow") and d[2].args:
            return self.name_of(b, d[2].args[0], depth + 1)
        if 1 <= l <= b.nargs:
            return "param:%d" % l
        nm = b.local_name(l)
        if nm:
            return "local:%s:%s" % (b.short, nm)
        return None

    # ---- guards
    def acquisitions(self, b):
        """list of dict(lock name, call, guard local, live blocks)"""
        out = []
        for c in b.calls():
            if not is_lock_call(c):
                continue
            name = self.name_of(b, c.args[0]) if c.args else None
            g = c.dest["l"]
            # follow unwrap/expect chain to the local that owns the guard
            chain = [g]
            changed = True
            while changed:
                changed = False
                for x in b.calls():
                    if x.name() in GUARD_UNWRAP and x.args and F.op_local(x.args[0]) in chain and x.dest["l"] not in chain and not x.dest["p"]:
                        chain.append(x.dest["l"])
                        changed = True
                for bb, i, pl, rv, s in b.assigns():
                    if not pl["p"] and rv["rv"] == "use" and F.op_local(rv["op"]) in chain and pl["l"] not in chain and rv["op"].get("k") == "move":
                        chain.append(pl["l"])
                        changed = True
            owner = chain[-1]
            drops = set()
            for bb, t in b.terms():
                if t["t"] == "drop" and t["pl"]["l"] in chain and not t["pl"]["p"]:
                    drops.add(bb)
            for x in b.calls():
                if x.name() == "drop" and x.args and b.alias_root(x.args[0]) in chain:
                    drops.add(x.bb)
            live = b.reach_from(b.succ(c.bb), avoid=drops) | drops
            out.append({"name": name, "call": c, "guard": owner, "live": live, "drops": drops})
        return out

    def summary(self, key, depth=0):
        """lock names a body (and what it calls) may acquire; param-relative names are kept as param:i"""
        if key in self._summ:
            return self._summ[key]
        self._summ[key] = set()
        b = self.prog.bodies.get(key)
        if b is None or depth > 8:
            return set()
        out = set()
        for a in self.acquisitions(b):
            if a["name"]:
                out.add(a["name"])
        for c in b.calls():
            if c.key in self.prog.bodies and self.prog.bodies[c.key].crate == "kolibrie" and c.key != key:
                for nm in self.summary(c.key, depth + 1):
                    if nm.startswith("param:"):
                        i = int(nm.split(":")[1])
                        if i - 1 < len(c.args):
                            m = self.name_of(b, c.args[i - 1])
                            if m:
                                out.add(m)
                    else:
                        out.add(nm)
        for cl in self.prog.closures_of(key, recursive=False):
            # a closure created here runs later (thread / callback): not part of this body's own acquisitions
            pass
        self._summ[key] = out
        return out

    def edges(self, bodies):
        """(A, B, where): B acquired while a guard of A is live; plus recv-under-guard events"""
        edges = []
        blocking = []
        for b in bodies:
            acqs = self.acquisitions(b)
            for a in acqs:
                if not a["name"]:
                    continue
                for a2 in acqs:
                    if a2 is a or not a2["name"]:
                        continue
                    if a2["call"].bb in a["live"] and a2["call"].bb != a["call"].bb:
                        edges.append((a["name"], a2["name"], b.where(a2["call"].ln)))
                for c in b.calls():
                    if c.bb not in a["live"] or c is a["call"]:
                        continue
                    if is_blocking_recv(c):
                        blocking.append((a["name"], b.where(c.ln)))
                    if c.key in self.prog.bodies and self.prog.bodies[c.key].crate == "kolibrie":
                        for nm in self.summary(c.key):
                            m = nm
                            if nm.startswith("param:"):
                                i = int(nm.split(":")[1])
                                m = self.name_of(b, c.args[i - 1]) if i - 1 < len(c.args) else None
                            if m and m != a["name"]:
                                edges.append((a["name"], m, b.where(c.ln)))
        return edges, blocking


def find_cycle(edges):
    g = {}
    for a, b, w in edges:
        g.setdefault(a, set()).add(b)
    color = {}
    stack = []

    def dfs(u):
        color[u] = 1
        stack.append(u)
        for v in sorted(g.get(u, ())):
            if color.get(v) == 1:
                return stack[stack.index(v):] + [v]
            if color.get(v) is None:
                r = dfs(v)
                if r:
                    return r
        stack.pop()
        color[u] = 2
        return None
    for u in sorted(g):
        if color.get(u) is None:
            r = dfs(u)
            if r:
                return r
    return None

"""Check runner: fact extraction (cached by source hash), obligations, known findings, evidence."""
import fcntl
import hashlib
import importlib
import json
import os
import shutil
import subprocess
import sys
import time

VERIF = os.path.dirname(os.path.dirname(os.path.dirname(os.path.abspath(__file__))))
REPO = os.environ.get("KOLIBRIE_REPO", "/repo")
WORK = os.environ.get("VERIF_WORK", os.path.join(VERIF, ".work"))
KMIR = os.path.join(VERIF, "tools", "kmir", "target", "debug", "kmir")

EXPECTED_UNITS = ["shared__shared__lib", "datalog__datalog__lib", "kolibrie__kolibrie__lib",
                  "kolibrie-http-server__kolibrie_http_server__bin", "cli__cli__bin", "ml__ml__lib",
                  "kolibrie-python__kolibrie__lib"]


def log(*a):
    print(*a, file=sys.stderr, flush=True)


# ---------------------------------------------------------------- facts

def source_hash(repo):
    h = hashlib.sha256()
    paths = []
    for root, dirs, files in os.walk(repo):
        dirs[:] = sorted(d for d in dirs if d not in ("target", ".git", "node_modules", "web", "docs", "datasets"))
        for f in sorted(files):
            if f.endswith(".rs") or f in ("Cargo.toml", "Cargo.lock", "build.rs") or f.endswith(".pest"):
                paths.append(os.path.join(root, f))
    for p in paths:
        h.update(os.path.relpath(p, repo).encode())
        h.update(b"\0")
        with open(p, "rb") as fh:
            h.update(fh.read())
        h.update(b"\0")
    # the extractor itself is part of the key
    try:
        with open(os.path.join(VERIF, "tools", "kmir", "src", "main.rs"), "rb") as fh:
            h.update(fh.read())
    except OSError:
        pass
    return h.hexdigest()


def ensure_kmir():
    src = os.path.join(VERIF, "tools", "kmir", "src", "main.rs")
    if os.path.exists(KMIR) and os.path.getmtime(KMIR) >= os.path.getmtime(src):
        return
    log("[facts] building kmir driver")
    env = dict(os.environ, CARGO_NET_OFFLINE="true")
    r = subprocess.run(["cargo", "build", "--offline"], cwd=os.path.join(VERIF, "tools", "kmir"), env=env,
                       stdout=subprocess.PIPE, stderr=subprocess.STDOUT, text=True)
    if r.returncode != 0:
        log(r.stdout[-4000:])
        raise BuildError("kmir driver failed to build")


class BuildError(Exception):
    pass


def sysroot():
    return subprocess.check_output(["rustc", "+nightly", "--print", "sysroot"], text=True).strip()


def extract_facts(tier):
    """returns (facts_dir, hash, cache_hit)"""
    os.makedirs(WORK, exist_ok=True)
    lock = open(os.path.join(WORK, "lock"), "w")
    fcntl.flock(lock, fcntl.LOCK_EX)
    try:
        return _extract_locked(tier)
    finally:
        fcntl.flock(lock, fcntl.LOCK_UN)
        lock.close()


def _extract_locked(tier):
    ensure_kmir()
    h = source_hash(REPO)
    name = "facts-" + ("t" if tier == "thorough" else "q") + ("-" + os.environ["VERIF_FACTS_TAG"] if os.environ.get("VERIF_FACTS_TAG") else "")
    fdir = os.path.join(WORK, name)
    stamp = os.path.join(fdir, "HASH")
    if os.path.exists(stamp) and open(stamp).read().strip() == h and _units_ok(fdir):
        return fdir, h, True
    if os.path.isdir(fdir):
        shutil.rmtree(fdir)
    os.makedirs(fdir)
    target = os.path.join(WORK, "target")
    # cargo's freshness cache would skip the wrapper: forget the member crates
    fp = os.path.join(target, "debug", ".fingerprint")
    if os.path.isdir(fp):
        members = ("shared-", "datalog-", "kolibrie-", "kolibrie_http_server-", "kolibrie-http-server-", "cli-",
                   "ml-", "kolibrie-python-", "kolibrie_python-")
        for d in os.listdir(fp):
            if d.startswith(members):
                shutil.rmtree(os.path.join(fp, d), ignore_errors=True)
    env = dict(os.environ)
    env.update({
        "LD_LIBRARY_PATH": sysroot() + "/lib",
        "KMIR_OUT": fdir,
        "RUSTFLAGS": "-Zmir-opt-level=0 -Awarnings",
        "RUSTC_WORKSPACE_WRAPPER": KMIR,
        "CARGO_TARGET_DIR": target,
        "CARGO_NET_OFFLINE": "true",
    })
    env.pop("RUSTC_WRAPPER", None)
    cmd = ["cargo", "+nightly", "check", "--offline", "--workspace"]
    cmd += ["--all-targets"] if tier == "thorough" else ["--lib", "--bins"]
    t0 = time.time()
    log("[facts] %s (tier %s)" % (" ".join(cmd), tier))
    r = subprocess.run(cmd, cwd=REPO, env=env, stdout=subprocess.PIPE, stderr=subprocess.STDOUT, text=True)
    if r.returncode != 0:
        errs = [l for l in r.stdout.splitlines() if l.startswith("error")]
        log(r.stdout[-3000:])
        raise BuildError("repository does not type-check under the analysed configuration: %s"
                         % (errs[0] if errs else "cargo check failed"))
    if not _units_ok(fdir):
        raise BuildError("fact extraction produced no facts for an expected crate (units present: %s)"
                         % sorted(os.listdir(fdir)))
    with open(stamp, "w") as fh:
        fh.write(h)
    log("[facts] extracted in %.1fs" % (time.time() - t0))
    return fdir, h, False


def _units_ok(fdir):
    for u in EXPECTED_UNITS:
        p = os.path.join(fdir, u + ".jsonl")
        if not os.path.exists(p) or os.path.getsize(p) < 1000:
            return False
    return True


# ---------------------------------------------------------------- obligations

class Run:
    def __init__(self, prop, tier, prog, facts_hash):
        self.prop = prop
        self.tier = tier
        self.prog = prog
        self.facts_hash = facts_hash
        self.obs = []          # obligations
        self.advisories = []
        self.rules = {}        # rule id -> text
        self.analysed = {"bodies": set(), "call_sites": 0, "paths": 0}

    def rule(self, rid, text):
        self.rules[rid] = text

    def ob(self, rule, key, what, ok, where=None, detail=None):
        """record one obligation. key: stable identity (no line numbers)."""
        self.obs.append({"rule": rule, "key": "%s|%s" % (rule, key), "what": what,
                         "verdict": "discharged" if ok else "violated",
                         "where": where, "detail": detail})
        return ok

    def anchor(self, rule, name, value):
        """fail closed when a needed anchor cannot be resolved"""
        if value is None or value == [] or value == {}:
            self.ob(rule, "anchor:" + name, "anchor `%s` must resolve" % name, False,
                    detail="anchor missing: the construct this rule analyses was not found (renamed/removed?)")
            return None
        return value

    def floor(self, rule, what, count, floor):
        self.ob(rule, "floor:" + what, "at least %d %s analysed (found %d)" % (floor, what, count), count >= floor,
                detail=None if count >= floor else "instance count below the confirmed floor: rule would pass vacuously")

    def advisory(self, rule, text):
        self.advisories.append({"rule": rule, "text": text})

    def saw(self, body):
        if body is not None:
            self.analysed["bodies"].add(body.key)

    def body(self, rule, suffix, crate=None):
        b = self.prog.one(suffix, crate)
        self.anchor(rule, suffix, b)
        self.saw(b)
        return b


def load_known():
    p = os.path.join(VERIF, "known_findings.json")
    if not os.path.exists(p):
        return []
    return json.load(open(p))


def main(argv):
    import argparse
    ap = argparse.ArgumentParser()
    ap.add_argument("prop")
    ap.add_argument("--tier", default=os.environ.get("VERIF_TIER", "quick"))
    ap.add_argument("--explain")
    ap.add_argument("--facts", help="use an existing facts directory (selftest)")
    ap.add_argument("--no-evidence", action="store_true")
    ap.add_argument("-v", action="store_true")
    a = ap.parse_args(argv)
    prop = a.prop.upper()
    tier = a.tier if a.tier in ("quick", "thorough") else "quick"
    try:
        seed = int(os.environ.get("VERIF_SEED", "0"))
    except ValueError:
        seed = 0
    t0 = time.time()
    sys.path.insert(0, os.path.join(VERIF, "rules"))
    from lib import facts as F
    ev_path = os.path.join(VERIF, "evidence", prop + ".json")
    try:
        if a.facts:
            fdir, fh, hit = a.facts, "given", True
        else:
            fdir, fh, hit = extract_facts(tier)
    except BuildError as e:
        print("BUILD-FAILURE property=%s %s" % (prop, e))
        if not a.no_evidence:
            write_evidence(ev_path, prop, tier, seed, time.time() - t0, None, [], [], str(e))
        return 2
    t1 = time.time()
    prog = F.load(fdir)
    t2 = time.time()
    R = Run(prop, tier, prog, fh)
    mod = importlib.import_module(prop.lower())
    mod.run(R)
    if tier == "thorough" and hasattr(mod, "run_thorough"):
        mod.run_thorough(R)
    known = [k for k in load_known() if k["property"] == prop]
    known_keys = {k["key"]: k for k in known if k.get("status") == "known"}
    nviol = 0
    os.makedirs(os.path.join(VERIF, "evidence", "replay"), exist_ok=True)
    used_known = []
    seen_keys = set()
    for o in R.obs:
        if o["verdict"] != "violated":
            continue
        if o["key"] in known_keys:
            o["verdict"] = "known-finding"
            if o["key"] not in seen_keys:
                print("KNOWN-FINDING: property=%s %s -- %s" % (prop, o["key"], known_keys[o["key"]]["what"]))
                used_known.append(o["key"])
            seen_keys.add(o["key"])
            continue
        nviol += 1
        rp = os.path.join(VERIF, "evidence", "replay", "%s-%d.json" % (prop, nviol))
        with open(rp, "w") as fh_:
            json.dump({"property": prop, "obligation": o, "rule_text": R.rules.get(o["rule"]), "facts_hash": fh}, fh_,
                      indent=1)
        print("VIOLATION property=%s replay=%s" % (prop, rp))
        print("  rule %s: %s" % (o["rule"], R.rules.get(o["rule"], "")))
        print("  at   %s" % (o["where"] or "-"))
        print("  what %s" % o["what"])
        if o["detail"]:
            print("  why  %s" % o["detail"])
    # summary
    byrule = {}
    for o in R.obs:
        d = byrule.setdefault(o["rule"], {"discharged": 0, "violated": 0, "known-finding": 0})
        d[o["verdict"]] += 1
    for rid in sorted(byrule):
        d = byrule[rid]
        print("[%s] %-8s obligations=%d discharged=%d known=%d violated=%d" % (
            prop, rid, sum(d.values()), d["discharged"], d["known-finding"], d["violated"]))
    for adv in R.advisories:
        print("ADVISORY %s: %s" % (adv["rule"], adv["text"]))
    if a.v:
        for o in R.obs:
            print("  %-14s %s :: %s @ %s" % (o["verdict"], o["key"], o["what"], o["where"]))
    selftest = None
    if tier == "thorough" and not a.facts and not os.environ.get("VERIF_FACTS_TAG") and nviol == 0:
        # checker self-test: every mutant of this property must make the rules fire, every benign variant must stay silent
        sys.path.insert(0, os.path.join(VERIF, "selftest"))
        try:
            import run as selftest_run
            res = selftest_run.run(prop)
            selftest = [{"patch": n, "expect": "fires" if w else "silent", "result": info, "ok": ok} for n, w, info, ok in res]
            for n, w, info, ok in res:
                print("SELFTEST %s %s expect=%s %s" % ("ok" if ok else "FAIL", n, "fires" if w else "silent", info))
        except Exception as e:      # the self-test is auxiliary: report, do not judge the property by it
            print("SELFTEST skipped: %s" % e)
    wall = time.time() - t0
    if not a.no_evidence:
        R.analysed["selftest"] = selftest
        write_evidence(ev_path, prop, tier, seed, wall, R, used_known, prog.units, None,
                       timing={"facts_s": round(t1 - t0, 2), "load_s": round(t2 - t1, 2), "rules_s": round(time.time() - t2, 2),
                               "fact_cache_hit": hit}, nviol=nviol)
    print("[%s] tier=%s obligations=%d violations=%d known=%d wall=%.1fs (facts %s)" % (
        prop, tier, len(R.obs), nviol, len(used_known), wall, "cached" if hit else "rebuilt"))
    if nviol:
        return 1
    if selftest and any(not x["ok"] for x in selftest):
        print("CHECKER-SELFTEST-FAILED property=%s: a mutant that must be detected was missed (or a benign variant fired); "
              "the property itself held on the tree" % prop)
        return 2
    return 0


def write_evidence(path, prop, tier, seed, wall, R, used_known, units, build_error, timing=None, nviol=0):
    os.makedirs(os.path.dirname(path), exist_ok=True)
    if R is None:
        ev = {"property_id": prop, "tier": tier, "seed": seed, "level": "other",
              "coverage": {"explanation": "nothing analysed: " + (build_error or ""), "obligations": 0, "discharged": 0,
                           "samples": []},
              "wall_s": round(wall, 2), "violations": 0}
        json.dump(ev, open(path, "w"), indent=1)
        return
    obs = R.obs
    disc = sum(1 for o in obs if o["verdict"] == "discharged")
    samples = []
    per_rule_seen = {}
    for o in obs:
        c = per_rule_seen.get(o["rule"], 0)
        if c < 4 or o["verdict"] != "discharged":
            samples.append({"rule": o["rule"], "key": o["key"], "what": o["what"], "where": o["where"],
                            "verdict": o["verdict"], "detail": o["detail"]})
        per_rule_seen[o["rule"]] = c + 1
    ev = {
        "property_id": prop, "tier": tier, "seed": seed, "level": "other",
        "coverage": {
            "explanation": "Static analysis over rustc MIR facts of /repo's current working tree (no repository code is "
                           "executed). Each rule instance is an obligation decided on the resolved program; see rules.",
            "obligations": len(obs),
            "discharged": disc,
            "known_findings_applied": used_known,
            "rules": R.rules,
            "per_rule": _per_rule(obs),
            "samples": samples[:120],
            "bodies_analysed": len(R.analysed["bodies"]),
            "bodies_analysed_list": sorted(R.analysed["bodies"])[:200],
            "program_bodies_loaded": len(R.prog.bodies),
            "units": [{"unit": u.get("unit"), "bodies": u.get("bodies")} for u in units],
            "advisories": R.advisories,
            "selftest": R.analysed.get("selftest"),
            "facts_hash": R.facts_hash,
            "timing": timing,
            "checker_cmd": "./check %s --tier %s" % (prop, tier),
            "trusted_base": ["rustc nightly MIR (mir-opt-level=0) is a faithful lowering of the type-checked program",
                             "cargo builds the default feature set on x86_64-unknown-linux-gnu",
                             "rule scripts under /verif/rules", "class-hierarchy expansion for unresolved trait calls"],
            "exhaustive": True,
        },
        "assumptions": ["the rules decide structural necessary conditions, not the behavioural property itself",
                        "VERIF_SEED is recorded but unused: nothing is random"],
        "wall_s": round(wall, 2),
        "violations": nviol,
    }
    json.dump(ev, open(path, "w"), indent=1)


def _per_rule(obs):
    d = {}
    for o in obs:
        x = d.setdefault(o["rule"], {"obligations": 0, "discharged": 0, "known-finding": 0, "violated": 0})
        x["obligations"] += 1
        x[o["verdict"]] += 1
    return d


if __name__ == "__main__":
    sys.exit(main(sys.argv[1:]))

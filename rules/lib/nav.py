"""C04-R3: writer-defined key permutation of the four quad indexes agrees with deleter, helpers and readers.

Uniform formulation: every abstract value has at most one *role* (subject/predicate/object/graph). Roles are
demanded by (i) the position of a key in a navigation of index f — the writer's chain defines which role each
position of f holds, (ii) the leaf argument of insert/remove/contains on f, (iii) the field of a Quad/Triple
aggregate the value is stored in, (iv) the Quad field a value was read from. All demands on one value must agree.
"""
import re
from . import facts as F
from .absint import Interp, TOP

DI = "shared::dataset_index::DatasetIndex"
IDX = ["gspo", "gpos", "gosp", "spog"]
ROLE_ADTS = {"shared::dataset_index::Quad": ("subject", "predicate", "object", "graph"),
             "shared::triple::Triple": ("subject", "predicate", "object")}
_SYMROLE = re.compile(r"<(?:Quad|Triple)::(subject|predicate|object|graph)>$")


def vstr(v):
    if v[0] == "sym":
        return v[1]
    if v[0] == "nav":
        return "%s[%s]" % (v[1], ", ".join(vstr(k) for k in v[2]))
    if v[0] in ("key", "elem", "item", "opt", "iter", "entry"):
        return "%s(%s)" % (v[0], vstr(v[1]))
    if v[0] == "const":
        return "const %s" % v[1]
    return v[0]


def check_permutations(R, insert_role, delete_role):
    prog = R.prog
    rule = "C04-R3"

    def follow(c):
        cb = prog.bodies.get(c.key)
        return cb is not None and cb.crate == "shared" and cb.file.endswith("dataset_index.rs") and cb.self_adt != DI

    I = Interp(prog, DI, IDX, follow)
    methods = [b for b in prog.bodies.values()
               if b.crate == "shared" and b.self_adt == DI and not b.derived and not b.is_closure]
    for b in sorted(methods, key=lambda x: x.key):
        R.saw(b)
        I.scan(I.root(b))
    ops = [e for e in I.events if e["kind"] == "op"]
    aggs = [e for e in I.events if e["kind"] == "agg" and e["adt"] in ROLE_ADTS]

    # ---- (W) the writer defines the permutation
    perm = {}
    for key in sorted(insert_role):
        for e in ops:
            root_body = _root(e["ctx"])
            if root_body.key != key or e["op"] != "insert":
                continue
            f, ks = e["nav"][1], e["nav"][2]
            roles = [sym_role(k) for k in ks] + [sym_role(e["args"][0]) if e["args"] else None]
            ok = len(ks) == 3 and all(roles) and len(set(roles)) == 4
            R.ob(rule, "writer-chain:" + f, "writer chain of `%s` keys three distinct quad roles and stores the fourth "
                 "(found %s)" % (f, roles), ok, where=root_body.where(e["call"].ln),
                 detail=None if ok else "keys: %s" % [vstr(k) for k in ks])
            if ok:
                if f in perm and perm[f] != roles:
                    R.ob(rule, "writer-chain-unique:" + f, "a single writer chain defines `%s`" % f, False,
                         where=root_body.where(e["call"].ln))
                perm[f] = roles
    for f in IDX:
        R.ob(rule, "perm:" + f, "permutation of `%s` derived from the writer: %s" % (f, perm.get(f)), f in perm)
    if len(perm) != 4:
        return

    # ---- demands
    demands = {}   # value -> list of (role, description, where)

    def demand(v, role, desc, where):
        if v == TOP or v[0] in ("const", "struct", "closure", "env", "self"):
            return
        demands.setdefault(v, []).append((role, desc, where))

    nav_sites = 0
    unknown = []
    for e in ops:
        f, ks = e["nav"][1], e["nav"][2]
        if f not in perm:
            continue
        rb = _root(e["ctx"])
        where = rb.where(e["call"].ln)
        nav_sites += 1
        for i, k in enumerate(ks):
            if k == TOP:
                unknown.append((e, i))
                continue
            demand(k, perm[f][i], "key %d of %s" % (i, f), where)
        op = e["op"]
        d = len(ks)
        if op in ("get", "get_mut", "entry", "contains_key", "remove", "insert", "contains") and e["args"]:
            a = e["args"][0]
            if d <= 3:
                if a == TOP:
                    unknown.append((e, d))
                else:
                    demand(a, perm[f][d], "%s argument at depth %d of %s" % (op, d, f), where)
    for e, i in unknown:
        rb = _root(e["ctx"])
        R.ob(rule, "unknown-key:%s:%s:%d" % (rb.key, e["nav"][1], i),
             "key %d of a `%s` navigation in %s is understood by the checker" % (i, e["nav"][1], e["ctx"].label), False,
             where=rb.where(e["call"].ln), detail="unrecognised idiom: agreement with the writer cannot be established")
    nagg = 0
    for e in aggs:
        rb = _root(e["ctx"])
        for fld, v in e["fields"].items():
            if fld in ROLE_ADTS[e["adt"]]:
                nagg += 1
                demand(v, fld, "%s.%s" % (e["adt"].rsplit("::", 1)[-1], fld), rb.where(e["ln"]))
    # intrinsic roles
    for v in list(demands):
        r = intrinsic_role(v, perm)
        if r:
            demands[v].append((r, "origin", "-"))
    nvals = 0
    for v, ds in sorted(demands.items(), key=lambda x: vstr(x[0])):
        roles = {d[0] for d in ds}
        if len(ds) < 2:
            continue
        nvals += 1
        ok = len(roles) == 1
        # key is stable: the value's textual form (contexts/params), no line numbers
        R.ob(rule, "role:%s" % vstr(v), "value `%s` is used in one role only (%s)" % (vstr(v), sorted(roles)), ok,
             where=ds[0][2], detail=None if ok else "; ".join("%s demanded by %s at %s" % d for d in ds[:6]))
    R.floor(rule, "index navigation sites", nav_sites, 40)
    R.floor(rule, "Quad/Triple role fields built", nagg, 40)
    R.floor(rule, "values with cross-checked roles", nvals, 24)

    # ---- (D) the deleter removes at full depth from each index with the writer's key order (explicit check)
    for key in sorted(delete_role):
        for f in IDX:
            evs = [e for e in ops if _root(e["ctx"]).key == key and e["nav"][1] == f and e["op"] == "remove"
                   and len(e["nav"][2]) == 3]
            ok = False
            for e in evs:
                roles = [role_of(k, perm) for k in e["nav"][2]] + [role_of(e["args"][0], perm) if e["args"] else None]
                if roles == perm[f]:
                    ok = True
            R.ob(rule, "deleter:" + f, "deleter removes the leaf of `%s` under the writer's key order %s" % (f, perm[f]), ok,
                 where=prog.bodies[key].where())
    # ---- readers: every reading method navigates with a prefix of the permutation (implied by role demands);
    # list what was seen for the evidence
    readers = {}
    for e in ops:
        rb = _root(e["ctx"])
        if rb.key in insert_role or rb.key in delete_role:
            continue
        readers.setdefault(rb.name, set()).add(e["nav"][1])
    R.advisory(rule, "reader methods and the indexes they navigate: %s" % {k: sorted(v) for k, v in sorted(readers.items())})
    R.floor(rule, "reader methods navigating an index", len(readers), 5)


def _root(ctx):
    while ctx.creator is not None or ctx.caller is not None:
        ctx = ctx.creator if ctx.creator is not None else ctx.caller
    return ctx.body


def sym_role(v):
    if v and v[0] == "sym":
        m = _SYMROLE.search(v[1])
        if m:
            return m.group(1)
    return None


def intrinsic_role(v, perm):
    if v[0] == "sym":
        return sym_role(v)
    if v[0] in ("key", "elem"):
        nav = v[1]
        f, ks = nav[1], nav[2]
        if f in perm and len(ks) <= 3:
            if v[0] == "elem" and len(ks) != 3:
                return None
            return perm[f][len(ks)]
    return None


def role_of(v, perm):
    r = intrinsic_role(v, perm)
    return r

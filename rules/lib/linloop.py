"""T-LIN: linear-arithmetic view of one loop of a MIR body.

Values are linear forms (term -> rational coefficient, '' -> constant) over
  * `H:<name>`     the value a loop-carried local has at the loop header (start of an iteration)
  * `self.f`, `arg:x`, `<local>.f`   fields / arguments that the body does not assign
  * opaque terms `f(a,b)` for anything non-linear (div, ceil, abs, products of two non-constants ...), rendered canonically
Numeric casts are transparent (the rule that uses this states the assumption), `saturating_sub(a,b)` is `a-b`.
Nothing is executed: the forms are read off the assignments that reach a program point within one iteration.
"""
from fractions import Fraction
from . import facts as F

TRANSPARENT_CALLS = ("clone", "deref", "borrow", "into", "from", "to_owned", "as_ref")


class Lin(dict):
    def copy(self):
        return Lin(self)

    @staticmethod
    def const(c):
        return Lin({"": Fraction(c)}) if c else Lin()

    @staticmethod
    def sym(s):
        return Lin({s: Fraction(1)})

    def add(self, o, k=1):
        r = Lin(self)
        for t, c in o.items():
            v = r.get(t, 0) + c * k
            if v == 0:
                r.pop(t, None)
            else:
                r[t] = v
        return r

    def scale(self, k):
        return Lin({t: c * k for t, c in self.items() if c * k != 0})

    def is_const(self):
        return all(t == "" for t in self)

    def constant(self):
        return self.get("", Fraction(0))

    def render(self):
        if not self:
            return "0"
        parts = []
        for t in sorted(self):
            c = self[t]
            if t == "":
                parts.append(str(c))
            elif c == 1:
                parts.append(t)
            elif c == -1:
                parts.append("-" + t)
            else:
                parts.append("%s*%s" % (c, t))
        return " + ".join(parts).replace("+ -", "- ")


def opaque(name, *args):
    return Lin.sym("%s(%s)" % (name, ",".join(a.render() for a in args)))


class LoopView:
    def __init__(self, body, header, blocks):
        self.b = body
        self.header = header
        self.blocks = set(blocks)
        self.assumptions = set()
        self._depth = 0
        # definitions by local
        self.adefs = {}
        for bb, i, pl, rv, s in body.assigns():
            if not pl["p"]:
                self.adefs.setdefault(pl["l"], []).append((bb, i, ("rv", rv)))
        for c in body.calls():
            if not c.dest["p"]:
                self.adefs.setdefault(c.dest["l"], []).append((c.bb, 10 ** 6, ("call", c)))
        self.carried = {l for l, ds in self.adefs.items()
                        if any(d[0] in self.blocks for d in ds) and any(d[0] not in self.blocks for d in ds)}

    # ---- helpers
    def _before(self, d, pos):
        """definition d = (bb, idx, _) is executed before position pos on every path of the current iteration"""
        bb, i = pos
        if d[0] == bb:
            return d[1] < i
        return self.b.dominates(d[0], bb)

    def name(self, l):
        return self.b.local_name(l) or "_%d" % l

    # ---- evaluation
    def op(self, op, pos):
        if op.get("k") == "const":
            v = F.const_int(op)
            if v is not None:
                return Lin.const(v)
            d = str(op.get("d") or op.get("v") or "")
            try:
                return Lin.const(Fraction(d.split("_")[0].rstrip("f")))
            except (ValueError, ZeroDivisionError):
                return Lin.sym("const:" + d)
        pl = F.op_place(op)
        if pl is None:
            return Lin.sym("?op")
        return self.place(pl, pos)

    def place(self, pl, pos):
        self._depth += 1
        try:
            if self._depth > 60:
                return Lin.sym("?deep")
            return self._place(pl, pos)
        finally:
            self._depth -= 1

    def _place(self, pl, pos):
        l = pl["l"]
        proj = [e for e in pl["p"] if e["k"] != "deref"]
        fields = [e for e in proj if e["k"] == "field"]
        if len(fields) != len(proj):
            return Lin.sym("?proj:" + pl.get("t", ""))
        b = self.b
        if fields:
            ds = self.adefs.get(l, [])
            if len(ds) == 1:
                bb, i, d = ds[0]
                if d[0] == "rv":
                    rv = d[1]
                    if rv["rv"] == "binop" and rv["op"].endswith("WithOverflow") and fields[0].get("i") == 0 and len(fields) == 1:
                        return self.binop(rv["op"][:-len("WithOverflow")], rv, (bb, i))
                    if rv["rv"] == "aggregate" and rv.get("fields") and fields[0].get("n") in rv["fields"]:
                        inner = self.op(rv["ops"][rv["fields"].index(fields[0]["n"])], (bb, i))
                        return inner if len(fields) == 1 else Lin.sym("?nested")
                    if rv["rv"] == "aggregate" and rv.get("ak") == "tuple" and fields[0].get("i") is not None and fields[0]["i"] < len(rv["ops"]):
                        return self.op(rv["ops"][fields[0]["i"]], (bb, i))
                    if rv["rv"] in ("use", "ref"):
                        src = F.op_place(rv["op"]) if rv["rv"] == "use" else rv["pl"]
                        if src is not None:
                            return self.place({"l": src["l"], "p": list(src["p"]) + proj, "t": ""}, (bb, i))
            root = "self" if (l == 1 and b.local_name(1) == "self") else ("arg:" + self.name(l) if l <= b.nargs else self.name(l))
            return Lin.sym(root + "." + ".".join(str(f.get("n", f.get("i"))) for f in fields))
        # a whole local
        if 1 <= l <= b.nargs and l not in self.adefs:
            return Lin.sym("arg:" + self.name(l))
        ds = self.adefs.get(l, [])
        if not ds:
            return Lin.sym("?undef:" + self.name(l))
        inloop = [d for d in ds if d[0] in self.blocks]
        outside = [d for d in ds if d[0] not in self.blocks]
        if pos[0] in self.blocks:
            dom = [d for d in inloop if self._before(d, pos)]
            maybe = [d for d in inloop if d not in dom and not self._after_on_all_paths(d, pos)]
            if maybe:
                # assigned on some paths to this point only
                return Lin.sym("?cond:" + self.name(l))
            if dom:
                dom.sort(key=lambda d: sum(1 for x in dom if x is not d and self._before(x, (d[0], d[1]))))
                last = dom[-1]
                if all(self._before(x, (last[0], last[1])) for x in dom if x is not last):
                    return self.defn(last)
                return Lin.sym("?multi:" + self.name(l))
            if inloop:
                # assigned only later in the iteration: the value at the header
                return Lin.sym("H:" + self.name(l))
            if len(outside) == 1:
                return self.defn(outside[0])
            return Lin.sym("?multi:" + self.name(l))
        # position outside the loop (initial values)
        cands = [d for d in outside if self._before(d, pos)]
        if len(cands) == 1:
            return self.defn(cands[0])
        return Lin.sym("?init:" + self.name(l))

    def _after_on_all_paths(self, d, pos):
        """d is not executed before pos in this iteration: pos cannot be reached from d without passing the header"""
        if d[0] == pos[0]:
            return d[1] >= pos[1]
        reach = self.b.reach_from(self.b.succ(d[0]), avoid={self.header})
        return pos[0] not in reach

    def defn(self, d):
        bb, i, what = d
        if what[0] == "call":
            return self.call(what[1])
        return self.rvalue(what[1], (bb, i))

    def rvalue(self, rv, pos):
        k = rv["rv"]
        if k == "use":
            return self.op(rv["op"], pos)
        if k == "cast":
            self.assumptions.add("numeric casts are value-preserving")
            return self.op(rv["op"], pos)
        if k == "ref":
            return self.place(rv["pl"], pos)
        if k == "binop":
            o = rv["op"]
            if o.endswith("WithOverflow"):
                return Lin.sym("?checked-tuple")
            return self.binop(o, rv, pos)
        if k == "unop" and rv["op"] == "Neg":
            return self.op(rv["a"], pos).scale(-1)
        return Lin.sym("?rv:" + k)

    def binop(self, o, rv, pos):
        a = self.op(rv["a"], pos)
        c = self.op(rv["b"], pos)
        o = o.replace("Unchecked", "")
        if o == "Add":
            return a.add(c)
        if o == "Sub":
            return a.add(c, -1)
        if o == "Mul":
            if a.is_const():
                return c.scale(a.constant())
            if c.is_const():
                return a.scale(c.constant())
            x, y = sorted([a.render(), c.render()])
            return Lin.sym("mul(%s,%s)" % (x, y))
        if o == "Div":
            if c.is_const() and c.constant() != 0 and a.is_const():
                return Lin.sym("div(%s,%s)" % (a.render(), c.render()))
            return opaque("div", a, c)
        if o == "Rem":
            return opaque("rem", a, c)
        return opaque(o.lower(), a, c)

    def call(self, c):
        pos = (c.bb, 10 ** 6)
        n = c.name()
        args = [self.op(a, pos) for a in c.args]
        if n in TRANSPARENT_CALLS and len(args) == 1:
            return args[0]
        if n == "saturating_sub" and len(args) == 2:
            self.assumptions.add("saturating_sub(a,b) is a-b (clamping at 0 only moves an interval start that precedes the stream origin)")
            return args[0].add(args[1], -1)
        if n in ("wrapping_add", "saturating_add", "checked_add") and len(args) == 2:
            return args[0].add(args[1])
        if n in ("wrapping_sub",) and len(args) == 2:
            return args[0].add(args[1], -1)
        if n in ("unwrap", "expect", "unwrap_or_default") and args:
            return args[0]
        return opaque(n, *args)

    # ---- loop structure
    def exit_switches(self):
        """[(bb, term, exit target, stay target)] for two-way switches with exactly one successor outside the loop"""
        out = []
        for bb, t in self.b.terms():
            if bb not in self.blocks or t["t"] != "switch":
                continue
            succ = self.b.succ(bb)
            outs = [s for s in succ if s not in self.blocks]
            ins = [s for s in succ if s in self.blocks]
            if len(outs) == 1 and len(ins) == 1:
                out.append((bb, t, outs[0], ins[0]))
        return out

    def exit_condition(self, bb, t, exit_target):
        """the exit condition as ('gt0', form, strict_int) meaning: the loop is left through this switch iff form > 0
        (for integer forms `>= 0` is normalised to `form + 1 > 0`); None if the discriminant is not a comparison"""
        dl = F.op_place(t["discr"])
        if dl is None or dl["p"]:
            return None
        ds = [d for d in self.adefs.get(dl["l"], []) if d[2][0] == "rv"]
        if len(ds) != 1 or ds[0][2][1]["rv"] != "binop":
            return None
        dbb, di, (_, rv) = ds[0]
        o = rv["op"]
        if o not in ("Gt", "Ge", "Lt", "Le"):
            return None
        a = self.op(rv["a"], (dbb, di))
        c = self.op(rv["b"], (dbb, di))
        isfloat = "f64" in str(rv["a"].get("ty", "")) + str(rv["b"].get("ty", "")) or any(
            "f64" in self.b.local_ty(F.op_local(x)) or "f32" in self.b.local_ty(F.op_local(x)) for x in (rv["a"], rv["b"]) if F.op_local(x) is not None)
        # which truth value leaves the loop?
        true_exits = None
        for v, tgt in t["targets"]:
            if str(v) == "0":
                true_exits = (tgt != exit_target)
        if true_exits is None:
            return None
        if not true_exits:
            o = {"Gt": "Le", "Ge": "Lt", "Lt": "Ge", "Le": "Gt"}[o]
        if o == "Gt":
            return a.add(c, -1), isfloat, "strict"
        if o == "Lt":
            return c.add(a, -1), isfloat, "strict"
        if o == "Ge":
            f = a.add(c, -1)
        else:
            f = c.add(a, -1)
        if isfloat:
            return f, isfloat, "nonstrict"
        return f.add(Lin.const(1)), isfloat, "strict"

    def sigma(self):
        """header symbol -> its value at the end of an iteration (at the back edge)"""
        out = {}
        latches = [p for p in self.b.pred(self.header) if p in self.blocks]
        for l in self.carried:
            vals = set()
            form = None
            for lt in latches:
                form = self.place({"l": l, "p": [], "t": ""}, (lt, 10 ** 7))
                vals.add(form.render())
            out["H:" + self.name(l)] = form if len(vals) == 1 else Lin.sym("?latch:" + self.name(l))
        return out


def substitute(form, env):
    """replace header symbols inside a form (also inside opaque terms, textually) by their next-iteration value"""
    r = Lin()
    for t, c in form.items():
        if t in env:
            r = r.add(env[t], c)
        else:
            t2 = t
            for k, v in env.items():
                if k in t2:
                    t2 = t2.replace(k, "(" + v.render() + ")")
            r = r.add(Lin({t2: c}))
    return r

"""T-WRITERS / T-LOCKSTEP helpers: who mutably touches a field of an ADT, and with what operation."""
from . import facts as F


class Touch:
    __slots__ = ("body", "bb", "field", "kind", "op", "ln", "call", "place")

    def __init__(self, body, bb, field, kind, op, ln, call=None, place=None):
        self.body = body
        self.bb = bb
        self.field = field
        self.kind = kind    # 'assign' | 'refmut' | 'construct' | 'move'
        self.op = op        # callee short name the &mut flows into (e.g. 'insert', 'clear'), or None
        self.ln = ln
        self.call = call
        self.place = place

    def __repr__(self):
        return "Touch(%s.%s %s op=%s ln=%s)" % (self.body.name, self.field, self.kind, self.op, self.ln)


def _field_in_place(pl, adt, fields):
    """first field of `adt` (in `fields`) projected in place, with its index in the projection list"""
    for i, e in enumerate(pl["p"]):
        if e["k"] == "field" and e.get("adt") == adt and e["n"] in fields:
            return e["n"], i
    return None, None


def consumer_call(body, local, bb):
    """the call in block `bb` (terminator) that takes `local` as an argument, else first call anywhere using it"""
    for c in body.calls():
        if c.bb == bb:
            for a in c.args:
                if F.op_local(a) == local:
                    return c
    for c in body.calls():
        for a in c.args:
            if F.op_local(a) == local:
                return c
    return None


def is_test_body(b):
    """unit tests inside the owner module, integration tests, examples and benches: not shipped code (they may poke private fields)"""
    return "::tests::" in b.key or b.unit.endswith("__test") or "/tests/" in b.file or "/examples/" in b.file or "/benches/" in b.file


def field_touches(prog, adt, fields, bodies=None, include_derived=False, include_tests=False):
    """all mutable touches of adt.fields in the given bodies (default: whole program, without test code)"""
    out = []
    fields = set(fields)
    for b in (bodies if bodies is not None else prog.bodies.values()):
        if b.derived and not include_derived:
            continue
        if not include_tests and is_test_body(b):
            continue
        for bb, i, pl, rv, s in b.assigns():
            f, idx = _field_in_place(pl, adt, fields)
            if f is not None:
                out.append(Touch(b, bb, f, "assign", None, s.get("ln"), place=pl))
            if rv["rv"] in ("ref", "rawptr") and rv.get("bk") in ("mut", "Mut"):
                f, idx = _field_in_place(rv["pl"], adt, fields)
                if f is not None:
                    # follow the temp to the call that consumes it (through reborrows)
                    c = _follow_to_call(b, pl, bb)
                    out.append(Touch(b, bb, f, "refmut", c.name() if c else None, s.get("ln"), call=c, place=rv["pl"]))
            if rv["rv"] == "aggregate" and rv.get("ak") == "adt" and rv.get("adt") == adt:
                for fn in rv.get("fields", []):
                    if fn in fields:
                        out.append(Touch(b, bb, fn, "construct", None, s.get("ln")))
            # moving a field out (e.g. mem::take is a refmut; plain move of a field)
            for op in F.rv_operands(rv):
                if op.get("k") == "move":
                    f, idx = _field_in_place(op["pl"], adt, fields)
                    if f is not None and idx == len(op["pl"]["p"]) - 1:
                        out.append(Touch(b, bb, f, "move", None, s.get("ln"), place=op["pl"]))
        for c in b.calls():
            # call result stored directly into the field: treated as assign
            f, idx = _field_in_place(c.dest, adt, fields)
            if f is not None:
                out.append(Touch(b, c.bb, f, "assign", None, c.ln, place=c.dest))
    return out


def _follow_to_call(body, pl, bb, depth=0):
    """follow a &mut temporary (possibly reborrowed) to the call that consumes it"""
    if pl["p"] or depth > 6:
        return None
    l = pl["l"]
    c = consumer_call(body, l, bb)
    if c is not None:
        return c
    # reborrow: _y = &mut (*_x)
    for bb2, i, pl2, rv2, s2 in body.assigns():
        if rv2["rv"] in ("ref", "use", "cast"):
            src = rv2.get("pl") or F.op_place(rv2.get("op") or {})
            if src is not None and src["l"] == l and all(e["k"] == "deref" for e in src["p"]):
                r = _follow_to_call(body, pl2, bb2, depth + 1)
                if r is not None:
                    return r
    return None


def lockstep_violations(body, touches, fields):
    """T-LOCKSTEP, path-sensitive: for each touch t of field f and each other field g there must be no
    entry->t->exit path avoiding every touch of g. Returns list of (touch, missing_field)."""
    fields = list(fields)
    blocks_of = {f: set() for f in fields}
    for t in touches:
        if t.body is body and t.kind in ("assign", "refmut", "move"):
            blocks_of[t.field].add(t.bb)
    exits = set(body.exits())
    out = []
    for t in touches:
        if t.body is not body or t.kind not in ("assign", "refmut", "move"):
            continue
        for g in fields:
            if g == t.field:
                continue
            gb = blocks_of[g]
            if t.bb in gb:
                continue
            pre = body.reach_from([0], avoid=gb)
            if t.bb not in pre:
                continue   # every path to t already touched g
            post = body.reach_from([t.bb], avoid=gb)
            if post & exits:
                out.append((t, g))
    return out

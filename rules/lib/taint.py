"""T-TAINT: forward, flow-insensitive, local-granular label propagation over a body and its closures.

Variables are (body key, local index) and (closure key, 'up', i) for captured variables. Labels are opaque
hashable values. Over-approximating (smears over projections): sound for "must not reach" rules; for
"must reach" rules it is used only as a necessary condition together with dominance facts.
"""
from collections import defaultdict
from . import facts as F


def _is_mut_ref(ty):
    return ty.startswith("&mut ") or ty.startswith("&'") and " mut " in ty.split(" ", 2)[1:2].__str__()


class Taint:
    def __init__(self, prog, root, summaries=None, follow_calls=None):
        """summaries: callable(Call) -> None (default propagation) | 'clean' | ('only', [arg indexes])
        follow_calls: optional callable(Call)->Body to inline workspace callees (args->params, ret->dest)."""
        self.prog = prog
        self.root = root
        self.bodies = prog.family(root.key)
        self.keys = {b.key for b in self.bodies}
        self.summaries = summaries
        self.follow = follow_calls
        self.t = defaultdict(set)
        self.parents = defaultdict(set)     # a borrowed view (Entry, &mut V, guard) -> the variables it was borrowed from
        self.extra_bodies = {}

    def seed(self, body, local, label):
        self.t[(body.key, local)].add(label)

    def seed_up(self, closure, i, label):
        self.t[(closure.key, "up", i)].add(label)

    def get(self, body, local):
        return self.t.get((body.key, local), set())

    # -- reading a place
    def _var_of_place(self, b, pl):
        if b.is_closure and pl["l"] == 1:
            for e in pl["p"]:
                if e["k"] == "field":
                    return (b.key, "up", e["i"])
                if e["k"] != "deref":
                    break
        return (b.key, pl["l"])

    def _read(self, b, pl):
        s = set(self.t.get(self._var_of_place(b, pl), ()))
        for e in pl["p"]:
            if e["k"] == "index":
                s |= self.t.get((b.key, e["i"]), set())
        return s

    def op_taint(self, b, op):
        pl = F.op_place(op)
        if pl is None:
            return set()
        return self._read(b, pl)

    def _add(self, var, labels):
        if not labels:
            return False
        cur = self.t[var]
        n = len(cur)
        cur |= labels
        changed = len(cur) != n
        # what is stored through a borrowed view (map.entry(k).or_insert_with(f), *map.get_mut(k) = v) is stored in its owner
        if var in self.parents:
            seen, work = {var}, list(self.parents[var])
            while work:
                p = work.pop()
                if p in seen:
                    continue
                seen.add(p)
                pc = self.t[p]
                m = len(pc)
                pc |= labels
                changed = changed or len(pc) != m
                work.extend(self.parents.get(p, ()))
        return changed

    _VIEW_TYPES = ("Entry<", "RefMut<", "Guard<", "IterMut<", "ValuesMut<")

    def _is_view(self, ty):
        return ty.startswith("&mut") or any(k in ty for k in self._VIEW_TYPES)

    def _closure_of(self, b, op):
        """closure body if the operand is (a reference to) a closure value created in b"""
        if op.get("k") == "const" and op.get("closure"):
            return self.prog.bodies.get(op["closure"])
        pl = F.op_place(op)
        if pl is None:
            return None
        ty = b.local_ty(pl["l"])
        if "{closure" not in ty:
            return None
        o = b.origin(op, stop_named=False)
        if o[0] == "rv" and o[1]["rv"] == "aggregate" and o[1].get("ak") == "closure":
            return self.prog.bodies.get(o[1]["closure"])
        if o[0] == "place":
            d = b.single_def(o[1]["l"])
            if d and d[0] == "assign" and d[3]["rv"] == "aggregate" and d[3].get("ak") == "closure":
                return self.prog.bodies.get(d[3]["closure"])
        return None

    def run(self):
        bodies = list(self.bodies)
        changed = True
        it = 0
        while changed and it < 60:
            changed = False
            it += 1
            for b in list(bodies):
                for bb, i, pl, rv, s in b.assigns():
                    labels = set()
                    for p, kind in F.rv_places(rv):
                        labels |= self._read(b, p)
                    if rv["rv"] == "aggregate" and rv.get("ak") == "closure":
                        c = self.prog.bodies.get(rv["closure"])
                        if c is not None:
                            for j, op in enumerate(rv["ops"]):
                                if self._add((c.key, "up", j), self.op_taint(b, op)):
                                    changed = True
                            labels |= self.t.get((c.key, 0), set())
                    if rv["rv"] in ("use", "cast", "ref", "rawptr") and not pl["p"]:
                        src = F.op_place(rv["op"]) if rv["rv"] in ("use", "cast") else rv["pl"]
                        if src is not None:
                            sv = self._var_of_place(b, src)
                            ps = set(self.parents.get(sv, ()))
                            if rv["rv"] in ("ref", "rawptr") and rv.get("bk") in ("mut", "Mut"):
                                ps.add(sv)
                            dv = self._var_of_place(b, pl)
                            if ps - self.parents[dv] - {dv}:
                                self.parents[dv] |= ps - {dv}
                                changed = True
                    if self._add(self._var_of_place(b, pl), labels):
                        changed = True
                    if labels and pl["p"] and pl["p"][0]["k"] == "deref":
                        # store through a pointer: whatever the pointer was derived from holds the value too
                        # (vec![x] writes through a raw copy of the box pointer)
                        for src in self._ptr_sources(b, pl["l"]):
                            if self._add((b.key, src), labels):
                                changed = True
                for c in b.calls():
                    summ = self.summaries(c) if self.summaries else None
                    arg_t = [self.op_taint(b, a) for a in c.args]
                    # closures passed to the call: their parameters see the other arguments, their result joins
                    cl_ret = set()
                    for j, a in enumerate(c.args):
                        cb = self._closure_of(b, a)
                        if cb is not None:
                            others = set()
                            for k2, t2 in enumerate(arg_t):
                                if k2 != j:
                                    others |= t2
                            for pl_i in range(2, cb.nargs + 1):
                                if self._add((cb.key, pl_i), others):
                                    changed = True
                            cl_ret |= self.t.get((cb.key, 0), set())
                            if cb.key not in self.keys:
                                self.keys.add(cb.key)
                                bodies.append(cb)
                    if summ == "clean":
                        continue
                    callee = self.follow(c) if self.follow else None
                    if callee is not None:
                        if callee.key not in self.keys:
                            self.keys.add(callee.key)
                            fam = self.prog.family(callee.key)
                            bodies.extend(x for x in fam if x.key not in {y.key for y in bodies})
                            for x in fam:
                                self.keys.add(x.key)
                        for j, tset in enumerate(arg_t):
                            if self._add((callee.key, j + 1), tset):
                                changed = True
                        labels = set(self.t.get((callee.key, 0), set()))
                    else:
                        labels = set()
                        if isinstance(summ, tuple) and summ[0] == "only":
                            for j in summ[1]:
                                if j < len(arg_t):
                                    labels |= arg_t[j]
                        else:
                            for tset in arg_t:
                                labels |= tset
                        labels |= cl_ret
                        # &mut arguments receive the union as well (callee may store into them)
                        for j, a in enumerate(c.args):
                            pl = F.op_place(a)
                            if pl is not None and b.local_ty(pl["l"]).startswith("&mut"):
                                tgt = self._mut_target(b, a)
                                for v in tgt:
                                    if self._add(v, labels):
                                        changed = True
                    if not c.dest["p"] and self._is_view(b.local_ty(c.dest["l"])):
                        dv = self._var_of_place(b, c.dest)
                        ps = set()
                        for a in c.args:
                            apl = F.op_place(a)
                            if apl is None:
                                continue
                            av = self._var_of_place(b, apl)
                            if self._is_view(b.local_ty(apl["l"])):
                                ps.add(av)
                                ps |= set(self._mut_target(b, a))
                            ps |= self.parents.get(av, set())
                        ps.discard(dv)
                        if ps - self.parents[dv]:
                            self.parents[dv] |= ps
                            changed = True
                    if self._add(self._var_of_place(b, c.dest), labels):
                        changed = True
        return self

    def _ptr_sources(self, b, l):
        out = []
        seen = set()
        cur = l
        for _ in range(8):
            if cur in seen:
                break
            seen.add(cur)
            full = [d for d in b.defs().get(cur, []) if d[0] in ("assign", "call", "arg")]
            if len(full) != 1 or full[0][0] != "assign":
                break
            rv = full[0][3]
            src = None
            if rv["rv"] in ("use", "cast"):
                src = F.op_place(rv["op"])
            elif rv["rv"] in ("ref", "rawptr"):
                src = rv["pl"]
            if src is None:
                break
            out.append(src["l"])
            cur = src["l"]
        return out

    def _mut_target(self, b, op):
        """variables a &mut argument may point to: the temp itself and the place it borrows"""
        out = []
        pl = F.op_place(op)
        if pl is None:
            return out
        out.append(self._var_of_place(b, pl))
        seen = set()
        cur = pl
        while cur is not None and not cur["p"] and cur["l"] not in seen:
            seen.add(cur["l"])
            d = b.single_def(cur["l"])
            if not d or d[0] != "assign":
                break
            rv = d[3]
            if rv["rv"] == "ref":
                out.append(self._var_of_place(b, rv["pl"]))
                cur = {"l": rv["pl"]["l"], "p": []} if all(e["k"] == "deref" for e in rv["pl"]["p"]) else None
            elif rv["rv"] == "use" and F.op_place(rv["op"]) is not None:
                cur = F.op_place(rv["op"])
                out.append(self._var_of_place(b, cur))
            else:
                break
        return out

"""Demand-driven abstract interpreter over MIR for *navigation* of nested maps.

Abstract values (tuples):
  ('sym', text)                 a scalar whose origin is the access path `text`
  ('nav', field, keys)          the map/set reached from index field `field` after applying `keys`
  ('opt', v) ('entry', v) ('iter', v)
  ('item', nav)                 (key, value) pair while iterating the map `nav`
  ('key', nav)                  the key variable at the level of `nav` while iterating it
  ('elem', nav)                 an element of the leaf set `nav`
  ('struct', adt, {field: v})   aggregate
  ('top',)
References are transparent. Values are computed lazily per (context, local); contexts bind parameters of
helpers to the caller's values and closure captures to the creator's values, so every key is expressed in
terms of the outermost body.
"""
from . import facts as F

TOP = ("top",)


class Ctx:
    def __init__(self, interp, body, params=None, creator=None, closure_rv=None, consumer=None, label=None):
        self.I = interp
        self.body = body
        self.params = params or {}       # local -> value
        self.creator = creator           # Ctx that created this closure
        self.closure_rv = closure_rv     # aggregate rvalue creating the closure (ops = captures)
        self.consumer = consumer         # (Call, arg index) in creator that consumes the closure
        self.memo = {}
        self.busy = set()
        self.label = label or body.name
        self.caller = None

    # ---- values
    def val(self, l):
        if l in self.memo:
            return self.memo[l]
        if l in self.busy:
            return TOP
        self.busy.add(l)
        try:
            v = self._val(l)
        finally:
            self.busy.discard(l)
        self.memo[l] = v
        return v

    def _val(self, l):
        b = self.body
        if l in self.params:
            return self.params[l]
        if 1 <= l <= b.nargs:
            if b.is_closure and l == 1:
                return ("env",)
            if b.is_closure and l >= 2:
                return self._closure_arg(l)
            nm = b.local_name(l) or ("arg%d" % l)
            return ("sym", "%s::%s" % (b.name, nm))
        ds = b.defs().get(l, [])
        vals = []
        for d in ds:
            if d[0] == "assign":
                vals.append(self.rvalue(d[3]))
            elif d[0] == "call":
                vals.append(self.call_result(d[2]))
            elif d[0] in ("partial", "partial_call"):
                continue
        if not vals:
            return TOP
        v = vals[0]
        for x in vals[1:]:
            if x != v:
                return TOP
        return v

    def place(self, pl):
        b = self.body
        if b.is_closure and pl["l"] == 1:
            # captured variable
            projs = list(pl["p"])
            while projs and projs[0]["k"] == "deref":
                projs.pop(0)
            if projs and projs[0]["k"] == "field":
                v = self._upvar(projs[0]["i"])
                return self.project(v, projs[1:])
            return TOP
        return self.project(self.val(pl["l"]), pl["p"])

    def project(self, v, projs):
        for e in projs:
            k = e["k"]
            if k == "deref":
                continue
            if k == "downcast":
                if v[0] == "sym":
                    v = ("sym", "%s as %s" % (v[1], e["n"]))
                # opt/struct: keep
                continue
            if k == "field":
                if v[0] == "opt":
                    v = v[1]
                elif v[0] == "item":
                    nav = v[1]
                    if e["i"] == 0:
                        v = ("key", nav)
                    elif e["i"] == 1:
                        v = ("nav", nav[1], nav[2] + (("key", nav),))
                    else:
                        v = TOP
                elif v[0] == "struct":
                    v = dict(v[2]).get(e["n"], TOP)
                elif v[0] == "sym":
                    adt = e.get("adt")
                    if adt:
                        v = ("sym", "%s.<%s::%s>" % (v[1], adt.rsplit("::", 1)[-1], e["n"]))
                    else:
                        v = ("sym", "%s.%s" % (v[1], e["n"]))
                elif v[0] == "self" and e.get("adt") == self.I.adt and e["n"] in self.I.fields:
                    v = ("nav", e["n"], ())
                elif v[0] == "self":
                    v = ("sym", "self.%s" % e["n"])
                else:
                    v = TOP
                continue
            v = TOP
        return v

    def operand(self, op):
        pl = F.op_place(op)
        if pl is None:
            if op.get("k") == "const":
                return ("const", op.get("d") or op.get("v") or op.get("fn") or "?")
            return TOP
        return self.place(pl)

    def rvalue(self, rv):
        k = rv["rv"]
        if k == "use":
            return self.operand(rv["op"])
        if k in ("ref", "rawptr"):
            return self.place(rv["pl"])
        if k == "cast":
            return self.operand(rv["op"])
        if k == "aggregate":
            ak = rv.get("ak")
            if ak == "adt":
                names = rv.get("fields", [])
                vals = [self.operand(o) for o in rv["ops"]]
                if rv.get("variant") == "Some" and rv["adt"].endswith("option::Option") and vals:
                    return ("opt", vals[0])
                return ("struct", rv["adt"], tuple(zip(names, vals)))
            if ak == "tuple":
                return ("struct", None, tuple((str(i), self.operand(o)) for i, o in enumerate(rv["ops"])))
            if ak == "closure":
                return ("closure", rv["closure"])
        return TOP

    # ---- closures
    def _upvar(self, i):
        if self.creator is None or self.closure_rv is None:
            return TOP
        ops = self.closure_rv["ops"]
        if i >= len(ops):
            return TOP
        return self.creator.operand(ops[i])

    def _closure_arg(self, l):
        """value of closure parameter `l` from the call that consumes the closure"""
        if self.creator is None or self.consumer is None or l != 2:
            return TOP
        call, idx = self.consumer
        nm = call.name()
        recv = self.creator.operand(call.args[0]) if idx != 0 and call.args else TOP
        if recv[0] == "opt" and nm in ("and_then", "map", "is_some_and", "is_none_or", "filter", "map_or", "map_or_else", "inspect"):
            return recv[1]
        if recv[0] == "iter" and nm in ("map", "filter", "for_each", "flat_map", "filter_map", "any", "all", "find",
                                         "inspect", "take_while", "skip_while", "position"):
            return recv[1]
        return TOP

    def child_closure(self, closure_key, rv, consumer):
        cb = self.I.prog.bodies.get(closure_key)
        if cb is None:
            return None
        key = ("cl", id(self), closure_key)
        c = self.I.ctxs.get(key)
        if c is None:
            c = Ctx(self.I, cb, creator=self, closure_rv=rv, consumer=consumer, label=self.label + "/" + cb.name)
            self.I.ctxs[key] = c
        return c

    def closure_ctx_of_operand(self, op, consumer):
        """Ctx of the closure value passed as operand (created in this body)"""
        b = self.body
        if op.get("k") == "const" and op.get("closure"):
            return self.child_closure(op["closure"], {"ops": []}, consumer)
        pl = F.op_place(op)
        if pl is None:
            return None
        if "{closure" not in b.local_ty(pl["l"]):
            return None
        cur = pl["l"]
        for _ in range(8):
            d = b.single_def(cur)
            if not d or d[0] != "assign":
                return None
            rv = d[3]
            if rv["rv"] == "aggregate" and rv.get("ak") == "closure":
                return self.child_closure(rv["closure"], rv, consumer)
            nxt = rv.get("pl") or F.op_place(rv.get("op") or {})
            if nxt is None:
                return None
            cur = nxt["l"]
        return None

    # ---- calls
    def call_result(self, c):
        nm = c.name()
        args = c.args
        if not args:
            return TOP
        recv = self.operand(args[0])
        I = self.I
        # workspace helper: evaluate its return value in a bound context
        if c.key in I.prog.bodies and I.follow(c):
            child = self.child_call(c)
            return child.val(0) if child else TOP
        if nm in ("deref", "deref_mut", "borrow", "borrow_mut", "as_ref", "as_mut", "clone", "copied", "cloned",
                  "into_iter", "by_ref", "as_deref", "as_deref_mut", "peekable", "rev", "fuse") and len(args) == 1:
            if nm in ("into_iter",) and recv[0] == "nav":
                return ("iter", self._iter_item(recv, args[0]))
            return recv
        if recv[0] == "nav":
            if nm in ("get", "get_mut") and len(args) == 2:
                return ("opt", ("nav", recv[1], recv[2] + (self.operand(args[1]),)))
            if nm == "entry" and len(args) == 2:
                return ("entry", ("nav", recv[1], recv[2] + (self.operand(args[1]),)))
            if nm in ("iter", "iter_mut", "into_iter", "drain"):
                return ("iter", self._iter_item(recv, args[0]))
            if nm == "keys":
                return ("iter", ("key", recv))
            if nm in ("values", "values_mut"):
                return ("iter", ("nav", recv[1], recv[2] + (("key", recv),)))
            return TOP
        if recv[0] == "entry" and nm in ("or_default", "or_insert", "or_insert_with", "or_insert_with_key"):
            return recv[1]
        if recv[0] == "opt":
            if nm in ("and_then",) and len(args) == 2:
                cc = self.closure_ctx_of_operand(args[1], (c, 1))
                return cc.val(0) if cc else TOP
            if nm in ("map",) and len(args) == 2:
                cc = self.closure_ctx_of_operand(args[1], (c, 1))
                return ("opt", cc.val(0)) if cc else TOP
            if nm in ("unwrap", "expect", "unwrap_or_default", "unwrap_unchecked"):
                return recv[1]
            if nm in ("filter", "inspect"):
                return recv
            if nm == "branch":
                return ("struct", None, (("0", recv[1]),))
            return TOP
        if recv[0] == "iter":
            if nm == "next":
                return ("opt", recv[1])
            if nm in ("filter", "inspect", "take", "skip", "take_while", "skip_while", "chain"):
                return recv
            if nm == "map" and len(args) == 2:
                cc = self.closure_ctx_of_operand(args[1], (c, 1))
                return ("iter", cc.val(0)) if cc else TOP
            return TOP
        return TOP

    def _iter_item(self, nav, op):
        pl = F.op_place(op)
        ty = self.body.local_ty(pl["l"]) if pl is not None else ""
        core = ty.lstrip("&").replace("mut ", "").strip()
        if core.startswith("std::collections::hash::set::HashSet") or core.startswith("std::collections::HashSet"):
            return ("elem", nav)
        return ("item", nav)

    def child_call(self, c):
        cb = self.I.prog.bodies.get(c.key)
        if cb is None:
            return None
        vals = tuple(self.operand(a) for a in c.args)
        key = ("call", id(self), c.bb, c.key)
        ch = self.I.ctxs.get(key)
        if ch is None:
            params = {i + 1: v for i, v in enumerate(vals)}
            ch = Ctx(self.I, cb, params=params, label=self.label + ">" + cb.name)
            ch.caller = self
            self.I.ctxs[key] = ch
        return ch


class Interp:
    def __init__(self, prog, adt, fields, follow):
        self.prog = prog
        self.adt = adt
        self.fields = set(fields)
        self.follow = follow      # Call -> bool: descend into this workspace callee
        self.ctxs = {}
        self.events = []

    def root(self, body, self_local=1):
        params = {}
        if body.self_adt == self.adt and body.nargs >= 1 and self.adt.rsplit("::", 1)[-1] in body.local_ty(1):
            params[1] = ("self",)
        c = Ctx(self, body, params=params)
        self.ctxs[("root", body.key)] = c
        return c

    def scan(self, ctx, depth=0, seen=None):
        """collect events in ctx and every closure / followed helper reachable from it"""
        if seen is None:
            seen = set()
        if id(ctx) in seen or depth > 12:
            return
        seen.add(id(ctx))
        b = ctx.body
        for c in b.calls():
            nm = c.name()
            vals = [ctx.operand(a) for a in c.args]
            if vals and vals[0][0] == "nav":
                self.events.append({"kind": "op", "op": nm, "nav": vals[0], "args": vals[1:], "ctx": ctx, "call": c})
            if c.key in self.prog.bodies and self.follow(c) and any(v[0] in ("nav", "opt", "iter") for v in vals):
                ch = ctx.child_call(c)
                if ch:
                    self.scan(ch, depth + 1, seen)
            for j, a in enumerate(c.args):
                cc = ctx.closure_ctx_of_operand(a, (c, j))
                if cc is not None:
                    self.scan(cc, depth + 1, seen)
        for bb, i, pl, rv, s in b.assigns():
            if rv["rv"] == "aggregate" and rv.get("ak") == "adt":
                vals = ctx.rvalue(rv)
                if vals[0] == "struct":
                    self.events.append({"kind": "agg", "adt": rv["adt"], "fields": dict(vals[2]), "ctx": ctx, "ln": s.get("ln"),
                                        "bb": bb})

"""T-DEPTH: trees whose depth grows with the input are bounded where they are built.

Every consumer of a recursive type (Box<Self> somewhere inside) walks it recursively - the derived Drop does - so a tree of depth n costs
n stack frames somewhere. Recursion that builds such a tree is bounded by the recursion guard (rule: cycles contain a guard); what remains is
iteration that deepens: a loop whose loop-carried accumulator is wrapped into a new node of the same recursive type each turn
(`acc = Node(Box::new(acc), x)` / `acc = T::join(acc, x)`). The rule: every such loop charges a budget in the turn - a call to a function that
advances a counter, compares it with a constant and fails - and the charge dominates the wrap.
"""
import re
from . import facts as F


def recursive_adts(prog):
    out = set()
    for k, a in prog.adts.items():
        for v in a.get("variants", []):
            for f in v["fields"]:
                if re.search(r"Box<%s\b" % re.escape(k), f["ty"]):
                    out.add(k)
    return out


def _base(t):
    t = t.strip()
    return re.sub(r"<.*", "", t)


def deepening_loops(b, rec):
    """[(loop header, blocks, local, name, block of the wrapping definition, how)]: in the loop the named local of a recursive type is
    re-assigned from a value computed (inside the loop) from itself"""
    res = []
    loops = b.loops()
    items = loops.items() if isinstance(loops, dict) else loops
    defs = b.defs()
    for h, blocks in items:
        for l in range(1, len(b.locals)):
            if _base(b.local_ty(l)) not in rec or not b.local_name(l):
                continue
            for d in defs.get(l, []):
                if d[0] not in ("assign", "call") or d[1] not in blocks:
                    continue
                if d[0] == "call":
                    src = [F.op_place(a) for a in d[2].args]
                    how = d[2].name()
                else:
                    src = [p for p, k in F.rv_places(d[3])]
                    how = "aggregate"
                hit = False
                seen = set()
                stack = [p["l"] for p in src if p is not None]
                ctors = [how] if d[0] == "call" else []
                while stack and not hit:
                    x = stack.pop()
                    if x in seen:
                        continue
                    seen.add(x)
                    if x == l:
                        hit = True
                        break
                    if b.local_name(x):
                        continue
                    for d2 in defs.get(x, []):
                        if d2[1] not in blocks:
                            continue
                        if d2[0] == "assign":
                            stack += [q["l"] for q, k in F.rv_places(d2[3])]
                        elif d2[0] == "call":
                            stack += [F.op_place(a)["l"] for a in d2[2].args if F.op_place(a)]
                            if _base(b.local_ty(d2[2].dest["l"])) == _base(b.local_ty(l)):
                                ctors.append(d2[2].name())
                if hit:
                    if not ctors and d[0] == "assign":
                        ctors = [rv.get("variant") for rv in [d[3]] if rv.get("variant")]
                        for x in seen:
                            for d2 in defs.get(x, []):
                                if d2[0] == "assign" and d2[1] in blocks and d2[3]["rv"] == "aggregate" and d2[3].get("variant"):
                                    ctors.append(d2[3]["variant"])
                    res.append((h, blocks, l, b.local_name(l), d[1], "/".join(sorted(set(c for c in ctors if c))) or how))
    # one entry per (innermost loop, local)
    best = {}
    for h, blocks, l, nm, bb, how in res:
        k = (l, bb)
        if k not in best or len(blocks) < len(best[k][1]):
            best[k] = (h, blocks, l, nm, bb, how)
    return sorted(best.values(), key=lambda t: (t[0], t[2], t[4]))


def _constish(x, op, depth=0):
    """a constant, or arithmetic over constants (`LIMIT + 1` is not folded in the MIR we read)"""
    if op.get("k") == "const":
        return True
    pl = F.op_place(op)
    if pl is None or depth > 4:
        return False
    if any(e["k"] not in ("field",) for e in pl["p"]):
        return False
    ds = x.defs().get(pl["l"], [])
    if len(ds) != 1 or ds[0][0] != "assign":
        return False
    rv = ds[0][3]
    if rv["rv"] == "use":
        return _constish(x, rv["op"], depth + 1)
    if rv["rv"] in ("binop", "checked_binop"):
        return _constish(x, rv["a"], depth + 1) and _constish(x, rv["b"], depth + 1)
    if rv["rv"] == "cast":
        return _constish(x, rv["op"], depth + 1)
    return False


def is_budget_fn(prog, b):
    """advances a counter (a `&mut usize` parameter, a Cell or an atomic), compares a count with a constant or const item, and can fail"""
    if b.is_closure:
        return False
    fam = prog.family(b.key)
    counts = False
    cmpc = False
    fails = False
    for x in fam:
        for c in x.calls():
            nm = c.name()
            if nm in ("set", "fetch_add", "replace", "update") and ("Cell" in (c.key or "") or "Atomic" in (c.key or "") or "cell" in (c.key or "")
                                                                    or "atomic" in (c.key or "")):
                counts = True
        for bb, i, pl, rv, st in x.assigns():
            if rv["rv"] in ("binop", "checked_binop") and rv["op"] in ("Add", "AddWithOverflow", "AddUnchecked"):
                # through a &mut parameter
                if any(e["k"] == "deref" for e in pl["p"]):
                    counts = True
            if any(e["k"] == "deref" for e in pl["p"]) and rv["rv"] == "use":
                o = F.op_place(rv.get("op") or {})
                if o is not None:
                    d = x.single_def(o["l"])
                    dsall = x.defs().get(o["l"], [])
                    if d is None and len(dsall) == 1:
                        d = dsall[0]
                    if d and d[0] == "call" and d[2].name() in ("saturating_add", "wrapping_add", "checked_add", "add", "saturating_sub", "checked_sub"):
                        counts = True
                    if d and d[0] == "assign" and d[3]["rv"] in ("binop", "checked_binop") and d[3]["op"].startswith("Add"):
                        counts = True
                    # checked add: field 0 of the (value, overflow) pair
                    if o["p"] and d is None:
                        counts = True
            if rv["rv"] == "binop" and rv["op"] in ("Gt", "Ge", "Lt", "Le"):
                for side in ("a", "b"):
                    if _constish(x, rv[side]):
                        cmpc = True
            if rv["rv"] == "aggregate" and rv.get("variant") in ("Err", "Failure", "Error"):
                fails = True
    return counts and cmpc and fails


def budget_fns(prog, pred=None):
    out = set()
    for k, b in prog.bodies.items():
        if b.crate not in ("kolibrie", "shared", "datalog", "rsp"):
            continue
        if pred is not None and not pred(b):
            continue
        try:
            if is_budget_fn(prog, b):
                out.add(k)
        except Exception:
            continue
    return out


def persistent(prog, fns):
    """the charging functions whose charge outlives the call: they hand back no guard object (`Result<(), E>`), so nothing releases the charge
    when they return. A recursion guard (RAII) bounds what is open at one time, not how much has been built."""
    return {k for k in fns if re.match(r"^(core::result::)?Result<\(\), ", prog.bodies[k].local_ty(0))}


def _result_decides(b, c, blocks, wrap_bb, h):
    """the value the charge returns is inspected (`?`, is_err, match) and one outcome leaves the turn without reaching the wrap"""
    if c.dest is None:
        return False
    S = {c.dest["l"]}
    changed = True
    while changed:
        changed = False
        for c2 in b.calls():
            if c2.name() in ("branch", "is_err", "is_ok", "as_ref", "err", "ok", "is_some", "is_none") and c2.dest is not None and c2.dest["l"] not in S:
                if any((F.op_place(a) or {}).get("l") in S for a in c2.args):
                    S.add(c2.dest["l"])
                    changed = True
        for bb, i, pl, rv, st in b.assigns():
            if pl["l"] in S:
                continue
            if any(q["l"] in S for q, k in F.rv_places(rv)):
                S.add(pl["l"])
                changed = True
    for i, blk in enumerate(b.blocks):
        t = blk["term"]
        if t["t"] != "switch" or i not in blocks:
            continue
        d = F.op_place(t.get("discr") or {})
        if d is None or d["l"] not in S:
            continue
        for s2 in b.succ(i):
            if b.blocks[s2]["term"]["t"] == "unreachable":
                continue
            r = b.reach_from([s2], avoid=(h,)) | {s2}
            if wrap_bb not in r:
                return True
    return False


def loop_charged(b, h, blocks, wrap_bb, budgets):
    """a budget call inside the loop dominates the wrap, and its failure leaves the turn before the wrap"""
    for c in b.calls():
        if c.bb not in blocks or c.key not in budgets:
            continue
        if not (b.dominates(c.bb, wrap_bb) or c.bb == wrap_bb):
            continue
        if _result_decides(b, c, blocks, wrap_bb, h):
            return c
    return None


def _guard_types(prog):
    return {i["self_adt"] for i in prog.impls if i.get("trait") == "core::ops::drop::Drop" and i.get("self_adt")}


def charging_fns(prog, pred=None):
    """budget functions, and the wrappers that always go through one (the call dominates every exit of the wrapper) and hand the charge to their
    caller: they return `Result<(), E>` (the charge persists) or a guard object whose Drop releases it (the charge lasts as long as the caller
    keeps the guard). A function that merely calls a guarded function gives its caller nothing: the guard is gone when it returns."""
    out = set(budget_fns(prog, pred))
    guards = _guard_types(prog)

    def hands_over(b):
        t = b.local_ty(0)
        if re.match(r"^(core::result::)?Result<\(\), ", t):
            return True
        m = re.match(r"^(?:core::result::)?Result<([\w:]+)", t)
        g = m.group(1) if m else _base(t)
        return g in guards

    changed = True
    while changed:
        changed = False
        for k, b in prog.bodies.items():
            if k in out or b.is_closure or b.crate not in ("kolibrie", "shared", "datalog", "rsp"):
                continue
            if pred is not None and not pred(b):
                continue
            if not hands_over(b):
                continue
            cs = [c for c in b.calls() if c.key in out]
            if not cs:
                continue
            exits = [e for e in b.exits()]
            if exits and any(all(b.dominates(c.bb, e) or c.bb == e for e in exits) for c in cs):
                out.add(k)
                changed = True
    return out

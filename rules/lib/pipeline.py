"""Iterator / collection pipelines read backwards from a use (T-PIPE).

`tree(b, op)`        the adaptor chain that produces an iterator or collection operand, as a nested node:
                        {'k': 'call', 'name': str, 'call': Call, 'in': [node, ...]}      (in[0] = receiver; chain/zip/extend: also arg 1)
                        {'k': 'root', 'local': int, 'name': str|None, 'fields': [str], 'body': Body}
                        {'k': 'const'} / {'k': 'other', 'why': str}
`flat(node)`         (list of adaptor names in receiver order, list of root nodes left-to-right)
`derives(prog,b,l)`  what a local is computed from, transitively through every definition: set of
                        ('param', name) | ('call', callee name) | ('field', 'a.b') | ('const',)
`loop_driver(b, bb)` for the innermost natural loop containing bb: the node tree of the iterator whose `next()` drives it
Nothing is executed; everything is read from MIR def-use facts.
"""
from . import facts as F

SECOND_INPUT = {"chain", "zip", "extend", "union", "intersection", "difference", "symmetric_difference", "append", "merge"}
WRAPPERS = {"unwrap", "expect", "deref", "deref_mut", "as_ref", "as_mut", "borrow", "borrow_mut", "clone", "into", "from", "lock", "read", "write"}


def tree(b, op, depth=0, stop_named=True):
    if depth > 40:
        return {"k": "other", "why": "depth"}
    if op.get("k") == "const":
        return {"k": "const"}
    pl = F.op_place(op) if "k" in op else op
    if pl is None:
        return {"k": "other", "why": "operand"}
    o = b.origin({"k": "copy", "pl": pl}, stop_named=stop_named)
    if o[0] == "call":
        c = o[1]
        ins = []
        if c.args:
            ins.append(tree(b, c.args[0], depth + 1, stop_named))
            if c.name() in SECOND_INPUT and len(c.args) > 1:
                ins.append(tree(b, c.args[1], depth + 1, stop_named))
        return {"k": "call", "name": c.name(), "call": c, "in": ins}
    if o[0] == "place":
        p = o[1]
        l = p["l"]
        if not stop_named or b.local_name(l) is None:
            # an unnamed multi-def temp: look through a unique call def
            ds = [d for d in b.defs().get(l, []) if d[0] in ("call", "assign")]
            if len(ds) == 1 and ds[0][0] == "call" and not [e for e in p["p"] if e["k"] not in ("deref",)]:
                c = ds[0][2]
                ins = []
                if c.args:
                    ins.append(tree(b, c.args[0], depth + 1, stop_named))
                    if c.name() in SECOND_INPUT and len(c.args) > 1:
                        ins.append(tree(b, c.args[1], depth + 1, stop_named))
                return {"k": "call", "name": c.name(), "call": c, "in": ins}
        return {"k": "root", "local": l, "name": b.local_name(l), "fields": [e["n"] for e in p["p"] if e["k"] == "field"], "body": b}
    if o[0] == "const":
        return {"k": "const"}
    return {"k": "other", "why": o[1].get("rv", "?") if isinstance(o[1], dict) else "?"}


def flat(node):
    names, roots = [], []

    def walk(n):
        if n["k"] == "call":
            for i in n["in"]:
                walk(i)
            names.append(n["name"])
        elif n["k"] == "root":
            roots.append(n)
        else:
            roots.append(n)
    walk(node)
    return names, roots


def render(node):
    if node["k"] == "call":
        return "%s(%s)" % (node["name"], ", ".join(render(i) for i in node["in"]))
    if node["k"] == "root":
        return (node["name"] or "_%d" % node["local"]) + "".join("." + str(f) for f in node["fields"])
    return node["k"]


def derives(prog, b, l, seen=None, depth=0, at_bb=None):
    """terminals a local's value is computed from (through all definitions, call arguments included).
    With `at_bb`, only definitions that can reach that block are considered (a re-assignment after the use does not count)."""
    out = set()
    seen = seen if seen is not None else set()
    if (b.key, l) in seen or depth > 80:
        return out
    seen.add((b.key, l))
    ds = b.defs().get(l, [])
    if at_bb is not None and len(ds) > 1:
        def reaches(d):
            if d[0] == "arg":
                return True
            bb = d[1]
            return bb == at_bb or at_bb in b.reach_from([bb])
        # a definition in the same block as the use counts only if it precedes it; calls end their block, assigns: keep (conservative)
        ds = [d for d in ds if reaches(d)]
    if not ds and b.is_closure and l == 1:
        out.add(("capture",))
    # in-place mutation through `&mut l` passed to a call: the other arguments flow into l
    for c in b.calls():
        if len(c.args) < 2:
            continue
        p0 = F.op_place(c.args[0])
        if p0 is None or not b.local_ty(p0["l"]).startswith("&mut"):
            continue
        ar = b.alias_root(c.args[0])
        if ar is not None and ar == b.alias_root(l):
            for a in c.args[1:]:
                p2 = F.op_place(a)
                if p2 is not None:
                    out |= derives(prog, b, p2["l"], seen, depth + 1)
    for d in ds:
        if d[0] == "arg":
            out.add(("param", b.local_name(l)))
        elif d[0] in ("assign", "partial"):
            rv = d[3]
            had = False
            for p2, kind in F.rv_places(rv):
                had = True
                fs = [e["n"] for e in p2["p"] if e["k"] == "field"]
                if fs and (p2["l"] <= b.nargs):
                    out.add(("field", "%s.%s" % (b.local_name(p2["l"]), ".".join(map(str, fs)))))
                out |= derives(prog, b, p2["l"], seen, depth + 1, at_bb)
            if not had:
                out.add(("const",))
        elif d[0] in ("call", "partial_call"):
            c = d[2]
            nm = c.name()
            if not c.args or nm in ("new", "default", "with_capacity"):
                out.add(("call", nm))
                continue
            follow = False
            for a in c.args:
                p2 = F.op_place(a)
                if p2 is not None:
                    follow = True
                    out |= derives(prog, b, p2["l"], seen, depth + 1, at_bb)
            key = c.key or ""
            if not key.startswith(("core::", "alloc::", "std::", "hashbrown::", "rayon")) or not follow:
                out.add(("call", nm))
    return out


def loop_driver(b, bb, stop_named=True):
    """(header, blocks, tree) of the innermost loop containing bb whose header region calls Iterator::next; None if none"""
    best = None
    for h, blocks in b.loops():
        if bb not in blocks:
            continue
        if best is None or len(blocks) < len(best[1]):
            best = (h, blocks)
    if best is None:
        return None
    h, blocks = best
    return driver_of(b, h, blocks, bb, stop_named)


def driver_of(b, h, blocks, bb=None, stop_named=True):
    """(header, blocks, tree) for a given natural loop: the iterator whose next() drives it"""
    if bb is None:
        bb = h
    for c in b.calls():
        if c.bb in blocks and c.name() == "next" and c.args and (c.bb == h or b.dominates(c.bb, bb) or True):
            # the loop's own driver: the `next` whose block dominates every other block of the loop except the header chain
            if not all(b.dominates(c.bb, x) or b.dominates(x, c.bb) for x in blocks):
                continue
            o = b.origin(c.args[0], stop_named=False)
            if o[0] == "place":
                it = o[1]["l"]
                ds = [d for d in b.defs().get(it, []) if d[0] == "call"]
                if len(ds) == 1:
                    ic = ds[0][2]
                    t = {"k": "call", "name": ic.name(), "call": ic, "in": [tree(b, ic.args[0], stop_named=stop_named)] if ic.args else []}
                    return h, blocks, t
            elif o[0] == "call":
                ic = o[1]
                return h, blocks, {"k": "call", "name": ic.name(), "call": ic, "in": [tree(b, ic.args[0], stop_named=stop_named)] if ic.args else []}
    return h, blocks, None


# ---------------------------------------------------------------- coverage: does a parallel / chunked iteration see its whole input?

PRESERVING = {"lines", "par_lines", "collect", "deref", "deref_mut", "chunks", "par_chunks", "rchunks", "par_rchunks", "par_iter", "iter", "into_iter",
              "into_par_iter", "par_bridge", "to_vec", "cloned", "copied", "as_slice", "as_str", "as_ref", "borrow", "to_owned",
              "to_string", "clone", "enumerate", "from", "into", "collect_into_vec", "from_iter", "as_bytes", "split_inclusive",
              # content-based steps: they select or combine elements by what they are, not by where they are
              "filter", "filter_map", "flat_map", "flat_map_iter", "fold", "reduce", "flatten", "union", "extend", "chain",
              "with_min_len", "with_max_len", "new", "unwrap", "expect", "lock", "read", "write"}
# a `map` keeps one output per input whatever its closure does; what matters is that the closure does not itself pick a sub-range
SUBRANGE = {"index", "index_mut", "get", "get_mut", "get_unchecked", "split_at", "split_off", "truncate", "drain", "take", "skip", "step_by",
            "chunks_exact", "windows", "nth", "first", "last", "split_first", "split_last", "take_while", "skip_while"}


def coverage_terminals(prog, b, op, seen, out, depth=0):
    """walk backwards from an operand to everything it is computed from; element-preserving calls are followed through their
    receiver, anything else is a terminal: ('doc', name) for a &str parameter, ('call', name, ln) / ('computed', ln) otherwise"""
    pl = F.op_place(op)
    if pl is None:
        return
    if any(e["k"] == "index" for e in pl["p"]):
        out.append(("computed", "indexing", None))
    l = pl["l"]
    if (b.key, l) in seen or depth > 60:
        return
    seen.add((b.key, l))
    for d in b.defs().get(l, []):
        if d[0] == "arg":
            ty = b.local_ty(l)
            if ty.replace("&", "").replace("mut ", "").strip().startswith(("str", "alloc::string::String", "'")) or "str" == ty.strip("&"):
                out.append(("doc", b.local_name(l), None))
            elif b.is_closure and l == 1:
                out.append(("capture", None, None))
            else:
                out.append(("param", b.local_name(l), None))
        elif d[0] in ("assign", "partial"):
            rv = d[3]
            k = rv["rv"]
            if k in ("use", "cast", "ref", "rawptr"):
                for p2, kind in F.rv_places(rv):
                    coverage_terminals(prog, b, {"k": "copy", "pl": p2}, seen, out, depth + 1)
            elif k == "aggregate" and rv.get("ak") in ("tuple", "array") :
                for o in rv["ops"]:
                    coverage_terminals(prog, b, o, seen, out, depth + 1)
            elif k == "aggregate" and rv.get("ak") == "adt" and not rv["ops"]:
                pass
            else:
                ln = None
                for blk in b.blocks:
                    if blk["bb"] == d[1]:
                        ln = blk["st"][d[2]].get("ln")
                out.append(("computed", k + (":" + rv.get("adt", "").rsplit("::", 1)[-1] if k == "aggregate" else ""), ln))
        elif d[0] in ("call", "partial_call"):
            c = d[2]
            nm = c.name()
            if nm in ("box_assume_init_into_vec_unsafe", "into_vec") and c.args and _vec_macro_elements(b, c.args[0]) is not None:
                # vec![a, b, ..]: the elements are written through a raw copy of the box pointer
                for o in _vec_macro_elements(b, c.args[0]):
                    coverage_terminals(prog, b, o, seen, out, depth + 1)
            elif nm in PRESERVING and c.args:
                coverage_terminals(prog, b, c.args[0], seen, out, depth + 1)
            elif nm == "map" and len(c.args) == 2:
                key, inner = _closure_calls(prog, b, c.args[1])
                bad = sorted({ic.name() for x, ic in inner if ic.name() in SUBRANGE}) if key else ["<unresolved closure>"]
                if bad:
                    out.append(("call", "map(closure calling %s)" % ", ".join(map(str, bad)), c.ln))
                coverage_terminals(prog, b, c.args[0], seen, out, depth + 1)
            else:
                out.append(("call", nm, c.ln, c.key or ""))




def _closure_calls(prog, body, op):
    """(closure key, [(body, call)]) for the closure passed as operand"""
    out = []
    pl = F.op_place(op)
    key = None
    if op.get("k") == "const" and op.get("closure"):
        key = op["closure"]
    elif pl is not None:
        cur = pl["l"]
        for _ in range(6):
            d = body.single_def(cur)
            if not d or d[0] != "assign":
                break
            rv = d[3]
            if rv["rv"] == "aggregate" and rv.get("ak") == "closure":
                key = rv["closure"]
                break
            nxt = rv.get("pl") or F.op_place(rv.get("op") or {})
            if nxt is None:
                break
            cur = nxt["l"]
    if key is None:
        return None, out
    for x in prog.family(key):
        out.extend((x, c) for c in x.calls())
    return key, out


def check_parallel_coverage(R, rule, bodies, whole_call_prefixes=(), floor=1, what="parallel worker pipelines"):
    """obligation per rayon adaptor call in `bodies`: its input reaches it from parameters / captures / complete results of calls
    into `whole_call_prefixes` only through element-preserving steps"""
    prog = R.prog
    n = 0
    for b in sorted(bodies, key=lambda x: x.key):
        for c in b.calls():
            if c.name() not in ("map", "flat_map", "flat_map_iter", "filter_map", "for_each", "map_init", "fold", "try_for_each", "filter") or len(c.args) < 2:
                continue
            if "rayon" not in ((c.callee or "") + (c.pretty or "")):
                continue
            n += 1
            R.saw(b)
            terms = []
            coverage_terminals(prog, b, c.args[0], set(), terms)

            def whole(t):
                return t[0] in ("param", "doc", "capture") or (t[0] == "call" and len(t) > 3 and t[3].startswith(tuple(whole_call_prefixes)) and bool(whole_call_prefixes))
            roots = [t for t in terms if whole(t)]
            other = [t for t in terms if not whole(t)]
            ok = len(roots) >= 1 and not other
            R.ob(rule, "coverage:%s:%s:%s" % (b.short, c.name(), c.ln and "" or ""), "the parallel `%s` in %s ranges over its whole input (%s)" % (c.name(), b.short,
                 ", ".join(sorted({str(t[1]) for t in roots})) or "?"), ok, where=b.where(c.ln),
                 detail=None if ok else "not a total partition by construction: also computed from %s - elements outside the hand-made batches "
                 "are never processed, and how many depends on the worker count"
                 % "; ".join(sorted({"%s%s" % (t[1], (" (line %s)" % t[2]) if t[2] else "") for t in other})))
    R.floor(rule, what, n, floor)


def body_entries(b, h, blocks):
    """first blocks of one iteration of a `for` loop: the `Some` successor(s) of the switch on the loop's own next()"""
    inner = [(h2, b2) for h2, b2 in b.loops() if h2 != h and h2 in blocks]
    out = []
    for c in b.calls():
        if c.name() == "next" and c.bb in blocks and not any(c.bb in b2 for h2, b2 in inner):
            for s1 in b.succ(c.bb):
                if b.blocks[s1]["term"]["t"] == "switch":
                    for s2 in b.succ(s1):
                        if s2 in blocks:
                            out.append(s2)
    return out


def skips_effect(b, h, blocks, effect_blocks):
    """True if some iteration can return to the loop head (or leave the loop normally) without passing any effect block"""
    entries = body_entries(b, h, blocks)
    if not entries:
        return True
    return h in b.reach_from(entries, avoid=set(effect_blocks))


def loops_over(b, names_wanted):
    """{wanted name: (header, blocks, adaptor names)} for natural loops whose driving iterator is rooted in a field / local of that name
    (outermost such loop per name)"""
    found = {}
    for h, blocks in b.loops():
        drv = driver_of(b, h, blocks)
        if not drv or drv[2] is None:
            continue
        names, roots = flat(drv[2])
        for r in roots:
            if r["k"] != "root":
                continue
            fl = list(r["fields"]) + ([r["name"]] if r["name"] else [])
            o = b.origin({"k": "copy", "pl": {"l": r["local"], "p": [], "t": ""}}, stop_named=False)
            if o[0] == "place":
                fl += [e["n"] for e in o[1]["p"] if e["k"] == "field"]
                nm = b.local_name(o[1]["l"])
                if nm:
                    fl.append(nm)
            for w in names_wanted:
                if w in fl:
                    found.setdefault(w, []).append((h, blocks, names))
    return found


def skip_edges(b, h, blocks, effect_blocks):
    """switch edges (block, target, condition) inside a loop from whose target the loop head is reachable without passing an effect
    block, while the other side of the same switch can still reach an effect: the decisions that make an iteration skip the effect"""
    from . import guards as G
    out = []
    eff = set(effect_blocks)
    inner = [(h2, b2) for h2, b2 in b.loops() if h2 != h and h2 in blocks]
    for bb in blocks:
        if any(bb in b2 and bb != h2 for h2, b2 in inner):
            pass
        t = b.blocks[bb]["term"]
        if t["t"] != "switch":
            continue
        succ = [s for s in b.succ(bb) if s in blocks or True]
        reach_eff = {}
        for s in succ:
            r = b.reach_from([s], avoid={h}) if s != h else set()
            reach_eff[s] = bool((r | {s}) & eff)
        if not any(reach_eff.values()) or all(reach_eff.values()):
            continue
        for tgt, cd in G.edge_conditions(b, bb):
            if tgt in reach_eff and not reach_eff[tgt] and b.blocks[tgt]["term"]["t"] != "unreachable":
                # only edges that are actually on an iteration path (reachable from the loop body entry)
                out.append((bb, tgt, cd))
    return out


def _vec_macro_elements(b, box_op):
    """operands of the array literal stored into the box that `vec![..]` turns into a Vec, or None"""
    pl = F.op_place(box_op)
    if pl is None:
        return None
    box_l = b.alias_root(box_op)
    for bb, i, dst, rv, st in b.assigns():
        if not dst["p"] or dst["p"][0]["k"] != "deref" or rv["rv"] != "aggregate" or rv.get("ak") != "array":
            continue
        # is dst's base pointer derived from the box?
        cur = dst["l"]
        for _ in range(8):
            full = [d for d in b.defs().get(cur, []) if d[0] in ("assign", "call", "arg")]
            if len(full) != 1 or full[0][0] != "assign":
                break
            r2 = full[0][3]
            src = F.op_place(r2["op"]) if r2["rv"] in ("use", "cast") else (r2.get("pl") if r2["rv"] in ("ref", "rawptr") else None)
            if src is None:
                break
            cur = src["l"]
            if cur == box_l or b.alias_root(cur) == box_l:
                return list(rv["ops"])
    return None

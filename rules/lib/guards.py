"""T-GUARD: controlling conditions of a block, in a normal form.

A condition is a dict:
  {'kind': 'cmp', 'op': 'Lt'|'Le'|'Gt'|'Ge'|'Eq'|'Ne', 'a': operand, 'b': operand, 'truth': bool, 'bb': switch block}
  {'kind': 'call', 'call': Call, 'truth': bool, 'bb': ...}               bool-returning call (is_empty, starts_with, ...)
  {'kind': 'variant', 'pl': place, 'adt': key, 'variant': name, 'truth': True, 'bb': ...}   (or 'not_variants': [...])
  {'kind': 'other', ...}
`truth` says which outcome of the test holds on the way to the block. Negation (`!x`) is folded into `truth`.
"""
from . import facts as F

CMP = {"Lt", "Le", "Gt", "Ge", "Eq", "Ne"}
NEG = {"Lt": "Ge", "Le": "Gt", "Gt": "Le", "Ge": "Lt", "Eq": "Ne", "Ne": "Eq"}
SWAP = {"Lt": "Gt", "Le": "Ge", "Gt": "Lt", "Ge": "Le", "Eq": "Eq", "Ne": "Ne"}


def describe_discr(body, op, truth=True, depth=0):
    """describe the boolean/discriminant operand of a switch"""
    l = F.op_local(op)
    if l is None or depth > 6:
        return {"kind": "other", "truth": truth}
    d = body.single_def(l)
    if d is None:
        return {"kind": "other", "truth": truth, "local": l}
    if d[0] == "call":
        return {"kind": "call", "call": d[2], "truth": truth}
    if d[0] != "assign":
        return {"kind": "other", "truth": truth, "local": l}
    rv = d[3]
    k = rv["rv"]
    if k == "binop" and rv["op"] in CMP:
        return {"kind": "cmp", "op": rv["op"], "a": rv["a"], "b": rv["b"], "truth": truth}
    if k == "unop" and rv["op"] == "Not":
        return describe_discr(body, rv["a"], not truth, depth + 1)
    if k == "use":
        return describe_discr(body, rv["op"], truth, depth + 1)
    if k == "discriminant":
        return {"kind": "discr", "pl": rv["pl"], "adt": rv.get("adt"), "variants": rv.get("variants", [])}
    return {"kind": "other", "truth": truth, "rv": rv}


def edge_conditions(body, bb_switch):
    """for a switch block: list of (target block, condition) per outgoing edge"""
    t = body.blocks[bb_switch]["term"]
    if t["t"] != "switch":
        return []
    base = describe_discr(body, t["discr"])
    out = []
    if base["kind"] == "discr":
        names = {v: n for v, n in base.get("variants", [])}
        explicit = []
        for v, tgt in t["targets"]:
            out.append((tgt, {"kind": "variant", "pl": base["pl"], "adt": base["adt"], "variant": names.get(v, v),
                              "truth": True, "bb": bb_switch}))
            explicit.append(names.get(v, v))
        rest = [n for v, n in base.get("variants", []) if n not in explicit]
        c = {"kind": "variant", "pl": base["pl"], "adt": base["adt"], "truth": True, "bb": bb_switch}
        if len(rest) == 1:
            c["variant"] = rest[0]
        else:
            c["variant"] = None
            c["one_of"] = rest
        out.append((t["otherwise"], c))
        return out
    # boolean (or integer) switch
    vals = [v for v, _ in t["targets"]]
    if vals == ["0"]:
        c_false = dict(base, truth=not base.get("truth", True), bb=bb_switch)
        c_true = dict(base, truth=base.get("truth", True), bb=bb_switch)
        out.append((t["targets"][0][1], c_false))
        out.append((t["otherwise"], c_true))
        return out
    for v, tgt in t["targets"]:
        out.append((tgt, {"kind": "intval", "value": v, "discr": t["discr"], "truth": True, "bb": bb_switch}))
    out.append((t["otherwise"], {"kind": "intval", "value": None, "not_in": vals, "discr": t["discr"], "truth": True,
                                 "bb": bb_switch}))
    return out


def conditions(body, bb):
    """conditions known to hold whenever control reaches bb (from dominating single-entry edges)"""
    out = []
    doms = body.dominators(bb)
    for d in doms:
        if body.blocks[d]["term"]["t"] != "switch":
            continue
        if d == bb:
            continue
        ecs = edge_conditions(body, d)
        # an edge d->s controls bb if s dominates bb (or s == bb) and every path into s comes through d
        hits = []
        for s, c in ecs:
            if (s == bb or body.dominates(s, bb)) and body.pred(s) == [d]:
                hits.append(c)
            elif s == bb and set(body.pred(s)) == {d}:
                hits.append(c)
        # several values of one switch may lead to the same target; then no single condition holds
        tg = [s for s, c in ecs]
        for s, c in ecs:
            if c in hits and tg.count(s) == 1:
                out.append(c)
    return out


def normalize_cmp(body, c, resolver=None):
    """('op', a_desc, b_desc) with truth folded in: the relation that HOLDS. a/b described via resolver(operand)"""
    if c["kind"] != "cmp":
        return None
    op = c["op"] if c["truth"] else NEG[c["op"]]
    r = resolver or (lambda o: o)
    return (op, r(c["a"]), r(c["b"]))


def holds_ge(norm, x, y):
    """does normalized relation state x >= y ? (accepts x>=y, y<=x; strictness as given)"""
    if norm is None:
        return False
    op, a, b = norm
    return (op == "Ge" and a == x and b == y) or (op == "Le" and a == y and b == x)

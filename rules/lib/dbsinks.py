"""Dataset mutators of a SparqlDatabase, by role: bodies that mutably project or assign its `dataset_index` field."""
from . import writers as W

SD = "kolibrie::sparql_database::SparqlDatabase"


def sinks(prog):
    out = {}
    for t in W.field_touches(prog, SD, ["dataset_index"]):
        if t.kind == "construct":
            continue
        b = t.body
        root = prog.bodies.get(b.root) if b.is_closure else b
        if root is None:
            root = b
        out.setdefault(root.key, []).append(t)
    return out


def reaching(prog, targets):
    """all body keys from which some target key is reachable in the call graph (targets included)"""
    rc = prog.callers()
    seen = set(targets)
    work = list(targets)
    while work:
        k = work.pop()
        for p in rc.get(k, ()):
            if p not in seen:
                seen.add(p)
                work.append(p)
    return seen

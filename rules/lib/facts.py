"""Loader and query helpers for kmir fact files (MIR as JSON lines).

Nothing in here executes repository code: it only reads the facts that the
rustc_private driver extracted from the type-checked program.
"""
import glob
import json
import os
from collections import defaultdict

PY_PKG = "kolibrie-python"
PY_PREFIX = "pykolibrie"


# ---------------------------------------------------------------- places / operands

def op_place(op):
    """place dict of a copy/move operand, else None"""
    if op and op.get("k") in ("copy", "move"):
        return op["pl"]
    return None


def op_local(op):
    """local index if the operand is a bare local (no projection)"""
    pl = op_place(op)
    if pl is not None and not pl["p"]:
        return pl["l"]
    return None


def op_const(op):
    return op if op and op.get("k") == "const" else None


def const_str(op):
    """string literal of a const &str operand (from its display form)"""
    if not op or op.get("k") != "const":
        return None
    d = op.get("d")
    ty = op.get("ty", "")
    if d is None:
        return None
    if ty in ("&str", "&'static str") or ty.startswith("&") and ty.endswith("str"):
        if d.startswith('const "') and d.endswith('"'):
            return _unescape(d[7:-1])
        if d.startswith('"') and d.endswith('"'):
            return _unescape(d[1:-1])
    return None


def const_strs(op):
    """string literals found inside a referenced constant / promoted value (tables such as `const KW: [&str; 4]`), plus the
    operand's own literal if it is one"""
    out = []
    if not op or op.get("k") != "const":
        return out
    s0 = const_str(op)
    if s0 is not None:
        out.append(s0)
    for d in op.get("strs", []) or []:
        if d.startswith('const "') and d.endswith('"'):
            out.append(_unescape(d[7:-1]))
        elif d.startswith('"') and d.endswith('"'):
            out.append(_unescape(d[1:-1]))
    return out


def _unescape(s):
    try:
        return bytes(s, "utf-8").decode("unicode_escape").encode("latin-1", "ignore").decode("utf-8", "ignore") if "\\" in s else s
    except Exception:
        return s


def const_int(op):
    if op and op.get("k") == "const" and "v" in op:
        try:
            return int(op["v"])
        except ValueError:
            return None
    return None


def place_fields(pl):
    """list of field names projected (in order)"""
    return [e["n"] for e in pl["p"] if e["k"] == "field"]


def place_field_elems(pl):
    return [e for e in pl["p"] if e["k"] == "field"]


def place_has_field(pl, adt, name):
    for e in pl["p"]:
        if e["k"] == "field" and e.get("adt") == adt and e["n"] == name:
            return True
    return False


def rv_operands(rv):
    """all operands of an rvalue"""
    k = rv["rv"]
    if k in ("use", "repeat", "cast"):
        return [rv["op"]]
    if k == "binop":
        return [rv["a"], rv["b"]]
    if k == "unop":
        return [rv["a"]]
    if k == "aggregate":
        return list(rv["ops"])
    return []


def rv_places(rv):
    """places read/borrowed by an rvalue (with access kind)"""
    out = []
    k = rv["rv"]
    if k in ("ref", "rawptr"):
        out.append((rv["pl"], "mut" if rv.get("bk") in ("mut", "Mut") else "ref"))
    elif k == "discriminant":
        out.append((rv["pl"], "read"))
    for op in rv_operands(rv):
        pl = op_place(op)
        if pl is not None:
            out.append((pl, op["k"]))
    return out


# ---------------------------------------------------------------- Body

class Body:
    __slots__ = ("r", "key", "pretty", "file", "line", "kind", "parent", "root", "blocks", "locals",
                 "nargs", "crate", "pkg", "unit", "_succ", "_pred", "_idom", "_ipdom", "_defs", "_rpo",
                 "_calls", "_loops", "_uses")

    def __init__(self, r, pkg, unit):
        self.r = r
        self.key = r["key"]
        self.pretty = r["pretty"]
        self.file = r["file"]
        self.line = r["line"]
        self.kind = r["kind"]
        self.parent = r.get("parent")
        self.root = r.get("root", r["key"])
        self.blocks = r["blocks"]
        self.locals = r["locals"]
        self.nargs = r["nargs"]
        self.crate = r["crate"]
        self.pkg = pkg
        self.unit = unit
        self._succ = self._pred = self._idom = self._ipdom = self._defs = self._rpo = None
        self._calls = self._loops = self._uses = None

    # -- identity
    @property
    def name(self):
        """last path segment (function name), closures as parent::{closure#n}"""
        return self.key.rsplit("::", 1)[-1]

    @property
    def short(self):
        """stable, readable identity: `Type::method` / `<Type as Trait>::method`; no module paths, impl or closure indexes"""
        import re
        p = self.pretty
        p = re.sub(r"::\{closure#\d+\}", "", p)
        p = re.sub(r"<impl ([\w:]+::)?(\w+)>", r"\2", p)
        p = re.sub(r"(\w+::)+(\w+)", lambda m: m.group(2), p)
        return p

    @property
    def derived(self):
        return bool(self.r.get("derived"))

    @property
    def is_closure(self):
        return self.kind == "Closure"

    @property
    def self_adt(self):
        return self.r.get("self_adt")

    def where(self, ln=None):
        return "%s:%s (%s)" % (self.file, ln if ln else self.line, self.pretty)

    def local_name(self, l):
        return self.locals[l].get("name")

    def local_ty(self, l):
        return self.locals[l]["ty"]

    def arg_tys(self):
        return [self.locals[i]["ty"] for i in range(1, self.nargs + 1)]

    # -- CFG (normal edges only; unwind edges excluded)
    def succ(self, bb):
        if self._succ is None:
            self._build_cfg()
        return self._succ[bb]

    def pred(self, bb):
        if self._pred is None:
            self._build_cfg()
        return self._pred[bb]

    def _build_cfg(self):
        n = len(self.blocks)
        succ = [[] for _ in range(n)]
        for b in self.blocks:
            t = b["term"]
            k = t["t"]
            s = []
            if k in ("goto", "drop", "assert"):
                s = [t["target"]]
            elif k == "call":
                if t["target"] is not None:
                    s = [t["target"]]
            elif k == "switch":
                s = [x[1] for x in t["targets"]] + [t["otherwise"]]
            elif k == "other":
                s = list(t.get("succ", []))
            # dedupe preserving order
            seen = []
            for x in s:
                if x not in seen:
                    seen.append(x)
            succ[b["bb"]] = seen
        pred = [[] for _ in range(n)]
        for i, ss in enumerate(succ):
            for s in ss:
                pred[s].append(i)
        self._succ, self._pred = succ, pred

    def rpo(self):
        if self._rpo is None:
            seen = set()
            order = []
            stack = [(0, iter(self.succ(0)))]
            seen.add(0)
            while stack:
                node, it = stack[-1]
                adv = False
                for s in it:
                    if s not in seen:
                        seen.add(s)
                        stack.append((s, iter(self.succ(s))))
                        adv = True
                        break
                if not adv:
                    order.append(node)
                    stack.pop()
            order.reverse()
            self._rpo = order
        return self._rpo

    def reachable_blocks(self):
        return set(self.rpo())

    def idom(self):
        """immediate dominators (Cooper-Harvey-Kennedy); unreachable blocks absent"""
        if self._idom is None:
            order = self.rpo()
            idx = {b: i for i, b in enumerate(order)}
            idom = {0: 0}
            changed = True
            while changed:
                changed = False
                for b in order[1:]:
                    new = None
                    for p in self.pred(b):
                        if p in idom:
                            if new is None:
                                new = p
                            else:
                                a, c = p, new
                                while a != c:
                                    while idx[a] > idx[c]:
                                        a = idom[a]
                                    while idx[c] > idx[a]:
                                        c = idom[c]
                                new = a
                    if new is not None and idom.get(b) != new:
                        idom[b] = new
                        changed = True
            self._idom = idom
        return self._idom

    def dominates(self, a, b):
        """block a dominates block b (reflexive)"""
        idom = self.idom()
        if b not in idom or a not in idom:
            return False
        while True:
            if a == b:
                return True
            if b == 0:
                return False
            b = idom[b]

    def dominators(self, b):
        idom = self.idom()
        out = []
        if b not in idom:
            return out
        while True:
            out.append(b)
            if b == 0:
                break
            b = idom[b]
        return out

    def exits(self):
        """blocks that end in return"""
        return [b["bb"] for b in self.blocks if b["term"]["t"] == "return"]

    def ipdom(self):
        """immediate post-dominators w.r.t. a virtual exit joining all return blocks (and diverging blocks)"""
        if self._ipdom is None:
            n = len(self.blocks)
            EXIT = n
            rsucc = defaultdict(list)  # reversed graph: succ in reverse = preds in original
            rpred = defaultdict(list)
            reach = self.reachable_blocks()
            for b in reach:
                ss = self.succ(b)
                if not ss:
                    rsucc[EXIT].append(b)
                    rpred[b].append(EXIT)
                for s in ss:
                    rsucc[s].append(b)
                    rpred[b].append(s)
            # rpo over reversed graph from EXIT
            seen = {EXIT}
            order = []
            stack = [(EXIT, iter(rsucc[EXIT]))]
            while stack:
                node, it = stack[-1]
                adv = False
                for s in it:
                    if s not in seen:
                        seen.add(s)
                        stack.append((s, iter(rsucc[s])))
                        adv = True
                        break
                if not adv:
                    order.append(node)
                    stack.pop()
            order.reverse()
            idx = {b: i for i, b in enumerate(order)}
            ip = {EXIT: EXIT}
            changed = True
            while changed:
                changed = False
                for b in order[1:]:
                    new = None
                    for p in rpred[b]:
                        if p in ip:
                            if new is None:
                                new = p
                            else:
                                a, c = p, new
                                while a != c:
                                    while idx[a] > idx[c]:
                                        a = ip[a]
                                    while idx[c] > idx[a]:
                                        c = ip[c]
                                new = a
                    if new is not None and ip.get(b) != new:
                        ip[b] = new
                        changed = True
            self._ipdom = ip
        return self._ipdom

    def postdominates(self, a, b):
        """a post-dominates b"""
        ip = self.ipdom()
        EXIT = len(self.blocks)
        if b not in ip or a not in ip:
            return False
        while True:
            if a == b:
                return True
            if b == EXIT:
                return False
            b = ip[b]

    def reach_from(self, starts, avoid=()):
        """blocks reachable from `starts` (inclusive) without entering `avoid` blocks"""
        avoid = set(avoid)
        seen = set()
        work = [s for s in starts if s not in avoid]
        while work:
            b = work.pop()
            if b in seen:
                continue
            seen.add(b)
            for s in self.succ(b):
                if s not in seen and s not in avoid:
                    work.append(s)
        return seen

    def reach_to(self, targets, avoid=()):
        """blocks from which some block of `targets` is reachable (inclusive), not passing through `avoid`"""
        avoid = set(avoid)
        seen = set()
        work = [t for t in targets if t not in avoid]
        while work:
            b = work.pop()
            if b in seen:
                continue
            seen.add(b)
            for p in self.pred(b):
                if p not in seen and p not in avoid and not self.blocks[p].get("cleanup"):
                    work.append(p)
        return seen

    def between(self, a, b):
        """blocks lying on some path a ->* b (inclusive of both ends)"""
        return self.reach_from([a]) & self.reach_to([b])

    def reach_after(self, bb, avoid=()):
        """blocks reachable strictly after leaving bb"""
        return self.reach_from(self.succ(bb), avoid)

    def loops(self):
        """natural loops: list of (header, set(body blocks))"""
        if self._loops is None:
            res = {}
            for b in self.reachable_blocks():
                for s in self.succ(b):
                    if self.dominates(s, b):
                        # back edge b -> s
                        body = res.setdefault(s, {s})
                        work = [b]
                        while work:
                            x = work.pop()
                            if x in body:
                                continue
                            body.add(x)
                            work.extend(self.pred(x))
            self._loops = sorted(res.items())
        return self._loops

    def loops_containing(self, bb):
        return [(h, body) for h, body in self.loops() if bb in body]

    # -- statements
    def stmts(self):
        for b in self.blocks:
            if b.get("cleanup"):
                continue
            for i, s in enumerate(b["st"]):
                yield b["bb"], i, s

    def assigns(self):
        for bb, i, s in self.stmts():
            if s["s"] == "assign":
                yield bb, i, s["pl"], s["rv"], s

    def terms(self):
        for b in self.blocks:
            if b.get("cleanup"):
                continue
            yield b["bb"], b["term"]

    def calls(self):
        if self._calls is None:
            self._calls = [Call(self, b["bb"], b["term"]) for b in self.blocks
                           if b["term"]["t"] == "call" and not b.get("cleanup")]
        return self._calls

    def calls_to(self, pred):
        """calls whose callee key / resolved key satisfies pred(str)"""
        return [c for c in self.calls() if c.matches(pred)]

    # -- definitions of locals
    def defs(self):
        """local -> list of ('assign', bb, idx, rvalue) | ('call', bb, Call) | ('arg',)"""
        if self._defs is None:
            d = defaultdict(list)
            for i in range(1, self.nargs + 1):
                d[i].append(("arg",))
            for bb, i, pl, rv, s in self.assigns():
                if not pl["p"]:
                    d[pl["l"]].append(("assign", bb, i, rv))
                else:
                    d[pl["l"]].append(("partial", bb, i, rv, pl))
            for c in self.calls():
                dl = c.dest
                if not dl["p"]:
                    d[dl["l"]].append(("call", c.bb, c))
                else:
                    d[dl["l"]].append(("partial_call", c.bb, c))
            self._defs = d
        return self._defs

    def single_def(self, l):
        ds = self.defs().get(l, [])
        if len(ds) == 1:
            return ds[0]
        return None

    def origin(self, op, stop_named=True, depth=0):
        """Trace an operand / place back through single-definition temporaries.

        Returns a tuple describing the source:
          ('place', place_dict)         a (possibly projected) place rooted in a named/arg/multi-def local
          ('const', operand)
          ('call', Call)                result of a call
          ('rv', rvalue)                some other rvalue (binop, aggregate, ...)
        Projections met on the way are *composed* (deref of a ref to a place = the place).
        """
        pl = op_place(op) if "k" in op else op
        if pl is None:
            return ("const", op)
        return self._origin_place(pl, stop_named, depth)

    def _origin_place(self, pl, stop_named, depth):
        l = pl["l"]
        if depth > 40:
            return ("place", pl)
        if stop_named and self.local_name(l) is not None:
            return ("place", pl)
        d = self.single_def(l)
        if d is None or d[0] == "arg":
            return ("place", pl)
        if d[0] == "call":
            if pl["p"] and not all(e["k"] == "deref" for e in pl["p"]):
                return ("place", pl)
            return ("call", d[2])
        if d[0] != "assign":
            return ("place", pl)
        rv = d[3]
        k = rv["rv"]
        if k == "use":
            src = rv["op"]
            sp = op_place(src)
            if sp is None:
                if pl["p"]:
                    return ("place", pl)
                return ("const", src)
            return self._origin_place(compose(sp, pl["p"]), stop_named, depth + 1)
        if k == "ref" or k == "rawptr":
            # pl = *(&X).rest  -> X.rest
            projs = pl["p"]
            if projs and projs[0]["k"] == "deref":
                return self._origin_place(compose(rv["pl"], projs[1:]), stop_named, depth + 1)
            if not projs:
                # value is a reference to rv.pl : report the referenced place
                return self._origin_place(rv["pl"], stop_named, depth + 1)
            return ("place", pl)
        if k == "cast" and all(e["k"] == "deref" for e in pl["p"]):
            sp = op_place(rv["op"])
            if sp is not None and rv.get("kind", "").startswith(("PointerCoercion", "Transmute", "PtrToPtr")):
                # Box<T> deref is lowered to a transmute of box.0.pointer: `*(b.0.pointer as *const T)` is `*b`
                projs = list(sp["p"])
                stripped = False
                while projs and projs[-1]["k"] == "field" and projs[-1].get("adt") in (
                        "alloc::boxed::Box", "core::ptr::unique::Unique", "core::ptr::non_null::NonNull"):
                    projs.pop()
                    stripped = True
                base = {"l": sp["l"], "p": projs, "t": sp.get("t", "?")}
                return self._origin_place(compose(base, pl["p"]), stop_named, depth + 1)
            if not pl["p"]:
                return ("rv", rv)
            return ("place", pl)
        if k == "aggregate" and pl["p"] and pl["p"][0]["k"] == "field" and rv.get("ak") in ("tuple", "adt", "array"):
            # (a, b).0  ->  a
            idx = pl["p"][0]["i"]
            ops = rv["ops"]
            if idx < len(ops):
                sp = op_place(ops[idx])
                if sp is None:
                    if len(pl["p"]) == 1:
                        return ("const", ops[idx])
                    return ("place", pl)
                return self._origin_place(compose(sp, pl["p"][1:]), stop_named, depth + 1)
        if pl["p"]:
            return ("place", pl)
        return ("rv", rv)

    def alias_root(self, op_or_local):
        """follow plain copies/moves/reborrows of whole locals back to the local that holds the value"""
        if isinstance(op_or_local, int):
            l = op_or_local
        else:
            pl = op_place(op_or_local) if "k" in op_or_local else op_or_local
            if pl is None:
                return None
            if any(e["k"] != "deref" for e in pl["p"]):
                return None
            l = pl["l"]
        for _ in range(40):
            d = self.single_def(l)
            if not d or d[0] != "assign":
                return l
            rv = d[3]
            src = None
            if rv["rv"] == "use":
                src = op_place(rv["op"])
            elif rv["rv"] in ("ref", "rawptr"):
                src = rv["pl"]
            if src is None or any(e["k"] != "deref" for e in src["p"]):
                return l
            l = src["l"]
        return l

    def const_value(self, op, depth=0):
        """integer value of a constant operand or of arithmetic over constants (`LIMIT + 1` is not folded in the MIR we read); None otherwise"""
        v = const_int(op)
        if v is not None:
            return v
        pl = op_place(op)
        if pl is None or depth > 6 or any(e["k"] != "field" for e in pl["p"]):
            return None
        ds = self.defs().get(pl["l"], [])
        if len(ds) != 1 or ds[0][0] != "assign":
            return None
        rv = ds[0][3]
        if rv["rv"] in ("use", "cast"):
            return self.const_value(rv["op"], depth + 1)
        if rv["rv"] in ("binop", "checked_binop"):
            a, b = self.const_value(rv["a"], depth + 1), self.const_value(rv["b"], depth + 1)
            if a is None or b is None:
                return None
            o = rv["op"]
            if o.startswith("Add"):
                return a + b
            if o.startswith("Sub"):
                return a - b
            if o.startswith("Mul"):
                return a * b
        return None

    def reads(self, op, l):
        """the operand reads local l, directly or through plain copies / moves (`let x = call(); if x`)"""
        if op_local(op) == l:
            return True
        a, b = self.alias_root(op) if op_place(op) else None, self.alias_root(l)
        return a is not None and a == b

    def uses(self):
        """local -> list of (bb, where) for every read/borrow/move of the local (any projection)"""
        if self._uses is None:
            u = defaultdict(list)
            for bb, i, pl, rv, s in self.assigns():
                for p, kind in rv_places(rv):
                    u[p["l"]].append((bb, ("st", i), kind, p))
                for e in pl["p"]:
                    if e["k"] == "index":
                        u[e["i"]].append((bb, ("st", i), "copy", None))
                if pl["p"]:
                    # write through a projection reads the base pointer
                    u[pl["l"]].append((bb, ("st", i), "write", pl))
            for bb, t in self.terms():
                ops = []
                if t["t"] == "call":
                    ops = list(t["args"]) + [t["func"]]
                elif t["t"] == "switch":
                    ops = [t["discr"]]
                elif t["t"] == "assert":
                    ops = [t["cond"]] + t.get("ops", [])
                elif t["t"] == "drop":
                    u[t["pl"]["l"]].append((bb, ("term",), "drop", t["pl"]))
                for op in ops:
                    p = op_place(op)
                    if p is not None:
                        u[p["l"]].append((bb, ("term",), op["k"], p))
            self._uses = u
        return self._uses


def compose(base, extra):
    """place = base followed by extra projections"""
    if not extra:
        return base
    return {"l": base["l"], "p": list(base["p"]) + list(extra), "t": base.get("t", "?") + "+"}


class Call:
    __slots__ = ("body", "bb", "t", "callee", "resolved", "args", "dest", "target", "ln", "pretty", "trait")

    def __init__(self, body, bb, t):
        self.body = body
        self.bb = bb
        self.t = t
        self.callee = t.get("callee")
        self.resolved = t.get("resolved")
        self.args = t["args"]
        self.dest = t["dest"]
        self.target = t["target"]
        self.ln = t.get("ln")
        self.pretty = t.get("callee_pretty")
        self.trait = t.get("trait")

    @property
    def key(self):
        return self.resolved or self.callee

    def matches(self, pred):
        return (self.callee is not None and pred(self.callee)) or (self.resolved is not None and pred(self.resolved))

    def name(self):
        k = self.key
        return k.rsplit("::", 1)[-1] if k else None

    def is_(self, *suffixes):
        """callee (declared or resolved) pretty/key ends with one of the suffixes"""
        for s in suffixes:
            for k in (self.callee, self.resolved, self.pretty):
                if k and (k == s or k.endswith("::" + s) or k.endswith(s)):
                    return True
        return False

    def __repr__(self):
        return "Call(%s @bb%d ln%s)" % (self.pretty or self.key or "<indirect>", self.bb, self.ln)


# ---------------------------------------------------------------- Program

class Program:
    def __init__(self):
        self.bodies = {}
        self.adts = {}
        self.impls = []
        self.units = []       # meta records
        self.by_trait_item = defaultdict(list)
        self.children = defaultdict(list)   # parent key -> closure bodies
        self._cg = None
        self._rcg = None

    def body(self, key):
        return self.bodies.get(key)

    def find(self, suffix, crate=None):
        """bodies whose pretty path or key ends with `suffix` (exact segment match)"""
        out = []
        for b in self.bodies.values():
            if crate and b.crate != crate:
                continue
            for k in (b.pretty, b.key):
                if k == suffix or k.endswith("::" + suffix):
                    out.append(b)
                    break
        return out

    def one(self, suffix, crate=None):
        r = [b for b in self.find(suffix, crate) if not b.is_closure]
        if len(r) == 1:
            return r[0]
        if not r and "::" in suffix:
            # `Type::method` where the impl lives in another module: match on the impl's self type
            ty, name = suffix.rsplit("::", 1)
            tyname = ty.rsplit("::", 1)[-1]
            r = [b for b in self.bodies.values() if not b.is_closure and b.name == name and b.self_adt
                 and b.self_adt.rsplit("::", 1)[-1] == tyname and (not crate or b.crate == crate)
                 and not b.r.get("impl_trait")]
            if len(r) == 1:
                return r[0]
        return None

    def closures_of(self, key, recursive=True):
        out = []
        work = [key]
        while work:
            k = work.pop()
            for c in self.children.get(k, []):
                out.append(c)
                if recursive:
                    work.append(c.key)
        return out

    def family(self, key):
        """the body plus all its (nested) closures"""
        b = self.bodies.get(key)
        return ([b] if b else []) + self.closures_of(key)

    def adt(self, key):
        return self.adts.get(key)

    def find_adt(self, suffix):
        return [a for k, a in self.adts.items() if k == suffix or k.endswith("::" + suffix)]

    # -- call graph
    def callees_of(self, body):
        """set of body keys this body may transfer control to / make reachable"""
        out = set()
        for c in body.calls():
            if c.resolved and c.resolved in self.bodies:
                out.add(c.resolved)
            elif c.callee:
                if c.callee in self.bodies and not c.trait:
                    out.add(c.callee)
                elif c.trait:
                    if c.resolved is None:
                        for cand in self.by_trait_item.get(c.callee, []):
                            out.add(cand.key)
                        # a provided (default) trait method has its own body
                        if c.callee in self.bodies:
                            out.add(c.callee)
                    elif c.callee in self.bodies:
                        out.add(c.callee)
        # closures created here, function items referenced as values
        for bb, i, pl, rv, s in body.assigns():
            if rv["rv"] == "aggregate" and rv.get("ak") == "closure":
                if rv["closure"] in self.bodies:
                    out.add(rv["closure"])
            for op in rv_operands(rv):
                if op.get("k") == "const":
                    f = op.get("fn_resolved") or op.get("fn")
                    if f and f in self.bodies:
                        out.add(f)
                    elif op.get("fn") and op.get("fn") in self.by_trait_item:
                        for cand in self.by_trait_item[op["fn"]]:
                            out.add(cand.key)
        for c in body.calls():
            for op in c.args:
                if op.get("k") == "const":
                    f = op.get("fn_resolved") or op.get("fn")
                    if f and f in self.bodies:
                        out.add(f)
                    cl = op.get("closure")
                    if cl and cl in self.bodies:
                        out.add(cl)
        # zero-sized closures (no captures) appear as constants of closure type
        for bb, i, pl, rv, s in body.assigns():
            for op in rv_operands(rv):
                cl = op.get("closure") if op.get("k") == "const" else None
                if cl and cl in self.bodies:
                    out.add(cl)
        return out

    def callgraph(self):
        if self._cg is None:
            cg = {}
            for k, b in self.bodies.items():
                cg[k] = self.callees_of(b)
            # closures are also reachable from their parent even if created via constant
            for p, cs in self.children.items():
                if p in cg:
                    for c in cs:
                        cg[p].add(c.key)
            self._cg = cg
            r = defaultdict(set)
            for k, vs in cg.items():
                for v in vs:
                    r[v].add(k)
            self._rcg = r
        return self._cg

    def callers(self):
        self.callgraph()
        return self._rcg

    def reachable(self, entries, cut_edges=(), cut_nodes=()):
        """keys reachable from entries; returns dict key -> predecessor key (for path reconstruction)"""
        cg = self.callgraph()
        cut_edges = set(cut_edges)
        cut_nodes = set(cut_nodes)
        pred = {}
        work = []
        for e in entries:
            if e in cg and e not in cut_nodes:
                pred[e] = None
                work.append(e)
        while work:
            k = work.pop(0)
            for v in sorted(cg.get(k, ())):
                if v in pred or v in cut_nodes or (k, v) in cut_edges:
                    continue
                pred[v] = k
                work.append(v)
        return pred

    @staticmethod
    def path(pred, k):
        out = []
        while k is not None:
            out.append(k)
            k = pred[k]
        out.reverse()
        return out


def _rename(obj, local):
    """prefix python-package local keys so they do not collide with the core crate"""
    if isinstance(obj, dict):
        return {k: _rename(v, local) for k, v in obj.items()}
    if isinstance(obj, list):
        return [_rename(v, local) for v in obj]
    if isinstance(obj, str) and obj in local:
        return PY_PREFIX + obj[len("kolibrie"):]
    return obj


def load(facts_dir, units=None):
    prog = Program()
    files = sorted(glob.glob(os.path.join(facts_dir, "*.jsonl")))
    for f in files:
        recs = [json.loads(l) for l in open(f)]
        meta = recs[0]
        assert meta["rec"] == "meta", f
        pkg = meta["pkg"]
        unit = os.path.basename(f)[:-6]
        if units is not None and not units(meta, unit):
            continue
        if pkg == PY_PKG:
            local = {r["key"] for r in recs[1:] if "key" in r and r["key"].startswith("kolibrie::")}
            recs = [meta] + [_rename(r, local) for r in recs[1:]]
            for r in recs[1:]:
                if r["rec"] == "body":
                    r["crate"] = PY_PREFIX
        meta["unit"] = unit
        prog.units.append(meta)
        for r in recs[1:]:
            k = r["rec"]
            if k == "body":
                if r["key"] in prog.bodies:
                    # same library compiled again as a test harness: keep the lib build
                    continue
                b = Body(r, pkg, unit)
                prog.bodies[b.key] = b
            elif k == "adt":
                prog.adts.setdefault(r["key"], r)
            elif k == "impl":
                prog.impls.append(r)
    for b in prog.bodies.values():
        ti = b.r.get("trait_item")
        if ti:
            prog.by_trait_item[ti].append(b)
        if b.parent:
            prog.children[b.parent].append(b)
    return prog

"""T-COVER: which fields of an ADT a body *consults* (reads for a purpose other than copying them into
another value of the same ADT), closed over the call graph."""
from . import facts as F

PASS_THROUGH = ("clone", "to_vec", "to_owned", "into_iter", "iter", "map", "collect", "cloned", "copied", "into", "from",
                "deref", "as_slice", "as_ref", "borrow", "into_boxed_slice", "to_string")


def _uses_of_local(body, l):
    """(kind, obj): ('agg', rv) | ('call', Call, argidx) | ('other', ...) for every use of local l"""
    out = []
    for bb, i, pl, rv, s in body.assigns():
        for p, kind in F.rv_places(rv):
            if p["l"] == l:
                if rv["rv"] == "aggregate":
                    out.append(("agg", rv, pl))
                elif rv["rv"] in ("use", "ref", "cast") and not pl["p"]:
                    out.append(("alias", pl["l"]))
                else:
                    out.append(("other", rv))
    for c in body.calls():
        for j, a in enumerate(c.args):
            p = F.op_place(a)
            if p is not None and p["l"] == l:
                out.append(("call", c, j))
    for bb, t in body.terms():
        if t["t"] == "switch":
            p = F.op_place(t["discr"])
            if p is not None and p["l"] == l:
                out.append(("other", t))
    return out


def is_copy_through(body, l, adt, depth=0, seen=None):
    """True if every use of local l only moves the value on into an aggregate of `adt`"""
    if seen is None:
        seen = set()
    if l in seen or depth > 10:
        return True
    seen.add(l)
    us = _uses_of_local(body, l)
    if not us:
        return True   # unused read: not a consultation either
    for u in us:
        if u[0] == "agg":
            if u[1].get("ak") == "adt" and u[1].get("adt") == adt:
                continue
            return False
        if u[0] == "alias":
            if not is_copy_through(body, u[1], adt, depth + 1, seen):
                return False
            continue
        if u[0] == "call":
            c = u[1]
            if c.name() in PASS_THROUGH and not c.dest["p"]:
                if not is_copy_through(body, c.dest["l"], adt, depth + 1, seen):
                    return False
                continue
            return False
        return False
    return True


def direct_reads(body, adt):
    """field -> list of (line, consulted: bool)"""
    out = {}

    def note(pl, ln, dest_local):
        for idx, e in enumerate(pl["p"]):
            if e["k"] == "field" and e.get("adt") == adt:
                consulted = True
                if dest_local is not None and idx == len(pl["p"]) - 1:
                    consulted = not is_copy_through(body, dest_local, adt)
                out.setdefault(e["n"], []).append((ln, consulted))
                break
    for bb, i, pl, rv, s in body.assigns():
        for p, kind in F.rv_places(rv):
            note(p, s.get("ln"), pl["l"] if not pl["p"] else None)
    for c in body.calls():
        for a in c.args:
            p = F.op_place(a)
            if p is not None:
                note(p, c.ln, None)
    for bb, t in body.terms():
        if t["t"] == "switch":
            p = F.op_place(t["discr"])
            if p is not None:
                note(p, t.get("ln"), None)
    return out


def consulted_fields(prog, root, adt, stop=None, _cache=None):
    """fields of `adt` consulted by `root`, its closures and everything reachable through the call graph.
    `stop`: optional predicate(body) -> True to not descend into that callee. Returns {field: witness body key}"""
    cg = prog.callgraph()
    seen = set()
    res = {}
    work = [root.key]
    while work:
        k = work.pop()
        if k in seen:
            continue
        seen.add(k)
        b = prog.bodies.get(k)
        if b is None:
            continue
        for f, rs in direct_reads(b, adt).items():
            if any(c for ln, c in rs) and f not in res:
                res[f] = b.key
        for v in cg.get(k, ()):
            vb = prog.bodies.get(v)
            if vb is None or (stop and stop(vb)):
                continue
            work.append(v)
    return res

"""T-CERT: certificates for panic-capable string/slice operations, over symbolic expressions built from MIR.

Expressions (tuples):
  ('int', n) ('str', s) ('chr', c) ('var', local) ('unk', tag)
  ('call', name, pretty, (args...), bb)        result of a call
  ('op', name, a, b)                            arithmetic / comparison
  ('fld', e, key) ('some', e) ('variant', e, name) ('tuple', (es)) ('range', kind, start, end) ('cast', e)
Named single-definition locals are inlined; parameters and multi-definition locals stay variables.

The prover establishes `Bd(S, E)`: E is a char boundary of string S and E <= len(S). It is intra-procedural, uses
dominating conditions as guards, treats loop variables co-inductively, and gives up (False) on anything else - the
caller then consults the audited lemma table or reports a violation.
"""
from . import facts as F
from . import guards as G

ASCII_PREDS = ("is_digit", "is_ascii_digit", "is_ascii_hexdigit", "is_ascii_alphabetic", "is_ascii_alphanumeric", "is_ascii_whitespace",
               "is_ascii_punctuation", "is_ascii_uppercase", "is_ascii_lowercase", "is_ascii_graphic", "is_ascii")
SUFFIX_CALLS = ("sparql_skip_ws", "trim_start", "trim_start_matches", "trim_left", "trim_left_matches")
PREFIX_CALLS = ("trim_end", "trim_end_matches", "trim_right", "trim_right_matches")
FIRST_PIECE_ITERS = ("lines", "split", "split_terminator", "split_inclusive", "splitn")
OPMAP = {"AddWithOverflow": "Add", "SubWithOverflow": "Sub", "MulWithOverflow": "Mul", "AddUnchecked": "Add", "SubUnchecked": "Sub"}


def _pvar(e):
    """re-tag the variables of a parent-body expression so that they cannot clash with the closure's own locals"""
    if not isinstance(e, tuple):
        return e
    if e and e[0] == "var":
        return ("pvar", e[1])
    return tuple(_pvar(x) if isinstance(x, tuple) else x for x in e)


def _unpvar(e):
    if not isinstance(e, tuple):
        return e
    if e and e[0] == "pvar":
        return ("var", e[1])
    return tuple(_unpvar(x) if isinstance(x, tuple) else x for x in e)


class Sym:
    def __init__(self, body, prog=None):
        self.b = body
        self.memo = {}
        self.busy = set()
        self.prog = prog
        self.parent = None
        self.parent_agg = None
        self.parent_consumer = None
        if prog is not None and body.is_closure and body.parent in prog.bodies:
            pb = prog.bodies[body.parent]
            for bb, i, pl, rv, st in pb.assigns():
                if rv["rv"] == "aggregate" and rv.get("ak") == "closure" and rv.get("closure") == body.key:
                    self.parent = Sym(pb, prog)
                    self.parent_agg = rv
                    cl = pl["l"]
                    for c in pb.calls():
                        for j, a in enumerate(c.args):
                            if F.op_local(a) == cl:
                                self.parent_consumer = (c, j)
                    break

    def closure_param(self, l):
        """value of closure parameter l (>= 2) from the call that consumes the closure, in parent terms"""
        if self.parent is None or self.parent_consumer is None or l != 2:
            return None
        c, j = self.parent_consumer
        if j == 0 or not c.args:
            return None
        recv = self.parent.operand(c.args[0])
        nm = c.name()
        rty = self.parent.b.local_ty(F.op_place(c.args[0])["l"]) if F.op_place(c.args[0]) else ""
        if "option::Option" in rty and nm in ("map", "map_or", "map_or_else", "and_then", "is_some_and", "filter", "inspect", "is_none_or"):
            return ("some", _pvar(recv))
        return None

    def upvar(self, i):
        if self.parent is None or self.parent_agg is None:
            return None
        ops = self.parent_agg["ops"]
        if i >= len(ops):
            return None
        return _pvar(self.parent.operand(ops[i]))

    # ---- building
    def operand(self, op):
        pl = F.op_place(op)
        if pl is None:
            return self.const(op)
        return self.place(pl)

    def const(self, op):
        v = F.const_int(op)
        ty = op.get("ty", "")
        d = op.get("d") or ""
        if ty == "char" or (d.startswith("const '") or d.startswith("'")):
            from c14 import const_text
            t = const_text(op)
            if t is not None and len(t) == 1:
                return ("chr", t)
        if v is not None and ty != "char":
            return ("int", v)
        if ty.endswith("str"):
            from c14 import const_text
            t = const_text(op)
            if t is not None:
                return ("str", t)
        if op.get("fn"):
            return ("fn", op.get("fn_resolved") or op["fn"])
        return ("unk", "const:" + d[:40])

    def local(self, l):
        if l in self.memo:
            return self.memo[l]
        if l in self.busy:
            return ("var", l)
        b = self.b
        self.busy.add(l)
        try:
            e = self._local(l)
        finally:
            self.busy.discard(l)
        self.memo[l] = e
        return e

    def _local(self, l):
        b = self.b
        if 1 <= l <= b.nargs:
            if b.is_closure and l >= 2:
                v = self.closure_param(l)
                if v is not None:
                    return v
            return ("var", l)
        ds = [d for d in b.defs().get(l, []) if d[0] in ("assign", "call")]
        allds = b.defs().get(l, [])
        if len(ds) != 1 or len(allds) != 1:
            return ("var", l)
        d = ds[0]
        if d[0] == "call":
            c = d[2]
            if c.name() == "branch" and "try_trait::Try" in (c.pretty or "") and len(c.args) == 1:
                return self.operand(c.args[0])      # `x?`: the Continue payload is the Some/Ok payload of x
            return ("call", c.name() or "?", c.pretty or "", tuple(self.operand(a) for a in c.args), c.bb)
        return self.rvalue(d[3])

    def rvalue(self, rv):
        k = rv["rv"]
        if k == "use":
            return self.operand(rv["op"])
        if k in ("ref", "rawptr"):
            return self.place(rv["pl"])
        if k == "cast":
            inner = self.operand(rv["op"])
            if rv.get("kind", "").startswith(("IntToInt", "PointerCoercion", "Transmute", "PtrToPtr")):
                return inner
            return ("cast", inner)
        if k == "binop":
            return ("op", OPMAP.get(rv["op"], rv["op"]), self.operand(rv["a"]), self.operand(rv["b"]))
        if k == "unop":
            return ("op", rv["op"], self.operand(rv["a"]), None)
        if k == "aggregate":
            ak = rv.get("ak")
            ops = tuple(self.operand(o) for o in rv["ops"])
            if ak == "tuple":
                return ("tuple", ops)
            if ak == "adt":
                adt = rv.get("adt", "")
                nm = adt.rsplit("::", 1)[-1]
                if nm in ("RangeFrom", "RangeTo", "Range", "RangeInclusive", "RangeToInclusive", "RangeFull"):
                    fs = dict(zip(rv.get("fields", []), ops))
                    return ("range", nm, fs.get("start"), fs.get("end"))
                if rv.get("variant") == "Some" and ops:
                    return ("mk_some", ops[0])
                return ("adt", nm, rv.get("variant"), ops)
            if ak == "array":
                return ("array", ops)
            if ak == "closure":
                return ("closure", rv.get("closure"))
        if k == "discriminant":
            return ("discr", self.place(rv["pl"]))
        return ("unk", k)

    def place(self, pl):
        if self.b.is_closure and pl["l"] == 1 and self.parent is not None:
            projs = list(pl["p"])
            while projs and projs[0]["k"] == "deref":
                projs.pop(0)
            if projs and projs[0]["k"] == "field":
                up = self.upvar(projs[0]["i"])
                if up is not None:
                    return self._project(up, projs[1:])
        return self._project(self.local(pl["l"]), pl["p"])

    def _project(self, e, projs):
        for p in projs:
            k = p["k"]
            if k == "deref":
                continue
            if k == "downcast":
                e = ("variant", e, p.get("n"))
            elif k == "field":
                key = p["n"] if not p["n"].isdigit() else int(p["n"])
                if e[0] == "variant" and e[2] in ("Some", "Ok", "Continue") and key == 0:
                    e = ("some", e[1])
                elif e[0] == "op" and e[1] in ("Add", "Sub", "Mul") and key == 0:
                    pass            # checked arithmetic tuple: .0 is the value
                elif e[0] == "tuple" and isinstance(key, int) and key < len(e[1]):
                    e = e[1][key]
                else:
                    e = ("fld", e, key)
            elif k == "index":
                e = ("idx", e, self.local(p["i"]))
            elif k == "cindex":
                e = ("idx", e, ("int", p["off"]))
            else:
                e = ("unk", "proj:" + k)
        return e

    def var_defs(self, l):
        """definitions of a multi-definition local: list of (expr, bb)"""
        out = []
        b = self.b
        for d in b.defs().get(l, []):
            if d[0] == "assign":
                out.append((self.rvalue(d[3]), d[1]))
            elif d[0] == "call":
                c = d[2]
                if c.name() == "branch" and "try_trait::Try" in (c.pretty or "") and len(c.args) == 1:
                    out.append((self.operand(c.args[0]), d[1]))
                else:
                    out.append((("call", c.name() or "?", c.pretty or "", tuple(self.operand(a) for a in c.args), c.bb), d[1]))
            elif d[0] == "arg":
                out.append((("param", l), 0))
            else:
                out.append((("unk", d[0]), d[1] if len(d) > 1 else 0))
        return out

    # ---- printing (stable: names, no local numbers for named locals)
    canon = None     # when a dict: variables are printed as v1, v2, ... in order of first appearance (rename-invariant)

    def _vname(self, kind, l):
        if self.canon is not None:
            key = (kind, l)
            if key not in self.canon:
                self.canon[key] = "v%d" % (len(self.canon) + 1)
            return self.canon[key]
        return None

    def show(self, e, depth=0):
        if e is None:
            return "_"
        if depth > 12:
            return "…"
        k = e[0]
        if k in ("var", "pvar") and self.canon is not None:
            if k == "var" and 1 <= e[1] <= self.b.nargs and not self.b.is_closure:
                return "arg%d" % e[1]
            return self._vname(k, e[1])
        if k == "int":
            return str(e[1])
        if k == "str":
            return repr(e[1])
        if k == "chr":
            return "'" + e[1] + "'"
        if k == "var":
            return self.b.local_name(e[1]) or ("arg%d" % e[1] if e[1] <= self.b.nargs else "tmp")
        if k == "pvar":
            pb = self.parent.b if self.parent is not None else None
            return (pb.local_name(e[1]) if pb is not None else None) or "outer"
        if k == "call":
            return "%s(%s)" % (e[1], ", ".join(self.show(a, depth + 1) for a in e[3]))
        if k == "op":
            if e[3] is None:
                return "%s(%s)" % (e[1], self.show(e[2], depth + 1))
            return "(%s %s %s)" % (self.show(e[2], depth + 1), e[1], self.show(e[3], depth + 1))
        if k in ("some", "mk_some", "cast", "discr"):
            return "%s(%s)" % (k, self.show(e[1], depth + 1))
        if k == "fld":
            return "%s.%s" % (self.show(e[1], depth + 1), e[2])
        if k == "variant":
            return "(%s as %s)" % (self.show(e[1], depth + 1), e[2])
        if k == "tuple":
            return "(%s)" % ", ".join(self.show(a, depth + 1) for a in e[1])
        if k == "range":
            return "%s..%s" % (self.show(e[2], depth + 1) if e[2] else "", self.show(e[3], depth + 1) if e[3] else "")
        if k == "idx":
            return "%s[%s]" % (self.show(e[1], depth + 1), self.show(e[2], depth + 1))
        if k == "adt":
            return "%s::%s(%s)" % (e[1], e[2], ", ".join(self.show(a, depth + 1) for a in e[3]))
        return "?%s" % k


def strip(e):
    """remove call-site block ids so that structurally equal expressions compare equal"""
    if not isinstance(e, tuple):
        return e
    if e and e[0] == "call":
        return ("call", e[1], tuple(strip(a) for a in e[3]))
    return tuple(strip(x) if isinstance(x, tuple) else x for x in e)


class Prover:
    def __init__(self, prog, body, summaries=None):
        self.prog = prog
        self.b = body
        self.S = Sym(body, prog)
        self.trace = []
        self.summaries = summaries or {}      # callee name -> kind ('ascii_len': returns Some(k)/k, first k bytes of arg ASCII)

    # ---- strings
    def str_norm(self, s):
        """normal form of a string expression: ('sub', S, a) for S[a..], ('pre', S, b), ('mid', S, a, b), else itself"""
        if s is None:
            return s
        if s[0] == "call" and s[1] == "index" and len(s[3]) == 2 and s[3][1][0] == "range":
            base = self.str_norm(s[3][0])
            r = s[3][1]
            if r[1] == "RangeFrom":
                return ("sub", base, r[2])
            if r[1] == "RangeTo":
                return ("pre", base, r[3])
            if r[1] == "Range":
                return ("mid", base, r[2], r[3])
        if s[0] == "call" and s[1] in ("deref", "as_str", "borrow", "as_ref") and len(s[3]) == 1:
            return self.str_norm(s[3][0])
        return s

    def same(self, a, b):
        return strip(self.str_norm(a)) == strip(self.str_norm(b))

    def is_suffix(self, t, s, depth=0):
        """t is s[x..] for some boundary x of s (possibly unknown)"""
        if depth > 10:
            return False
        t, s = self.str_norm(t), self.str_norm(s)
        if strip(t) == strip(s):
            return True
        if t[0] == "sub":
            return self.is_suffix(t[1], s, depth + 1)
        if t[0] == "call" and t[1] in SUFFIX_CALLS and t[3]:
            return self.is_suffix(t[3][0], s, depth + 1)
        if t[0] == "some" and t[1][0] == "call" and t[1][1] in ("strip_prefix",) and t[1][3]:
            return self.is_suffix(t[1][3][0], s, depth + 1)
        # remainder component of a parser result: Ok((rest, _)).0 — parsers return a suffix of their input (summary)
        if t[0] == "fld" and t[2] == 0 and t[1][0] == "some":
            inner = t[1][1]
            if inner[0] == "call" and inner[1] == "branch" and inner[3]:
                inner = inner[3][0]
            if inner[0] == "call" and self._is_parser_call(inner) and inner[3]:
                return self.is_suffix(inner[3][0], s, depth + 1)
        if t[0] == "var":
            # a named remainder variable with a single definition is inlined already; multi-def: all defs suffixes
            ds = self.S.var_defs(t[1])
            if ds and all(d[0][0] != "param" for d in ds) and len(ds) <= 4:
                return all(self.is_suffix(d[0], s, depth + 1) for d in ds)
        return False

    def is_prefix(self, t, s, depth=0):
        """t is s[..x] for some boundary x of s (possibly unknown): its length is a boundary of s"""
        if depth > 10 or t is None:
            return False
        t, s = self.str_norm(t), self.str_norm(s)
        if strip(t) == strip(s):
            return True
        if t[0] == "pre":
            return self.is_prefix(t[1], s, depth + 1)
        if t[0] == "call" and t[1] in PREFIX_CALLS and t[3]:
            return self.is_prefix(t[3][0], s, depth + 1)
        if t[0] == "some" and t[1][0] == "call" and t[1][1] == "strip_suffix" and t[1][3]:
            return self.is_prefix(t[1][3][0], s, depth + 1)
        # the first piece of a splitting iterator (`x.lines().next()`, `x.split(p).next()`): a prefix of x, or "" by default
        if t[0] == "call" and t[1] in ("unwrap_or_default", "unwrap_or") and t[3]:
            if t[1] == "unwrap_or" and not (len(t[3]) == 2 and t[3][1] == ("str", "")):
                return False
            return self._first_piece(t[3][0], s, depth)
        if t[0] == "some":
            return self._first_piece(t[1], s, depth)
        if t[0] == "fld" and t[2] == 0 and t[1][0] == "some" and t[1][1][0] == "call" and t[1][1][1] == "split_once" and t[1][1][3]:
            return self.is_prefix(t[1][1][3][0], s, depth + 1)
        return False

    def _first_piece(self, opt, s, depth):
        if opt[0] != "call" or opt[1] != "next" or not opt[3] or len(opt) < 5:
            return False
        it = opt[3][0]
        if not (it[0] == "call" and it[1] in FIRST_PIECE_ITERS and it[3] and self.is_prefix(it[3][0], s, depth + 1)):
            return False
        # the iterator is consumed by this `next` only (a second `next` on it yields a later piece under the same expression)
        b = self.b
        nx = [c for c in b.calls() if c.bb == opt[4] and c.name() == "next"]
        if len(nx) != 1 or not nx[0].args:
            return False
        root = b.alias_root(nx[0].args[0])
        if root is None:
            return False
        users = [c for c in b.calls() if any(b.alias_root(a) == root for a in c.args if F.op_place(a) is not None)]
        if users != nx:
            return False
        created = [d[1] for d in b.defs().get(root, []) if d[0] != "arg"]
        if len(created) != 1:
            return False
        return {h for h, _ in b.loops_containing(created[0])} == {h for h, _ in b.loops_containing(opt[4])}

    def _is_parser_call(self, e):
        pk = e[2] or ""
        nm = e[1] or ""
        if "nom::" in pk or nm == "parse":      # nom combinators `.parse(input)`
            return True
        if "kolibrie::parser::" in pk and (nm.startswith("sparql_") or nm.startswith("parse_") or nm in ("identifier", "variable", "predicate", "prefixed_identifier")):
            return True
        return False

    # ---- offsets
    def bd(self, s, e, bb, assume=frozenset(), depth=0):
        """e is a char boundary of s (and <= len(s)) whenever control is at block bb"""
        if e is None or depth > 14:
            return False
        s = self.str_norm(s)
        k = e[0]
        # explicit check: a dominating `s.is_char_boundary(e)` (true edge)
        for c in self.conds(bb):
            if c["kind"] == "call" and c["truth"] is True and c["call"].name() == "is_char_boundary" and len(c["call"].args) == 2:
                if self.same(self.S.operand(c["call"].args[0]), s) and strip(self.S.operand(c["call"].args[1])) == strip(e):
                    return True
        # parameter precondition: both the string and the offset are parameters and every caller passes a certified pair
        if k == "var" and s[0] == "var" and 1 <= e[1] <= self.b.nargs and 1 <= s[1] <= self.b.nargs and not self.b.is_closure:
            if self.param_bd(s[1], e[1], depth):
                return True
        if k == "int":
            if e[1] == 0:
                return True
            if self.ascii_at(s, ("int", 0), e[1], bb):
                return True
            if s[0] == "var" and 1 <= s[1] <= self.b.nargs and not self.b.is_closure:
                return self.param_bd(s[1], ("int", e[1]), depth)
            return False
        if k == "call":
            nm = e[1]
            args = e[3]
            if nm == "len" and args:
                t = self.str_norm(args[0])
                if self.same(t, s):
                    return True
                # len of a prefix of s
                if t[0] == "pre" and self.same(t[1], s):
                    return self.bd(s, t[2], bb, assume, depth + 1)
                if self.is_prefix(t, s):
                    return True
                if t[0] == "str" and self.guard_starts_with(s, ("int", 0), t[1], bb):
                    return True
                if self.guard_prefix_expr(s, t, bb):
                    return True
                return False
            if nm == "len_utf8" and args:
                return self.char_at(args[0], s, ("int", 0))
            if nm in ("count",) and args:
                return self.ascii_run(args[0], s)
            if nm in ("min",) and len(args) == 2:
                return self.bd(s, args[0], bb, assume, depth + 1) and self.bd(s, args[1], bb, assume, depth + 1)
            if nm == "map_or" and len(args) == 3:
                alt = self._closure_value(args[2])
                return alt is not None and self.bd(s, args[1], bb, assume, depth + 1) and self.bd(s, alt, bb, assume, depth + 1)
            if nm in ("unwrap_or", "unwrap_or_else", "unwrap_or_default") and args:
                inner = args[0]
                ok_inner = self.bd(s, ("some", inner), bb, assume, depth + 1)
                if nm == "unwrap_or" and len(args) == 2:
                    return ok_inner and self.bd(s, args[1], bb, assume, depth + 1)
                return False
            return False
        if k == "some":
            inner = e[1]
            if inner[0] == "call" and inner[1] in ("find", "rfind") and inner[3] and self.same(inner[3][0], s):
                return True
            if inner[0] == "call" and inner[1] in ("filter", "inspect", "copied", "cloned") and inner[3]:
                return self.bd(s, ("some", inner[3][0]), bb, assume, depth + 1)
            # position of the first char outside an ASCII class: every skipped char is one ASCII byte
            if inner[0] == "call" and inner[1] == "position" and len(inner[3]) == 2:
                src = inner[3][0]
                if src[0] == "call" and src[1] == "chars" and src[3] and self.same(src[3][0], s) and self._negated_ascii_pred(inner[3][1]):
                    return True
            # callee summary: returns Some(k) with the first k bytes of its argument ASCII
            if inner[0] == "call" and self.summaries.get(inner[1]) == "ascii_len" and inner[3] and self.same(inner[3][0], s):
                return True
            if inner[0] == "call" and inner[1] in ("map", "and_then") and inner[3]:
                return False
            return False
        if k == "fld":
            # offset of a char_indices item: ((next(iter) as Some).0).0
            it = self._char_indices_item(e)
            if it is not None and e[2] == 0:
                return self.same(it, s)
            return False
        if k == "op" and e[1] == "Add":
            a, b2 = e[2], e[3]
            for x, y in ((a, b2), (b2, a)):
                if not self.bd(s, x, bb, assume, depth + 1):
                    continue
                # (a) + len_utf8 of the char at x
                if y[0] == "call" and y[1] == "len_utf8" and y[3] and self.char_at(y[3][0], s, x):
                    return True
                # (b) + boundary of the tail s[x..]
                if self.bd(("sub", s, x), y, bb, assume, depth + 1):
                    return True
                # (c) + k ASCII bytes
                if y[0] == "int" and self.ascii_at(s, x, y[1], bb):
                    return True
                # (e) x = len of a literal prefix that was stripped: s = lit + T and y is a boundary of T
                if x[0] == "int" and self._stripped_tail(s, x[1], y, bb, assume, depth):
                    return True
                # (f) callee summary: y = Some(k) with the first k bytes of s[x..] ASCII
                if y[0] == "some" and y[1][0] == "call" and self.summaries.get(y[1][1]) == "ascii_len" and y[1][3] \
                        and self.same(y[1][3][0], ("sub", s, x)):
                    return True
                # (d) + len of a literal / string that s[x..] starts with
                if y[0] == "call" and y[1] == "len" and y[3]:
                    t = self.str_norm(y[3][0])
                    if t[0] == "str" and (self.guard_starts_with(s, x, t[1], bb) or self._found_literal(x, s, t[1])):
                        return True
                    if t[0] in ("var", "chr") and self._found_pattern(x, s, t):
                        return True
                if y[0] == "call" and y[1] == "len_utf8" and y[3] and self._found_pattern(x, s, y[3][0]):
                    return True
            return False
        if k == "op" and e[1] == "Sub":
            a, b2 = e[2], e[3]
            if a[0] == "call" and a[1] == "len" and a[3] and self.same(a[3][0], s):
                if b2[0] == "call" and b2[1] == "len" and b2[3] and self.is_suffix(b2[3][0], s):
                    return True
                # len - k where s ends with an ASCII literal of at least k bytes
                if b2[0] == "int":
                    for c in self.conds(bb):
                        if c["kind"] == "call" and c["truth"] is True and c["call"].name() == "ends_with" and len(c["call"].args) == 2:
                            x = self.S.operand(c["call"].args[0])
                            p = self.S.operand(c["call"].args[1])
                            if p[0] in ("str", "chr") and p[1].isascii() and len(p[1].encode()) >= b2[1] and self.same(x, s):
                                return True
            return False
        if k == "var":
            l = e[1]
            key = (strip(s), l)
            if key in assume:
                return True
            ds = self.S.var_defs(l)
            if not ds or any(d[0][0] in ("param", "unk") for d in ds):
                return False
            if not self.stable(s):
                return False
            return all(self.bd(s, d[0], d[1], assume | {key}, depth + 1) for d in ds)
        return False

    def _negated_ascii_pred(self, pred):
        if pred[0] != "closure" or self.prog is None:
            return False
        cb = self.prog.bodies.get(pred[1])
        if cb is None:
            return False
        names = [c.name() for c in cb.calls()]
        if len(names) != 1 or names[0] not in ASCII_PREDS:
            return False
        nots = [rv for bb, i, pl, rv, st in cb.assigns() if rv["rv"] == "unop" and rv["op"] == "Not"]
        return len(nots) == 1

    _param_busy = set()

    def param_bd(self, sp, ep, depth):
        """every call site of this body passes (string, offset) arguments with Bd(string, offset) at the call"""
        if self.prog is None or depth > 6:
            return False
        # the parameters must not be reassigned in this body
        if [d for d in self.b.defs().get(sp, []) if d[0] != "arg"]:
            return False
        if isinstance(ep, int) and [d for d in self.b.defs().get(ep, []) if d[0] != "arg"]:
            return False
        key = (self.b.key, sp, ep)
        if key in Prover._param_busy:
            return False
        Prover._param_busy.add(key)
        try:
            callers = self.prog.callers().get(self.b.key, set())
            sites = 0
            for ck in callers:
                cb = self.prog.bodies.get(ck)
                if cb is None or cb.unit.endswith("__test"):
                    continue
                CP = Prover(self.prog, cb, self.summaries)
                for c in cb.calls():
                    if c.key != self.b.key or len(c.args) < sp or (isinstance(ep, int) and len(c.args) < ep):
                        continue
                    sites += 1
                    off = CP.S.operand(c.args[ep - 1]) if isinstance(ep, int) else ep
                    if not CP.bd(CP.S.operand(c.args[sp - 1]), off, c.bb, frozenset(), depth + 1):
                        return False
            return sites > 0
        finally:
            Prover._param_busy.discard(key)

    def stable(self, s):
        """the string expression does not mention a re-assigned variable (kill rule)"""
        s = self.str_norm(s)
        if s[0] == "var":
            l = s[1]
            if 1 <= l <= self.b.nargs:
                return len([d for d in self.b.defs().get(l, []) if d[0] != "arg"]) == 0
            return False    # multi-definition local string
        if s[0] in ("sub", "pre", "mid"):
            return self.stable(s[1])
        if s[0] == "call":
            return all(self.stable(a) for a in s[3] if a and a[0] in ("var", "call", "sub", "pre", "mid"))
        return True

    def _stripped_tail(self, s, k, y, bb, assume, depth):
        """s.strip_prefix(lit) = Some(T) somewhere in the body with len(lit) == k, and y is a boundary of T"""
        for c in self.b.calls():
            if c.name() == "strip_prefix" and len(c.args) == 2:
                recv = self.S.operand(c.args[0])
                lit = self.S.operand(c.args[1])
                if lit[0] in ("str", "chr") and len(lit[1].encode()) == k and self.same(recv, s):
                    t = ("some", ("call", "strip_prefix", c.pretty or "", (recv, lit), c.bb))
                    if self.bd(t, y, bb, assume, depth + 1):
                        return True
        return False

    def _char_indices_item(self, e):
        """if e is (a field of) an item produced by iterating X.char_indices(): return X"""
        cur = e
        for _ in range(3):
            if cur[0] == "fld":
                cur = cur[1]
            else:
                break
        if cur[0] == "some":
            nx = cur[1]
            if nx[0] == "call" and nx[1] == "next" and nx[3]:
                it = nx[3][0]
                return self._iter_source(it, "char_indices")
        return None

    def _iter_source(self, it, kind, depth=0):
        if depth > 6 or it is None:
            return None
        if it[0] == "call":
            if it[1] == kind and it[3]:
                return self.str_norm(it[3][0])
            if it[1] in ("into_iter", "by_ref", "peekable") and it[3]:
                return self._iter_source(it[3][0], kind, depth + 1)
        if it[0] == "var":
            ds = self.S.var_defs(it[1])
            if len(ds) == 1:
                return self._iter_source(ds[0][0], kind, depth + 1)
        return None

    def char_at(self, c, s, a):
        """c is the char that starts at offset a of s"""
        s = self.str_norm(s)
        # c = s[a..].chars().next()  (Some payload)
        if c[0] == "some" and c[1][0] == "call" and c[1][1] == "next" and c[1][3]:
            src = self._iter_source(c[1][3][0], "chars")
            if src is not None:
                if strip(src) == strip(self.str_norm(("sub", s, a))) or (a == ("int", 0) and strip(src) == strip(s)):
                    return True
                if src[0] == "sub" and strip(src[1]) == strip(s) and strip(src[2]) == strip(a):
                    return True
        # c = expect/unwrap(next(chars(..)))
        if c[0] == "call" and c[1] in ("expect", "unwrap") and c[3]:
            return self.char_at(("some", c[3][0]), s, a)
        # Option adaptors that keep the payload: filter / copied / cloned
        if c[0] == "some" and c[1][0] == "call" and c[1][1] in ("filter", "copied", "cloned", "inspect") and c[1][3]:
            return self.char_at(("some", c[1][3][0]), s, a)
        # c = item.1 of char_indices over X, offset = item.0 ; a == item.0 (X == s) or a == base + item.0 (X == s[base..])
        if c[0] == "fld" and c[2] == 1:
            x = self._char_indices_item(c)
            if x is not None:
                off = ("fld", c[1], 0)
                if strip(x) == strip(s) and strip(a) == strip(off):
                    return True
                if x[0] == "sub" and strip(x[1]) == strip(s) and a[0] == "op" and a[1] == "Add":
                    if (strip(a[2]) == strip(x[2]) and strip(a[3]) == strip(off)) or (strip(a[3]) == strip(x[2]) and strip(a[2]) == strip(off)):
                        return True
        return False

    def ascii_run(self, it, s):
        """it = take_while(bytes(s)|chars(s), ascii predicate) -> its count is a boundary"""
        if it[0] == "call" and it[1] == "take_while" and len(it[3]) == 2:
            src = it[3][0]
            pred = it[3][1]
            base = None
            if src[0] == "call" and src[1] in ("bytes", "chars") and src[3]:
                base = self.str_norm(src[3][0])
            if base is None or not self.same(base, s):
                return False
            if pred[0] == "fn" and pred[1].rsplit("::", 1)[-1] in ASCII_PREDS:
                return True
            if pred[0] == "closure":
                cb = self.prog.bodies.get(pred[1])
                if cb is not None:
                    names = [c.name() for c in cb.calls()]
                    if names and all(n in ASCII_PREDS for n in names):
                        return True
        return False

    # ---- guards
    def conds(self, bb):
        out = []
        for c in G.conditions(self.b, bb):
            out.append(c)
        return out

    def guard_starts_with(self, s, a, lit, bb):
        """a dominating test shows that s[a..] starts with the literal `lit`"""
        tgt = self.str_norm(("sub", s, a)) if a != ("int", 0) else self.str_norm(s)
        for c in self.conds(bb):
            if c["kind"] == "call" and c["truth"] is True and c["call"].name() in ("starts_with",):
                call = c["call"]
                x = self.S.operand(call.args[0])
                p = self.S.operand(call.args[1])
                if p[0] in ("str", "chr") and p[1].startswith(lit) or (p[0] in ("str", "chr") and p[1] == lit):
                    if self.same(x, tgt) or (a == ("int", 0) and self.same(x, s)):
                        return True
        return False

    def guard_prefix_expr(self, s, t, bb):
        """a dominating test shows that s starts with the string t (any expression): strip_prefix(s, t) is Some / starts_with(s, t)"""
        for c in self.conds(bb):
            if c["kind"] == "call" and c["truth"] is True and c["call"].name() == "starts_with" and len(c["call"].args) == 2:
                if self.same(self.S.operand(c["call"].args[0]), s) and strip(self.S.operand(c["call"].args[1])) == strip(t):
                    return True
            if c["kind"] == "variant" and c.get("variant") == "Some":
                e = self.S.place(c["pl"])
                if e[0] == "call" and e[1] == "strip_prefix" and len(e[3]) == 2 and self.same(e[3][0], s) and strip(e[3][1]) == strip(t):
                    return True
        return False

    def _found_literal(self, x, s, lit):
        """x = Some payload of s.find(lit)"""
        if x[0] == "some" and x[1][0] == "call" and x[1][1] in ("find", "rfind") and len(x[1][3]) == 2:
            if self.same(x[1][3][0], s):
                p = x[1][3][1]
                return p[0] in ("str", "chr") and p[1] == lit
        return False

    def _found_pattern(self, x, s, pat):
        if x[0] == "some" and x[1][0] == "call" and x[1][1] in ("find", "rfind") and len(x[1][3]) == 2:
            return self.same(x[1][3][0], s) and strip(x[1][3][1]) == strip(pat)
        return False

    def ascii_at(self, s, a, k, bb):
        """the k bytes of s starting at boundary a are ASCII (so a + k is a boundary), by a guard or by construction"""
        if k <= 0:
            return True
        s = self.str_norm(s)
        a0 = a
        while a[0] == "some" and a[1][0] == "call" and a[1][1] in ("filter", "inspect") and a[1][3]:
            a = ("some", a[1][3][0])        # Option::filter keeps the payload
        if a is not a0:
            if self.ascii_at(s, a, k, bb):
                return True
            a = a0
        known = set()
        # by construction: a = find(s, ascii literal)
        if a[0] == "some" and a[1][0] == "call" and a[1][1] in ("find", "rfind") and len(a[1][3]) == 2 and self.same(a[1][3][0], s):
            p = a[1][3][1]
            if p[0] in ("str", "chr") and p[1].isascii():
                known |= set(range(len(p[1].encode())))
            if p[0] == "array" and all(x[0] in ("chr", "str") and x[1].isascii() for x in p[1]):
                known |= set(range(min(len(x[1].encode()) for x in p[1])))
        tgt = self.str_norm(("sub", s, a)) if a != ("int", 0) else s
        for c in self.conds(bb):
            if c["kind"] == "call":
                call = c["call"]
                nm = call.name()
                if c["truth"] is True and nm == "starts_with" and len(call.args) == 2:
                    x = self.S.operand(call.args[0])
                    p = self.S.operand(call.args[1])
                    if p[0] in ("str", "chr") and p[1].isascii() and self.same(x, tgt):
                        known |= set(range(len(p[1].encode())))
                if c["truth"] is True and nm in ASCII_PREDS and call.args:
                    x = self.S.operand(call.args[0])
                    if self.char_at(x, s, a):
                        known.add(0)
                    j = self._byte_of(x, tgt)
                    if j is not None:
                        known.add(j)
            if c["kind"] == "cmp":
                n = G.normalize_cmp(self.b, c)
                if n and n[0] == "Eq":
                    x, y = self.S.operand(n[1]), self.S.operand(n[2])
                    for ch, lit in ((x, y), (y, x)):
                        if lit[0] == "chr" and lit[1].isascii() and self.char_at(ch, s, a):
                            known.add(0)
                        if lit[0] == "int" and lit[1] < 128:
                            j = self._byte_of(ch, tgt)
                            if j is not None:
                                known.add(j)
            if c["kind"] == "intval" and c.get("value") is not None:
                try:
                    v = int(c["value"])
                except ValueError:
                    continue
                if v < 128:
                    ch = self.S.operand(c["discr"])
                    if self.char_at(ch, s, a):
                        known.add(0)
                    j = self._byte_of(ch, tgt)
                    if j is not None:
                        known.add(j)
            if c["kind"] == "variant" and c.get("variant") == "Some":
                e = self.S.place(c["pl"])
                if e[0] == "call" and e[1] == "strip_prefix" and len(e[3]) == 2:
                    p = e[3][1]
                    if p[0] in ("str", "chr") and p[1].isascii() and self.same(e[3][0], tgt):
                        known |= set(range(len(p[1].encode())))
        return all(j in known for j in range(k))

    def _byte_of(self, x, t):
        """x is byte j of string t (x = t.as_bytes()[j] or *t.as_bytes().get(j)): return j"""
        if x[0] == "idx" and x[2][0] == "int":
            base = x[1]
            if base[0] == "call" and base[1] == "as_bytes" and base[3] and self.same(base[3][0], t):
                return x[2][1]
        return None

    def _closure_value(self, cl):
        """the value a closure returns, as an expression over the creating body's variables (single return expression only)"""
        if cl is None or cl[0] != "closure" or self.prog is None:
            return None
        cb = self.prog.bodies.get(cl[1])
        if cb is None or cb.parent != self.b.key:
            return None
        CS = Sym(cb, self.prog)
        ds = [d for d in cb.defs().get(0, [])]
        if len(ds) != 1:
            return None
        d = ds[0]
        if d[0] == "assign":
            return _unpvar(CS.rvalue(d[3]))
        if d[0] == "call":
            c = d[2]
            return _unpvar(("call", c.name() or "?", c.pretty or "", tuple(CS.operand(a) for a in c.args), c.bb))
        return None

    def le(self, a, b, bb):
        """a <= b"""
        if a is None or a == ("int", 0):
            return True
        if strip(a) == strip(b):
            return True
        if b[0] == "call" and b[1] == "map_or" and len(b[3]) == 3:
            alt = self._closure_value(b[3][2])
            if alt is not None and self.le(a, b[3][1], bb) and self.le(a, alt, bb):
                return True
        if a[0] == "int" and b[0] == "int":
            return a[1] <= b[1]
        if b[0] == "op" and b[1] == "Add" and (strip(b[2]) == strip(a) or strip(b[3]) == strip(a)):
            return True
        if a[0] == "op" and a[1] == "Add" and b[0] == "op" and b[1] == "Add":
            # a = x + i, b = x + j with i <= j
            for (x1, i1) in ((a[2], a[3]), (a[3], a[2])):
                for (x2, j2) in ((b[2], b[3]), (b[3], b[2])):
                    if strip(x1) == strip(x2) and self.le(i1, j2, bb):
                        return True
        for c in self.conds(bb):
            if c["kind"] == "cmp":
                n = G.normalize_cmp(self.b, c)
                if not n:
                    continue
                op, x, y = n[0], self.S.operand(n[1]), self.S.operand(n[2])
                if op in ("Le", "Lt") and strip(x) == strip(a) and strip(y) == strip(b):
                    return True
                if op in ("Ge", "Gt") and strip(y) == strip(a) and strip(x) == strip(b):
                    return True
        # a = i, b = len(S) - j : from an explicit `len(S) >= n` guard or from starts_with(p) && ends_with(q) with p, q that cannot overlap
        if a[0] == "int" and b[0] == "op" and b[1] == "Sub" and b[3][0] == "int" and b[2][0] == "call" and b[2][1] == "len" and b[2][3]:
            S0 = b[2][3][0]
            need = a[1] + b[3][1]
            pre = suf = None
            for c in self.conds(bb):
                if c["kind"] == "cmp":
                    n = G.normalize_cmp(self.b, c)
                    if n:
                        op, x, y = n[0], self.S.operand(n[1]), self.S.operand(n[2])
                        for l_, r_, o_ in ((x, y, op), (y, x, G.SWAP[op])):
                            if l_[0] == "call" and l_[1] == "len" and l_[3] and self.same(l_[3][0], S0) and r_[0] == "int":
                                if (o_ == "Ge" and r_[1] >= need) or (o_ == "Gt" and r_[1] + 1 >= need) or (o_ == "Eq" and r_[1] >= need):
                                    return True
                if c["kind"] == "call" and c["truth"] is True and len(c["call"].args) == 2 and c["call"].name() in ("starts_with", "ends_with"):
                    x = self.S.operand(c["call"].args[0])
                    p = self.S.operand(c["call"].args[1])
                    if p[0] in ("str", "chr") and self.same(x, S0):
                        if c["call"].name() == "starts_with":
                            pre = p[1]
                        else:
                            suf = p[1]
            if pre is not None and suf is not None and len(pre.encode()) + len(suf.encode()) >= need:
                # p and q cannot overlap inside a shorter string when no proper suffix of p is a prefix of q
                overlap = any(pre[-n:] == suf[:n] for n in range(1, min(len(pre), len(suf)) + 1))
                if not overlap:
                    return True
        # b = Some payload of X.filter(|v| a <= *v)
        if b[0] == "some" and b[1][0] == "call" and b[1][1] == "filter" and len(b[1][3]) == 2 and b[1][3][1][0] == "closure":
            cb = self.prog.bodies.get(b[1][3][1][1]) if self.prog else None
            if cb is not None:
                CS = Sym(cb, self.prog)
                for bb2, i, pl, rv, st in cb.assigns():
                    if pl["l"] == 0 and not pl["p"] and rv["rv"] == "binop" and rv["op"] in ("Le", "Lt", "Ge", "Gt"):
                        l_, r_ = _unpvar(CS.operand(rv["a"])), _unpvar(CS.operand(rv["b"]))
                        payload = ("some", b[1][3][0])
                        if rv["op"] in ("Le", "Lt") and strip(l_) == strip(a) and strip(r_) == strip(payload):
                            return True
                        if rv["op"] in ("Ge", "Gt") and strip(r_) == strip(a) and strip(l_) == strip(payload):
                            return True
        return False

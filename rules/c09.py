"""C09 — time windows: trigger discipline and agreement of the two ingest paths (structural clauses)."""
from lib import facts as F
from lib import guards as G
from lib import linloop as L

WIN = "kolibrie::rsp::s2r::Window"
CSW = "kolibrie::rsp::s2r::CSPARQLWindow"
INGEST = ["add_to_window", "add_probabilistic_to_window"]


def notifications(b):
    out = []
    for c in b.calls():
        nm = c.name()
        if nm == "send" and ("mpsc::Sender" in (c.pretty or "") or "mpsc::SyncSender" in (c.pretty or "")):
            out.append(("send", c))
        elif nm in ("call_mut", "call", "call_once") and (c.trait or "").startswith("core::ops::function::Fn"):
            # the registered callback: receiver comes from the call_back field
            o = b.origin(c.args[0], stop_named=False) if c.args else None
            if o and o[0] == "place" and any(e["k"] == "field" and e["n"] == "call_back" for e in o[1]["p"]):
                out.append(("callback", c))
    return out


def window_cmps(prog, fam, _depth=0):
    """normalised comparisons that involve a Window bound: set of (op, field, other) with the field on the left"""
    out = set()
    for x in fam:
        for bb, i, pl, rv, s in x.assigns():
            if rv["rv"] != "binop" or rv["op"] not in G.CMP:
                continue
            fa, fb = _win_field(x, rv["a"]), _win_field(x, rv["b"])
            if fa and not fb:
                out.add((rv["op"], fa, "t"))
            elif fb and not fa:
                out.add((G.SWAP[rv["op"]], fb, "t"))
            elif fa and fb:
                out.add((rv["op"], fa, fb))
        # a membership test moved into a method of Window (`window.contains(t)`) counts where it is called
        if _depth < 2:
            for c in x.calls():
                y = prog.bodies.get(c.key)
                if y is not None and y.self_adt == WIN and not y.is_closure:
                    out |= window_cmps(prog, prog.family(y.key), _depth + 1)
    return out


def _win_field(x, op):
    pl = F.op_place(op)
    if pl is None:
        return None
    o = x.origin(op, stop_named=False)
    if o[0] == "place":
        for e in o[1]["p"]:
            if e["k"] == "field" and e.get("adt") == WIN:
                return e["n"]
    return None


def run(R):
    prog = R.prog
    R.rule("C09-R1", "firing guard and advance: in both ingest methods every consumer notification is dominated by the true "
                     "edge of `event time > app_time` and by the assignment app_time = that event time")
    R.rule("C09-R2", "sibling agreement: both ingest paths assign content under the half-open test open <= t < close, choose "
                     "the reported window by maximal close, ask the report strategy with the event time, and replace the "
                     "active windows only after reporting; the close-strategy reports a window only when close <= t")
    R.rule("C09-R3", "opening coverage: the loop in scope() that opens windows for an event inserts intervals of length width, "
                     "advances the interval start by exactly slide per iteration, and can be left only when the next interval "
                     "would start after the event time - so no aligned interval containing the event is skipped (linear "
                     "arithmetic over the loop's header values; numeric casts taken as value-preserving)")
    R.rule("C09-R4", "opening start: the first interval scope() opens for an event closes at a slide-aligned instant "
                     "(k * slide, measured from t_0, and t_0 is only ever the constant 0) that is not later than the first slide "
                     "boundary after the event - so together with R3 exactly the aligned intervals containing the event are opened")
    R.rule("C09-R5", "opening never resets content: scope() inserts an empty container for an interval only when the interval "
                     "is absent from the active windows")
    R.rule("C09-R6", "report strategies are conjunctive: Report::report answers `all` over the configured strategies, with the "
                     "per-strategy tests len > 0 / close <= t / t % period == 0")
    R.rule("C09-R7", "who may change the open windows: the set of active windows (and the application clock) is written only by the two "
                     "ingest methods (replacement after reporting, clock advance), by scope() (insert-if-absent) and by the constructor - "
                     "flush / stop / registration only read it, so flushing mid-stream does not empty intervals that are still open")
    from lib import writers as W
    allowed = {"active_windows": {"new": {"construct"}, "scope": {"insert"}, "add_to_window": {"assign"}, "add_probabilistic_to_window": {"assign"}},
               "app_time": {"new": {"construct"}, "add_to_window": {"assign"}, "add_probabilistic_to_window": {"assign"}}}
    nt = 0
    for t in W.field_touches(prog, CSW, ["active_windows", "app_time"]):
        nt += 1
        nm = t.body.name
        kind = t.op if t.kind == "refmut" else t.kind
        ok = nm in allowed[t.field] and (kind in allowed[t.field][nm])
        R.ob("C09-R7", "writer:%s:%s:%s" % (t.field, nm, kind), "`%s` is written by %s only in the expected way (%s)" % (t.field, nm, kind), ok,
             where=t.body.where(t.ln), detail=None if ok else "an interval that is still open loses the items already assigned to it (or the clock moves) "
             "outside the ingest discipline that R1/R2 check")
    R.floor("C09-R7", "writes to the window state", nt, 6)
    r3(R)
    r6(R)
    r8(R)
    r9(R)
    r10(R)
    bodies = {}
    for nm in INGEST:
        b = R.body("C09-R1", "CSPARQLWindow::%s" % nm, crate="kolibrie")
        if b is not None:
            bodies[nm] = b
    total = 0
    for nm, b in bodies.items():
        notes = notifications(b)
        total += len(notes)
        R.ob("C09-R1", "notifies:" + nm, "%s notifies the channel consumer and the callback (found %s)" % (nm, [k for k, _ in notes]),
             {k for k, _ in notes} == {"send", "callback"}, where=b.where())
        # the event time: parameter ts (add_to_window) or occurrence.event.event_time
        for kind, c in notes:
            conds = G.conditions(b, c.bb)
            guard = None
            for cd in conds:
                if cd["kind"] != "cmp":
                    continue
                n = G.normalize_cmp(b, cd)
                op, a, bb_ = n
                ta, tb = _is_app_time(b, a), _is_app_time(b, bb_)
                if op == "Gt" and tb and not ta:
                    guard = (cd, a)
                elif op == "Lt" and ta and not tb:
                    guard = (cd, bb_)
            R.ob("C09-R1", "guard:%s:%s" % (nm, kind), "the %s notification in %s happens only when event time > app_time (strict)" % (kind, nm),
                 guard is not None, where=b.where(c.ln),
                 detail=None if guard else "a non-strict or missing guard reports twice for equal timestamps / out of order")
            if guard is None:
                continue
            troot = b.alias_root(guard[1])
            # assignment app_time = t dominates the notification
            asg = [(bb2, rv, s) for bb2, i, pl, rv, s in b.assigns()
                   if pl["p"] and pl["p"][-1].get("n") == "app_time" and pl["p"][-1].get("adt") == CSW]
            ok = False
            for bb2, rv, s in asg:
                if rv["rv"] == "use" and b.alias_root(rv["op"]) == troot and b.dominates(guard[0]["bb"], bb2):
                    # on every path from the notification's guard to the exit the clock is advanced (before or after notifying)
                    if b.dominates(bb2, c.bb) or not (b.reach_from([c.bb], avoid={bb2}) & set(b.exits())):
                        ok = True
            R.ob("C09-R1", "advance:%s:%s" % (nm, kind), "app_time is advanced to the compared event time before the %s notification in %s" % (kind, nm),
                 ok, where=b.where(c.ln))
            # the compared time is the event time given to scope()/report
            sc = [x for x in b.calls() if x.name() == "scope"]
            oks = any(b.alias_root(x.args[1]) == troot or _deref_root(b, x.args[1]) == troot for x in sc)
            R.ob("C09-R1", "same-time:%s:%s" % (nm, kind), "the guard compares the same event time that scoped the windows", oks, where=b.where(c.ln))
    R.floor("C09-R1", "consumer notifications in the ingest methods", total, 4)

    # ---- R2
    sets = {}
    for nm, b in bodies.items():
        fam = prog.family(b.key)
        sets[nm] = window_cmps(prog, fam)
        need = {("Le", "open", "t"), ("Gt", "close", "t")}
        R.ob("C09-R2", "membership:" + nm, "%s assigns an item to exactly the windows with open <= t < close (found %s)" % (nm, sorted(sets[nm] - {("cmpclose",)})),
             need <= sets[nm] and not [c for c in sets[nm] if c[1] in ("open", "close") and c[2] == "t" and c not in need], where=b.where(),
             detail="the half-open interval [open, close) is what `one aligned interval` means")
        # selection by maximal close
        mx = [c for c in b.calls() if c.name() in ("max_by", "max_by_key", "min_by", "min_by_key", "last", "next", "find")
              and c.args and "active_windows" in _chain_fields(b, c.args[0])]
        okm = False
        for c in mx:
            if c.name() == "max_by" and len(c.args) > 1:
                from c19 import closure_family_calls
                key, inner = closure_family_calls(prog, b, c.args[1])
                cmpc = [ic for x, ic in inner if ic.name() == "cmp"]
                fields = set()
                for x, ic in inner:
                    if ic.name() == "cmp":
                        for a in ic.args:
                            f = _win_field(x, a)
                            if f:
                                fields.add(f)
                # direction: cmp(first.close, second.close)
                okm = bool(cmpc) and fields == {"close"} and _cmp_in_order(prog, key)
            elif c.name() == "max_by_key":
                okm = True
        R.ob("C09-R2", "selects-max-close:" + nm, "%s reports the window with the greatest close among those the strategy accepts" % nm,
             okm, where=b.where())
        rep = [c for x in fam for c in x.calls() if c.name() == "report" and "Report" in (c.pretty or "")]
        R.ob("C09-R2", "asks-report:" + nm, "%s consults the report strategy" % nm, len(rep) == 1, where=b.where())
        # replace active windows after reporting: the assignment is not followed by selection/notification
        asg = [bb2 for bb2, i, pl, rv, s in b.assigns() if pl["p"] and pl["p"][-1].get("n") == "active_windows" and pl["p"][-1].get("adt") == CSW]
        R.ob("C09-R2", "replaces-once:" + nm, "%s replaces the active windows exactly once" % nm, len(asg) == 1, where=b.where())
        if len(asg) == 1:
            after = b.reach_from([asg[0]])
            late = [c for k, c in notifications(b) if c.bb in after] + [c for c in mx if c.bb in after]
            R.ob("C09-R2", "replace-after-report:" + nm, "%s replaces the active windows only after selecting and reporting" % nm,
                 not late, where=b.where())
    if len(sets) == 2:
        a, c = sets[INGEST[0]], sets[INGEST[1]]
        R.ob("C09-R2", "siblings-agree", "both ingest paths apply the same comparisons to the window bounds", a == c,
             detail=None if a == c else "deterministic: %s probabilistic: %s" % (sorted(a), sorted(c)))
    rp = R.body("C09-R2", "Report::report", crate="kolibrie")
    if rp is not None:
        cm = window_cmps(prog, prog.family(rp.key))
        R.ob("C09-R2", "close-strategy", "OnWindowClose reports a window only when close <= t (found %s)" % sorted(cm), ("Le", "close", "t") in cm
             and not [c for c in cm if c[1] == "close" and c != ("Le", "close", "t")], where=rp.where())


def _nonneg(form, strict_const):
    """form >= 0 (or > 0) for all values of its symbols, using only: window parameters are unsigned"""
    for t, c in form.items():
        if t == "":
            continue
        if t in ("self.width", "self.slide") and c >= 0:
            continue
        return False
    k = form.constant()
    return k > 0 if strict_const else k >= 0


def r3(R):
    sc = R.body("C09-R3", "CSPARQLWindow::scope", crate="kolibrie")
    if sc is None:
        return
    R.saw(sc)
    n = 0
    for h, blocks in sc.loops():
        ins = [c for c in sc.calls() if c.bb in blocks and c.name() == "insert" and len(c.args) == 3 and "HashMap" in (c.pretty or "")
               and any(e.get("n") == "active_windows" for e in (sc.origin(c.args[0], stop_named=False)[1]["p"]
                                                                 if sc.origin(c.args[0], stop_named=False)[0] == "place" else []))]
        if not ins:
            continue
        # innermost loop only
        if any(h2 != h and h2 in blocks and ins[0].bb in b2 for h2, b2 in sc.loops()):
            continue
        n += 1
        lv = L.LoopView(sc, h, blocks)
        c = ins[0]
        wl = sc.alias_root(c.args[1])
        pos = (c.bb, 10 ** 6)
        opn = lv.place({"l": wl, "p": [{"k": "field", "n": "open", "i": 0}], "t": ""}, pos)
        cls = lv.place({"l": wl, "p": [{"k": "field", "n": "close", "i": 1}], "t": ""}, pos)
        sg = lv.sigma()
        nxt = L.substitute(opn, sg)
        width = cls.add(opn, -1)
        R.ob("C09-R3", "length", "every interval opened by scope() has length width (close - open = %s)" % width.render(),
             width.render() == "self.width", where=sc.where(c.ln))
        step = nxt.add(opn, -1)
        R.ob("C09-R3", "step", "consecutive intervals opened by scope() start exactly one slide apart (step = %s)" % step.render(),
             step.render() == "self.slide", where=sc.where(c.ln))
        exits = lv.exit_switches()
        R.ob("C09-R3", "exits", "the opening loop has a comparison-controlled exit", len(exits) >= 1, where=sc.where(c.ln))
        for bb, t, ex, stay in exits:
            ec = lv.exit_condition(bb, t, ex)
            ln = t.get("ln")
            if ec is None:
                R.ob("C09-R3", "exit-form:%d" % n, "the exit of the opening loop is a comparison of linear forms", False, where=sc.where(ln))
                continue
            form, isfloat, kind = ec
            # the interval that the next insertion would create: after the back edge if the insertion precedes the exit test
            after_insert = bb in sc.reach_from(sc.succ(c.bb), avoid={h})
            nopen = nxt if after_insert else opn
            d = nopen.add(L.Lin.sym("arg:event_time"), -1).add(form, -1)
            ok = _nonneg(d, strict_const=(kind == "nonstrict"))
            R.ob("C09-R3", "covers:%d" % n, "scope() stops opening intervals only when the next one would start after the event "
                 "(leaves when %s %s 0; next start - event time = %s)" % (form.render(), ">" if kind == "strict" else ">=", nopen.add(L.Lin.sym("arg:event_time"), -1).render()),
                 ok, where=sc.where(ln),
                 detail=None if ok else "an aligned interval that already contains the event is not opened, so the event is missing from it when it is reported")
        _first_interval(R, sc, lv, h, blocks, cls, c)
        _insert_if_absent(R, sc, c)
        if lv.assumptions:
            R.advisory("C09-R3", "assumptions: " + "; ".join(sorted(lv.assumptions)))
    R.floor("C09-R3", "window-opening loops in scope()", n, 1)


def _is_app_time(b, op):
    pl = F.op_place(op)
    if pl is None:
        return False
    o = b.origin(op, stop_named=False)
    return o[0] == "place" and any(e["k"] == "field" and e["n"] == "app_time" and e.get("adt") == CSW for e in o[1]["p"])


def _deref_root(b, op):
    """root local of `&x` / `&*&x` operands"""
    o = b.origin(op, stop_named=False)
    if o[0] == "place" and not [e for e in o[1]["p"] if e["k"] != "deref"]:
        return b.alias_root(o[1]["l"])
    return None


def _chain_fields(b, op, depth=0):
    """field names met while walking an iterator chain back to its source"""
    out = set()
    if depth > 8:
        return out
    o = b.origin(op, stop_named=False)
    if o[0] == "place":
        out |= {e["n"] for e in o[1]["p"] if e["k"] == "field"}
    elif o[0] == "call" and o[1].args:
        out |= _chain_fields(b, o[1].args[0], depth + 1)
    return out


def _cmp_in_order(prog, closure_key):
    """in the max_by closure the comparison is cmp(first_arg.close, second_arg.close) (not reversed)"""
    cl = prog.bodies.get(closure_key)
    if cl is None:
        return False
    for c in cl.calls():
        if c.name() == "cmp" and len(c.args) == 2:
            def param_of(op):
                o = cl.origin(op, stop_named=False)
                if o[0] == "place":
                    return o[1]["l"]
                return None
            pa, pb = param_of(c.args[0]), param_of(c.args[1])
            ra, rb = _root_param(cl, pa), _root_param(cl, pb)
            return ra == 2 and rb == 3
    return False


def _root_param(cl, l, depth=0):
    if l is None or depth > 8:
        return None
    if 1 <= l <= cl.nargs:
        return l
    d = cl.single_def(l)
    if d and d[0] == "assign":
        rv = d[3]
        src = rv.get("pl") or F.op_place(rv.get("op") or {})
        if src is not None:
            return _root_param(cl, src["l"], depth + 1)
    return None


# ---------------------------------------------------------------- R4 / R5 / R6

import re as _re

_D = r"(abs\(arg:event_time - self\.t_0\)|abs_diff\(arg:event_time,self\.t_0\)|arg:event_time - self\.t_0|arg:event_time)"
_ALIGNED = [
    (_re.compile(r"^mul\(ceil\(div\(%s,self\.slide\)\),self\.slide\)$" % _D), "ceil"),
    (_re.compile(r"^mul\(div_ceil\(%s,self\.slide\),self\.slide\)$" % _D), "ceil"),
    (_re.compile(r"^mul\(floor\(div\(%s,self\.slide\)\),self\.slide\)$" % _D), "floor"),
    (_re.compile(r"^mul\(div\(%s,self\.slide\),self\.slide\)$" % _D), "intdiv"),
]


def _first_interval(R, sc, lv, h, blocks, cls, ins):
    pre = [p for p in sc.pred(h) if p not in blocks]
    if len(pre) != 1:
        R.ob("C09-R4", "preheader", "the opening loop of scope() has a single entry", False, where=sc.where())
        return
    env = {}
    for l in lv.carried:
        env["H:" + lv.name(l)] = lv.place({"l": l, "p": [], "t": ""}, (pre[0], 10 ** 7))
    first = L.substitute(cls, env)
    kinds = []
    rest = L.Lin()
    for t, c in first.items():
        m = None
        for rx, kind in _ALIGNED:
            if rx.match(t) and c == 1:
                m = kind
        if m:
            kinds.append(m)
        elif t == "self.slide":
            rest = rest.add(L.Lin({t: c}))
        else:
            rest = rest.add(L.Lin({t: c}))
    has_float_div = any(rv["rv"] == "binop" and rv["op"] == "Div" and "f64" in sc.local_ty(pl["l"]) for bb, i, pl, rv, st in sc.assigns() if not pl["p"])
    ok = len(kinds) == 1
    why = None
    if not ok:
        why = "the first close is not of the form k * slide with k a rounded quotient of the event's distance from t_0"
    else:
        kind = kinds[0]
        if kind == "intdiv" and has_float_div:
            ok, why = False, "a floating-point quotient is multiplied back without ceil()/floor(): the close is not slide-aligned"
        extra = {t: c for t, c in rest.items()}
        j = extra.pop("self.slide", 0)
        if extra:
            ok, why = False, "the first close is offset from a slide boundary by %s" % L.Lin(extra).render()
        elif j != int(j) or j > (0 if kind == "ceil" else 1):
            ok, why = False, "the first close lies %s slide(s) beyond the first boundary at/after the event: earlier aligned intervals that contain the event are never opened" % j
    R.ob("C09-R4", "first-close", "the first interval opened by scope() closes at the slide boundary at/after the event (first close = %s)" % first.render(),
         ok, where=sc.where(ins.ln), detail=why)
    # t_0 is the constant 0: every write of the field assigns 0
    prog = R.prog
    nw = 0
    bad = []
    for b in prog.bodies.values():
        if b.crate != "kolibrie" or "/rsp/" not in b.file:
            continue
        for bb, i, pl, rv, st in b.assigns():
            if pl["p"] and pl["p"][-1].get("n") == "t_0" and pl["p"][-1].get("adt") == CSW:
                nw += 1
                if not (rv["rv"] == "use" and F.const_int(rv["op"]) == 0):
                    bad.append(b.where(st.get("ln")))
            if rv["rv"] == "aggregate" and rv.get("adt") == CSW and "t_0" in (rv.get("fields") or []):
                nw += 1
                o = rv["ops"][rv["fields"].index("t_0")]
                if F.const_int(o) != 0:
                    oo = b.origin(o, stop_named=False)
                    if not (oo[0] == "const" and F.const_int(oo[1]) == 0):
                        bad.append(b.where(st.get("ln")))
    R.ob("C09-R4", "origin", "the alignment origin t_0 of CSPARQLWindow is only ever the constant 0 (%d writes)" % nw, nw >= 1 and not bad,
         where=bad[0] if bad else sc.where(),
         detail=None if not bad else "with another origin the reported intervals close at t_0 + k*slide, which is not a multiple of the slide")


def _insert_if_absent(R, sc, ins):
    """the insert call is control-dependent on an absence test of the same map (get(..) is None / !contains_key), or is or_insert*"""
    conds = G.conditions(sc, ins.bb)
    ok = False
    seen = []

    def on_windows(c):
        if not c.args:
            return False
        o = sc.origin(c.args[0], stop_named=False)
        return o[0] == "place" and any(e.get("n") == "active_windows" for e in o[1]["p"])
    for cd in conds:
        seen.append("%s:%s" % (cd.get("kind"), cd.get("variant", cd.get("truth"))))
        if cd.get("kind") == "call" and cd["call"].name() == "contains_key" and cd.get("truth") is False and on_windows(cd["call"]):
            ok = True
        if cd.get("kind") == "call" and cd["call"].name() == "is_none" and cd.get("truth") is True:
            o = sc.origin(cd["call"].args[0], stop_named=False)
            if o[0] == "call" and o[1].name() in ("get", "get_mut", "get_key_value") and on_windows(o[1]):
                ok = True
        if cd.get("kind") == "variant" and cd.get("variant") == "None":
            o = sc.origin({"k": "copy", "pl": {"l": cd["pl"]["l"], "p": [], "t": ""}}, stop_named=False)
            if o[0] == "call" and o[1].name() in ("get", "get_mut", "get_key_value") and on_windows(o[1]):
                ok = True
    if ins.name() in ("or_insert", "or_insert_with", "or_default"):
        ok = True
    R.ob("C09-R5", "absent", "scope() inserts a fresh container only under `the interval is not among the active windows`", ok,
         where=sc.where(ins.ln),
         detail=None if ok else "an unconditional insert replaces the container of an interval that is still open: items already assigned to it are lost "
         "(controlling conditions seen: %s)" % seen)


def r6(R):
    rp = R.body("C09-R6", "Report::report", crate="kolibrie")
    if rp is None:
        return
    R.saw(rp)
    prog = R.prog
    alls = [c for c in rp.calls() if c.name() == "all"]
    ret_from_all = False
    for c in alls:
        if c.dest["l"] == 0 and not c.dest["p"]:
            ret_from_all = True
        else:
            for bb, i, pl, rv, st in rp.assigns():
                if pl["l"] == 0 and not pl["p"] and rv["rv"] == "use" and rp.alias_root(rv["op"]) == c.dest["l"]:
                    ret_from_all = True
    src_ok = False
    for c in alls:
        if c.args and "strategies" in _chain_fields(rp, c.args[0]):
            src_ok = True
    R.ob("C09-R6", "conjunction", "Report::report returns Iterator::all over self.strategies", bool(alls) and ret_from_all and src_ok, where=rp.where(),
         detail=None if (alls and ret_from_all and src_ok) else "with any() (or a subset of the strategies) a window is reported although one configured "
         "condition fails, e.g. before it closes")
    # per-strategy tests inside the closure
    from c19 import closure_family_calls
    found = set()
    for c in alls:
        key, inner = closure_family_calls(prog, rp, c.args[1]) if len(c.args) > 1 else (None, [])
        if not key:
            continue
        for x in prog.family(key):
            for bb, i, pl, rv, st in x.assigns():
                if rv["rv"] != "binop":
                    continue
                o = rv["op"]
                a, b_ = rv["a"], rv["b"]
                if o in ("Gt", "Lt", "Ge", "Le", "Eq", "Ne"):
                    ca, cb = F.const_int(a), F.const_int(b_)
                    # x > 0 on a len()
                    if o == "Gt" and cb == 0:
                        oa = x.origin(a, stop_named=False)
                        if oa[0] == "call" and oa[1].name() == "len":
                            found.add("nonempty")
                    if o == "Lt" and ca == 0:
                        ob_ = x.origin(b_, stop_named=False)
                        if ob_[0] == "call" and ob_[1].name() == "len":
                            found.add("nonempty")
                    if o == "Ne" and (cb == 0 or ca == 0):
                        oa = x.origin(a if cb == 0 else b_, stop_named=False)
                        if oa[0] == "call" and oa[1].name() == "len":
                            found.add("nonempty")
                    if o == "Eq" and (cb == 0 or ca == 0):
                        oo = x.origin(a if cb == 0 else b_, stop_named=False)
                        if oo[0] == "rv" and oo[1]["rv"] == "binop" and oo[1]["op"] == "Rem":
                            found.add("periodic")
                        elif oo[0] == "call" and oo[1].name() == "rem":
                            found.add("periodic")
                        elif oo[0] == "place":
                            d = x.single_def(oo[1]["l"])
                            if d and d[0] == "assign" and d[3]["rv"] == "binop" and d[3]["op"] == "Rem":
                                found.add("periodic")
            for c2 in x.calls():
                if c2.name() == "is_empty":
                    found.add("nonempty?")
    R.ob("C09-R6", "arms", "the strategy tests are len > 0 (NonEmptyContent) and t %% period == 0 (Periodic) (found %s)" % sorted(found),
         {"nonempty", "periodic"} <= found, where=rp.where())


def r8(R):
    """window bounds are as wide as timestamps"""
    prog = R.prog
    R.rule("C09-R8", "bounds are as wide as the clock: the fields of Window have the integer type of the event time, and no numeric cast in the "
                     "windowing code targets a type narrower than 64 bits. R3 / R4 take the casts of scope() as value-preserving; a bound stored in "
                     "(or computed through) 32 bits saturates at 2^32 - millisecond timestamps reach that after 50 days, epoch milliseconds are far "
                     "beyond - and every later interval collapses into one degenerate window that contains nothing and always counts as closed")
    adt = prog.adt(WIN)
    if not R.anchor("C09-R8", "adt Window", adt):
        return
    ftys = {f["name"]: f.get("ty") for f in adt["variants"][0]["fields"]}
    ing = R.body("C09-R8", "CSPARQLWindow::<I>::add_to_window", crate="kolibrie")
    tty = None
    if ing is not None:
        tty = ing.local_ty(ing.nargs)          # the event time is the last parameter
    WIDE = {"usize", "u64", "i64", "isize", "u128", "i128", "f64"}
    for fn in ("open", "close"):
        R.ob("C09-R8", "field:" + fn, "Window.%s has the type of the event time (%s; found %s)" % (fn, tty, ftys.get(fn)),
             ftys.get(fn) in WIDE and (tty is None or ftys.get(fn) == tty or tty not in WIDE), where=adt["file"])
    n = 0
    for b in sorted(prog.bodies.values(), key=lambda x: x.key):
        if b.crate != "kolibrie" or not b.file.endswith("rsp/s2r.rs") or "::tests::" in b.key:
            continue
        for bb, i, pl, rv, st in b.assigns():
            if rv["rv"] != "cast" or not str(rv.get("kind", "")).startswith(("IntToInt", "FloatToInt", "IntToFloat", "FloatToFloat")):
                continue
            n += 1
            R.saw(b)
            to = b.local_ty(pl["l"]) if not pl["p"] else (rv.get("ty") or "")
            ok = to in WIDE
            if not ok:
                R.ob("C09-R8", "wide-cast:%s:%s" % (b.short, to), "numeric casts in %s keep 64 bits (found a cast to %s)" % (b.short, to), False, where=b.where(st.get("ln")),
                     detail="a window bound or a time narrowed to %s is wrong for every timestamp beyond its range" % to)
    R.ob("C09-R8", "casts", "numeric casts of the windowing code were examined (%d)" % n, True, where=adt["file"])


def r9(R):
    """window bounds are computed in integers"""
    prog = R.prog
    R.rule("C09-R9", "bounds are exact: the values scope() stores in Window.open / Window.close, and the value its loop compares with the event time, "
                     "are computed in integer arithmetic - no conversion of a time to f64 and back on that path. f64 holds integers exactly only up "
                     "to 2^53: with nanosecond-epoch timestamps (1.7e18, spacing 256) the bounds are no longer multiples of the slide, items land in "
                     "intervals that are not aligned, and for a slide below the spacing `o_i += slide` does not advance and the call never returns. "
                     "(R3 / R4 take the arithmetic of scope() as exact; this rule is what makes that true.)")
    sc = R.body("C09-R9", "CSPARQLWindow::<I>::scope", crate="kolibrie")
    if sc is None:
        return
    R.saw(sc)
    from lib.taint import Taint
    T = Taint(prog, sc)
    nf = 0
    for bb, i, pl, rv, st in sc.assigns():
        if rv["rv"] == "cast" and str(rv.get("kind", "")).startswith("FloatToInt"):
            T.seed(sc, pl["l"], "from-float")
            nf += 1
    T.run()
    aggs = [(bb, rv, st) for bb, i, pl, rv, st in sc.assigns() if rv["rv"] == "aggregate" and rv.get("adt") == WIN]
    R.ob("C09-R9", "builds", "scope() builds the windows it opens (found %d construction)" % len(aggs), len(aggs) >= 1, where=sc.where())
    for bb, rv, st in aggs:
        bad = [fn for fn, op in zip(rv.get("fields", []), rv["ops"]) if "from-float" in T.op_taint(sc, op)]
        R.ob("C09-R9", "exact:%d" % (st.get("ln") or 0), "the bounds of the window built in scope() do not come out of a float (float-to-integer casts in scope(): %d; fields fed by one: %s)"
             % (nf, bad), not bad, where=sc.where(st.get("ln")),
             detail=None if not bad else "an item stamped 1700000000000012586 (ns) with slide 1000 is reported in an interval that closes at no multiple of the slide")
    # the loop of scope() is left by an integer comparison
    fcmp = [st.get("ln") for bb, i, pl, rv, st in sc.assigns() if rv["rv"] == "binop" and rv["op"] in ("Gt", "Ge", "Lt", "Le") and sc.loops_containing(bb)
            and any("f64" in (sc.local_ty(F.op_place(o)["l"]) if F.op_place(o) else str(o.get("ty"))) for o in (rv["a"], rv["b"]))]
    R.ob("C09-R9", "loop-exit", "the loop of scope() compares integers (float comparisons in its loops at lines %s)" % fcmp, not fcmp, where=sc.where(fcmp[0] if fcmp else None),
         detail=None if not fcmp else "`o_i += slide` in f64 does not change o_i once the spacing of f64 exceeds the slide: the loop never ends")


def r10(R):
    """after an event the open windows are exactly those that contain it"""
    prog = R.prog
    R.rule("C09-R10", "closed windows leave: what the ingest methods store back into `active_windows` is the collection their membership filter "
                      "produced (`open <= t < close`) and nothing else - it is not passed through a function that also sees the previous map. A window "
                      "that is kept after it closed stays a candidate of the max-close selection and is reported later, after a window with a "
                      "larger close: the reported intervals are no longer non-decreasing")
    n = 0
    for nm in INGEST:
        b = R.body("C09-R10", "CSPARQLWindow::%s" % nm, crate="kolibrie")
        if b is None:
            continue
        R.saw(b)
        for bb, i, pl, rv, st in b.assigns():
            if not (pl["p"] and pl["p"][-1].get("n") == "active_windows" and pl["p"][-1].get("adt") == CSW) or rv["rv"] != "use":
                continue
            n += 1
            o = b.origin(rv["op"], stop_named=False)
            src = o[1].name() if o[0] == "call" else o[0]
            ok = o[0] == "call" and o[1].name() in ("collect", "from_iter")
            sees_old = False
            if o[0] == "call" and not ok:
                for a in o[1].args:
                    oo = b.origin(a, stop_named=False) if F.op_place(a) else None
                    if oo and oo[0] == "place" and any(e["k"] == "field" and e.get("n") == "active_windows" for e in oo[1]["p"]):
                        sees_old = True
                    pa = F.op_place(a)
                    if pa is not None:
                        for d in b.defs().get(pa["l"], []):
                            if d[0] == "assign" and d[3]["rv"] == "ref" and any(e["k"] == "field" and e.get("n") == "active_windows" for e in d[3]["pl"]["p"]):
                                sees_old = True
            R.ob("C09-R10", "replaced:%s:%d" % (nm, n), "%s replaces the open windows by the filtered collection itself (the stored value comes from `%s`%s)"
                 % (nm, src, ", which also receives the previous map" if sees_old else ""), ok, where=b.where(st.get("ln")),
                 detail=None if ok else "width 4, slide 2, a@1 b@7 c@8 d@9: [0,2)={a} is reported at t=9, after [4,8) was reported at t=8")
    R.floor("C09-R10", "replacements of the open windows in the ingest methods", n, 2)

"""C15 — term identifiers are a stable bijection, also across union (structural clauses)."""
from lib import facts as F
from lib import writers as W
from lib import guards as G
from lib.taint import Taint

DICT = "shared::dictionary::Dictionary"
QTS = "shared::quoted_triple_store::QuotedTripleStore"
DICT_F = ["string_to_id", "id_to_string", "next_id"]
QTS_F = ["id_to_components", "components_to_id", "next_qt_id"]
BIT = "QUOTED_TRIPLE_ID_BIT"
ID_TYPES = ("u32", "shared::dataset_index::Quad", "shared::triple::Triple", "shared::dataset_index::GraphId",
            "&shared::dataset_index::Quad", "&shared::triple::Triple")


def is_test_body(b):
    return b.unit.endswith("__test") or "::tests::" in b.key or b.file.startswith(tuple()) and "/tests/" in b.file


def run(R):
    _run15(R)
    r6(R)
    r7(R)


def _run15(R):
    prog = R.prog
    R.rule("C15-R1", "writer sets (whole workspace): Dictionary.{string_to_id,id_to_string,next_id} and the three "
                     "QuotedTripleStore fields are mutated only by their own new/encode/merge")
    R.rule("C15-R2", "lock-step and monotone counter in encode: both inserts use the same (value,id); id is the "
                     "pre-increment counter; the increment is unconditional on the inserting path; the quoted-range "
                     "assertion dominates the dictionary inserts; decode reads only the id->value map")
    R.rule("C15-R3", "every body that builds a fresh QuotedTripleStore starts next_qt_id at QUOTED_TRIPLE_ID_BIT")
    R.rule("C15-R4", "union re-encodes every identifier read from `other` before it reaches the result")

    for adt, fields, label in ((DICT, DICT_F, "Dictionary"), (QTS, QTS_F, "QuotedTripleStore")):
        a = R.anchor("C15-R1", "adt " + label, prog.adt(adt))
        if not a:
            continue
        have = [f["name"] for f in a["variants"][0]["fields"]]
        R.ob("C15-R1", "fields:" + label, "%s has exactly the fields the checker knows (%s)" % (label, have),
             sorted(have) == sorted(fields), where=a["file"])
        touches = W.field_touches(prog, adt, fields)
        prod = [t for t in touches if not is_test_body(t.body)]
        tests = [t for t in touches if is_test_body(t.body)]
        bodies = {}
        for t in prod:
            bodies.setdefault(t.body.key, []).append(t)
            R.saw(t.body)
        for key, ts in sorted(bodies.items()):
            b = ts[0].body
            own = b.self_adt == adt
            role = b.name in ("new", "encode", "merge")
            only_construct = all(t.kind == "construct" for t in ts)
            ok = own and (role or only_construct)
            R.ob("C15-R1", "writer:%s:%s" % (label, key),
                 "%s mutates %s fields %s: must be %s's own new/encode/merge" % (b.pretty, label, sorted({t.field for t in ts}), label),
                 ok, where=b.where(ts[0].ln),
                 detail=None if ok else "a foreign writer can break the lock-step of the two maps / the counter")
        R.floor("C15-R1", "%s writer bodies" % label, len(bodies), 3)
        if tests:
            R.advisory("C15-R1", "test-only writers of %s (not judged): %s" % (label, sorted({t.body.pretty for t in tests})))

    r2_dictionary(R)
    r2_quoted(R)
    r3(R)
    r4_union(R)
    r5_translation(R)


def _field_of_ref(body, op, adt):
    """field of `adt` that the (reference) operand points to"""
    o = body.origin(op, stop_named=False)
    if o[0] == "place":
        for e in o[1]["p"]:
            if e["k"] == "field" and e.get("adt") == adt:
                return e["n"]
    return None


def _src_of(body, op):
    """normalised source of a value operand: ('local', l) after alias tracing, ('field', name), ('param', l), ('call', key, src...)"""
    o = body.origin(op, stop_named=False)
    if o[0] == "place":
        pl = o[1]
        fs = F.place_fields(pl)
        if fs:
            return ("field", pl["l"], tuple(fs))
        return ("local", pl["l"])
    if o[0] == "call":
        c = o[1]
        return ("call", c.name(), tuple(_src_of(body, a) for a in c.args))
    if o[0] == "const":
        return ("const", o[1].get("d"))
    rv = o[1]
    if rv["rv"] == "aggregate":
        return ("agg", rv.get("adt") or rv.get("ak"), rv.get("variant"), tuple(_src_of(body, x) for x in rv["ops"]))
    if rv["rv"] == "binop":
        return ("binop", rv["op"], _src_of(body, rv["a"]), _src_of(body, rv["b"]))
    if rv["rv"] in ("unop", "cast"):
        return (rv["rv"], rv.get("op") if rv["rv"] == "unop" else rv.get("ty"), _src_of(body, rv.get("a") or rv.get("op")))
    return ("rv", rv["rv"], id(rv))


def r2_dictionary(R):
    prog = R.prog
    b = R.body("C15-R2", "Dictionary::encode", crate="shared")
    if b is None:
        return
    ins = [c for c in b.calls() if c.name() == "insert" and c.args and _field_of_ref(b, c.args[0], DICT)]
    by_field = {_field_of_ref(b, c.args[0], DICT): c for c in ins}
    R.ob("C15-R2", "dict:two-inserts", "encode inserts into both maps exactly once (found %s)" % sorted(by_field),
         len(ins) == 2 and set(by_field) == {"string_to_id", "id_to_string"}, where=b.where())
    if len(ins) != 2 or set(by_field) != {"string_to_id", "id_to_string"}:
        return
    s2i, i2s = by_field["string_to_id"], by_field["id_to_string"]
    id1, id2 = _src_of(b, s2i.args[2]), _src_of(b, i2s.args[1])
    v1, v2 = _src_of(b, s2i.args[1]), _src_of(b, i2s.args[2])
    R.ob("C15-R2", "dict:same-id", "both inserts use the same id value (%s / %s)" % (id1, id2), id1 == id2, where=b.where(s2i.ln))
    R.ob("C15-R2", "dict:same-value", "both inserts use the same lexical value (%s / %s)" % (v1, v2), v1 == v2 and
         _mentions_param(v1, 2), where=b.where(s2i.ln), detail="the value must be derived from the `value` parameter")
    # id is the counter read before the increment
    idl = _id_local(b, s2i.args[2])
    d = b.single_def(idl) if idl is not None else None
    from_counter = bool(d and d[0] == "assign" and d[3]["rv"] == "use" and F.op_place(d[3]["op"]) is not None
                        and F.place_has_field(F.op_place(d[3]["op"]), DICT, "next_id"))
    R.ob("C15-R2", "dict:id-is-counter", "the inserted id is a copy of `next_id`", from_counter, where=b.where(s2i.ln))
    incs = [(bb, s) for bb, i, pl, rv, s in b.assigns() if F.place_has_field(pl, DICT, "next_id")]
    R.ob("C15-R2", "dict:one-increment", "`next_id` is assigned exactly once in encode", len(incs) == 1, where=b.where())
    if from_counter and len(incs) == 1:
        inc_bb = incs[0][0]
        read_bb = d[1]
        # the increment is by +1 of the counter itself
        R.ob("C15-R2", "dict:increment-by-one", "the assignment is next_id + 1", _is_plus_one(b, incs[0][1], DICT, "next_id"),
             where=b.where(incs[0][1].get("ln")))
        # counter read happens before the increment, and the increment lies on every path from the inserts to an exit
        R.ob("C15-R2", "dict:read-before-increment", "id is read before the counter is advanced",
             b.dominates(read_bb, inc_bb) and (read_bb != inc_bb), where=b.where())
        for nm, c in (("string_to_id", s2i), ("id_to_string", i2s)):
            ok = b.dominates(c.bb, inc_bb) and not (b.reach_from([c.bb], avoid={inc_bb}) & set(b.exits()))
            R.ob("C15-R2", "dict:increment-unconditional:" + nm,
                 "every path from the %s insert to a return advances the counter" % nm, ok, where=b.where(c.ln))
        # no path advances the counter without both inserts
        for nm, c in (("string_to_id", s2i), ("id_to_string", i2s)):
            R.ob("C15-R2", "dict:insert-dominates-increment:" + nm, "the %s insert dominates the counter increment" % nm,
                 b.dominates(c.bb, inc_bb), where=b.where(c.ln))
    # range assertion dominates the three writes
    def is_range_guard(c):
        if c["kind"] != "cmp":
            return False
        n = G.normalize_cmp(b, c)
        op, a, bb_ = n

        def is_counter(o):
            pl = F.op_place(o)
            if pl is None:
                return False
            oo = b.origin(o, stop_named=False)
            return oo[0] == "place" and F.place_has_field(oo[1], DICT, "next_id")

        def is_bit(o):
            return o.get("k") == "const" and (o.get("const_def", "").endswith(BIT) or o.get("v") == "2147483648")
        return (op == "Lt" and is_counter(a) and is_bit(bb_)) or (op == "Gt" and is_bit(a) and is_counter(bb_))
    for nm, c in (("string_to_id", s2i), ("id_to_string", i2s)):
        conds = G.conditions(b, c.bb)
        R.ob("C15-R2", "dict:range-guard:" + nm, "the %s insert is dominated by `next_id < QUOTED_TRIPLE_ID_BIT`" % nm,
             any(is_range_guard(x) for x in conds), where=b.where(c.ln),
             detail="without it plain ids can run into the quoted-triple id range")
    # early return path returns the stored id (lookup in string_to_id)
    gets = [c for c in b.calls() if c.name() == "get" and c.args and _field_of_ref(b, c.args[0], DICT) == "string_to_id"]
    R.ob("C15-R2", "dict:lookup-first", "encode looks the value up in string_to_id before allocating", bool(gets)
         and all(b.dominates(gets[0].bb, c.bb) for c in ins), where=b.where())
    # decode reads only id_to_string
    dec = R.body("C15-R2", "Dictionary::decode", crate="shared")
    if dec is not None:
        read = set()
        for bb, i, pl, rv, s in dec.assigns():
            for p, kind in F.rv_places(rv):
                for e in p["p"]:
                    if e["k"] == "field" and e.get("adt") == DICT:
                        read.add(e["n"])
        R.ob("C15-R2", "dict:decode-reads", "decode reads only id_to_string (reads %s)" % sorted(read), read == {"id_to_string"},
             where=dec.where())


def _mentions_param(src, l):
    if src[0] == "local":
        return src[1] == l
    if src[0] == "field":
        return src[1] == l
    if src[0] == "call":
        return any(_mentions_param(a, l) for a in src[2])
    return False


def _id_local(b, op):
    l = b.alias_root(op)
    return l


def _is_plus_one(b, stmt, adt, field):
    rv = stmt["rv"]
    if rv["rv"] != "use":
        return False
    pl = F.op_place(rv["op"])
    if pl is None:
        return False
    d = b.single_def(pl["l"])
    if not d or d[0] != "assign" or d[3]["rv"] != "binop" or d[3]["op"] not in ("AddWithOverflow", "Add", "AddUnchecked"):
        return False
    a, c = d[3]["a"], d[3]["b"]
    pa = F.op_place(a)
    if pa is None:
        return False
    oa = b.origin(a, stop_named=False)
    return oa[0] == "place" and F.place_has_field(oa[1], adt, field) and F.const_int(c) == 1


def r2_quoted(R):
    b = R.body("C15-R2", "QuotedTripleStore::encode", crate="shared")
    if b is None:
        return
    ins = [c for c in b.calls() if c.name() == "insert" and c.args and _field_of_ref(b, c.args[0], QTS)]
    by_field = {_field_of_ref(b, c.args[0], QTS): c for c in ins}
    ok = len(ins) == 2 and set(by_field) == {"id_to_components", "components_to_id"}
    R.ob("C15-R2", "qts:two-inserts", "quoted encode inserts into both maps exactly once (found %s)" % sorted(by_field), ok,
         where=b.where())
    if not ok:
        return
    i2c, c2i = by_field["id_to_components"], by_field["components_to_id"]
    R.ob("C15-R2", "qts:same-id", "both inserts use the same id", _src_of(b, i2c.args[1]) == _src_of(b, c2i.args[2]),
         where=b.where(i2c.ln))
    R.ob("C15-R2", "qts:same-key", "both inserts use the same component key", _src_of(b, i2c.args[2]) == _src_of(b, c2i.args[1]),
         where=b.where(i2c.ln))
    idl = b.alias_root(i2c.args[1])
    d = b.single_def(idl) if idl is not None else None
    from_counter = bool(d and d[0] == "assign" and d[3]["rv"] == "use" and F.op_place(d[3]["op"]) is not None
                        and F.place_has_field(F.op_place(d[3]["op"]), QTS, "next_qt_id"))
    R.ob("C15-R2", "qts:id-is-counter", "the inserted id is a copy of `next_qt_id`", from_counter, where=b.where(i2c.ln))
    incs = [(bb, s) for bb, i, pl, rv, s in b.assigns() if F.place_has_field(pl, QTS, "next_qt_id")]
    R.ob("C15-R2", "qts:one-increment", "`next_qt_id` is assigned exactly once in encode", len(incs) == 1, where=b.where())
    if from_counter and len(incs) == 1:
        inc_bb = incs[0][0]
        R.ob("C15-R2", "qts:increment-by-one", "the assignment is next_qt_id + 1", _is_plus_one(b, incs[0][1], QTS, "next_qt_id"),
             where=b.where(incs[0][1].get("ln")))
        R.ob("C15-R2", "qts:read-before-increment", "id is read before the counter is advanced",
             b.dominates(d[1], inc_bb), where=b.where())
        # on every path that inserts, the counter is advanced (before or after) and vice versa
        for nm, c in (("id_to_components", i2c), ("components_to_id", c2i)):
            pre = inc_bb in b.dominators(c.bb)
            post = b.dominates(c.bb, inc_bb) and not (b.reach_from([c.bb], avoid={inc_bb}) & set(b.exits()))
            R.ob("C15-R2", "qts:increment-with-insert:" + nm, "the %s insert and the counter increment occur together" % nm,
                 pre or post, where=b.where(c.ln))
            if pre:
                ok2 = not (b.reach_from([inc_bb], avoid={c.bb}) & set(b.exits()))
                R.ob("C15-R2", "qts:insert-after-increment:" + nm, "once the counter is advanced the %s insert always follows" % nm,
                     ok2, where=b.where(c.ln))
    gets = [c for c in b.calls() if c.name() == "get" and c.args and _field_of_ref(b, c.args[0], QTS) == "components_to_id"]
    R.ob("C15-R2", "qts:lookup-first", "quoted encode looks the key up before allocating",
         bool(gets) and all(b.dominates(gets[0].bb, c.bb) for c in ins), where=b.where())
    # the looked-up key and the inserted key are the same value
    if gets:
        R.ob("C15-R2", "qts:lookup-key", "lookup key equals inserted key",
             _src_of(b, gets[0].args[1]) == _src_of(b, c2i.args[1]), where=b.where(gets[0].ln))


def r3(R):
    prog = R.prog
    n = 0
    for b in sorted(prog.bodies.values(), key=lambda x: x.key):
        if is_test_body(b):
            continue
        for bb, i, pl, rv, s in b.assigns():
            if rv["rv"] == "aggregate" and rv.get("ak") == "adt" and rv.get("adt") == QTS:
                n += 1
                R.saw(b)
                fields = rv["fields"]
                op = rv["ops"][fields.index("next_qt_id")]
                verdict, why = _qt_start(b, op)
                R.ob("C15-R3", "ctor:" + b.key, "%s builds a QuotedTripleStore whose next_qt_id %s" % (b.pretty, why), verdict,
                     where=b.where(s.get("ln")),
                     detail=None if verdict else "a store starting below the quoted range hands out ids that collide with plain term ids")
    R.floor("C15-R3", "QuotedTripleStore constructors", n, 3)


def _qt_start(b, op):
    if op.get("k") == "const":
        if op.get("const_def", "").endswith(BIT):
            return True, "is QUOTED_TRIPLE_ID_BIT"
        return False, "is the constant %s" % op.get("d")
    o = b.origin(op, stop_named=False)
    if o[0] == "const":
        c = o[1]
        if c.get("const_def", "").endswith(BIT):
            return True, "is QUOTED_TRIPLE_ID_BIT"
        return False, "is the constant %s" % c.get("d")
    if o[0] == "place" and F.place_has_field(o[1], QTS, "next_qt_id"):
        return True, "is copied from an existing store"
    if o[0] == "call":
        c = o[1]
        nm = c.pretty or ""
        if c.name() == "clone" and c.args:
            oo = b.origin(c.args[0], stop_named=False)
            if oo[0] == "place" and F.place_has_field(oo[1], QTS, "next_qt_id"):
                return True, "is cloned from an existing store"
        if "serde" in nm or "Deserialize" in nm or "missing_field" in nm or "next_value" in nm or "next_element" in nm:
            return True, "is deserialised"
        if c.name() == "default":
            return False, "is u32::default() = 0"
        return False, "comes from %s" % nm
    if b.derived and ("serde" in b.key or "Deserialize" in b.pretty or "__Visitor" in b.pretty):
        return True, "is deserialised"
    return False, "has an origin the checker does not recognise"


def _sources(b, op, seen=None, depth=0):
    """terminal sources of a value, following every definition of multi-definition locals:
    ('call', Call) | ('param', local) | ('const', op) | ('other', text)"""
    seen = seen if seen is not None else set()
    pl = F.op_place(op)
    if pl is None:
        return {("const", str(op.get("d") or op.get("v")))}
    l = pl["l"]
    if l in seen or depth > 25:
        return set()
    seen = seen | {l}
    out = set()
    ds = b.defs().get(l, [])
    if not ds:
        return {("other", "undefined _%d" % l)}
    for d in ds:
        if d[0] == "arg":
            out.add(("param", l))
        elif d[0] == "call":
            c = d[2]
            if c.name() in ("deref", "clone", "borrow", "unwrap", "expect", "unwrap_or_else", "copied", "cloned", "into", "from") and c.args:
                out |= _sources(b, c.args[0], seen, depth + 1)
            else:
                out.add(("call", c))
        elif d[0] == "assign":
            rv = d[3]
            if rv["rv"] in ("use", "cast"):
                out |= _sources(b, rv["op"], seen, depth + 1)
            elif rv["rv"] == "ref":
                out |= _sources(b, {"k": "copy", "pl": rv["pl"]}, seen, depth + 1)
            else:
                out.add(("other", rv["rv"]))
    return out


def r5_translation(R):
    R.rule("C15-R5", "translation provenance: every identifier that reencode_term_id returns or records in its translation cache is a "
                     "cache hit, the target dictionary's encoding of the decoded source term, or the target store's encoding of the "
                     "recursively translated components - never an identifier of the source database itself")
    b = R.body("C15-R5", "sparql_database::reencode_term_id", crate="kolibrie")
    if b is None:
        return
    R.saw(b)
    fam = R.prog.family(b.key)

    def judge(x, op, what, ln):
        src = _sources(x, op)
        bad = []
        for k, v in sorted(src, key=str):
            if k == "call":
                c = v
                nm = c.name()
                if nm == "get" and "HashMap" in (c.pretty or ""):
                    continue
                if nm == "encode" and "Dictionary" in (c.pretty or ""):
                    inner = _sources(x, c.args[1]) if len(c.args) > 1 else set()
                    if inner and all(k2 == "call" and v2.name() == "decode" for k2, v2 in inner):
                        continue
                    bad.append("Dictionary::encode of something other than the decoded source term")
                    continue
                if nm == "encode" and "QuotedTripleStore" in (c.pretty or ""):
                    comp_ok = len(c.args) == 4
                    for a in c.args[1:]:
                        inner = _sources(x, a)
                        if not inner or not all(k2 == "call" and v2.name() == "reencode_term_id" for k2, v2 in inner):
                            comp_ok = False
                    if comp_ok:
                        continue
                    bad.append("QuotedTripleStore::encode of components that were not all translated recursively")
                    continue
                bad.append("result of %s" % nm)
            elif k == "param":
                bad.append("the source identifier `%s` itself" % (x.local_name(v) or "_%d" % v))
            else:
                bad.append("%s %s" % (k, v))
        R.ob("C15-R5", what, "reencode_term_id: the %s comes only from the cache, Dictionary::encode(decoded term) or "
             "QuotedTripleStore::encode(translated components)" % what.split(":")[0], not bad, where=x.where(ln),
             detail=None if not bad else "found: %s - identifiers are local to the database that issued them" % "; ".join(sorted(set(bad))))

    nret = nins = 0
    for x in fam:
        if x.key == b.key:
            for bb, i, pl, rv, s in x.assigns():
                if pl["l"] == 0 and not pl["p"] and rv["rv"] in ("use", "cast"):
                    nret += 1
                    judge(x, rv["op"], "returned value:%d" % nret, s["ln"])
        for c in x.calls():
            if c.name() == "insert" and "HashMap" in (c.pretty or "") and len(c.args) == 3:
                nins += 1
                judge(x, c.args[2], "cached translation:%d" % nins, c.ln)
    R.floor("C15-R5", "return sites of reencode_term_id", nret, 2)
    R.floor("C15-R5", "translation-cache insertions", nins, 1)


def r4_union(R):
    prog = R.prog
    b = R.body("C15-R4", "SparqlDatabase::union", crate="kolibrie")
    if b is None:
        return
    re_key = None
    for c in b.calls():
        if c.name() == "reencode_term_id":
            re_key = c.key

    def summ(c):
        if c.name() == "reencode_term_id":
            return "clean"
        nm = c.name()
        if nm in ("len", "is_empty", "contains_key", "contains"):
            return "clean"
        return None

    T = Taint(prog, b, summaries=summ)
    T.seed(b, 2, "other")
    T.seed(b, 1, "self")
    T.run()
    san = [c for c in b.calls() if c.name() == "reencode_term_id"]
    R.floor("C15-R4", "reencode_term_id call sites in union", len(san), 10)
    # every sanitizer call translates from other's stores into the merged stores
    sinks = []
    for c in b.calls():
        nm = c.name()
        if nm in ("insert_quad", "create_graph", "insert", "push", "extend", "add_quad", "add_triple"):
            sinks.append(c)
    nsink = 0
    for c in sinks:
        for j, a in enumerate(c.args[1:], start=1):
            pl = F.op_place(a)
            if pl is None:
                continue
            ty = b.local_ty(pl["l"])
            if not ty.lstrip("&").startswith(("u32", "shared::dataset_index::Quad", "shared::triple::Triple",
                                              "shared::dataset_index::GraphId")):
                continue
            nsink += 1
            tl = _deep_taint(T, b, a)
            ok = "other" not in tl
            R.ob("C15-R4", "sink:%s:%d:arg%d" % (c.name(), _ordinal(b, c), j),
                 "identifier passed to %s is not a raw id of `other`" % c.name(), ok, where=b.where(c.ln),
                 detail=None if ok else "ids of `other` are local to its dictionary; they must pass reencode_term_id")
    R.floor("C15-R4", "identifier-carrying sink arguments in union", nsink, 5)
    # the result aggregate: dictionary comes from a clone of self's dictionary and is the sanitizer's target
    agg = [(bb, rv, s) for bb, i, pl, rv, s in b.assigns()
           if rv["rv"] == "aggregate" and rv.get("adt") == "kolibrie::sparql_database::SparqlDatabase"]
    R.ob("C15-R4", "result", "union builds exactly one result database", len(agg) == 1, where=b.where())
    if len(agg) == 1 and san:
        bb, rv, s = agg[0]
        fields = rv["fields"]
        tgt_dict = {b.alias_root(c.args[3]) for c in san}
        tgt_qts = {b.alias_root(c.args[4]) for c in san}
        src_dict = {b.alias_root(c.args[1]) for c in san}
        R.ob("C15-R4", "one-target", "all re-encodings target one dictionary and one quoted store",
             len(tgt_dict) == 1 and len(tgt_qts) == 1 and None not in tgt_dict, where=b.where())
        if len(tgt_dict) == 1 and None not in tgt_dict:
            md = list(tgt_dict)[0]
            d = b.single_def(md)
            ok = bool(d and d[0] == "call" and d[2].name() == "clone" and "self" in T.op_taint(b, d[2].args[0])
                      and "other" not in T.op_taint(b, d[2].args[0]))
            R.ob("C15-R4", "merged-dict-from-self", "the merged dictionary starts as a clone of self's dictionary "
                 "(so self's ids stay valid)", ok, where=b.where())
            # the result's dictionary field wraps the merged dictionary
            dop = rv["ops"][fields.index("dictionary")]
            R.ob("C15-R4", "result-dict", "the result's dictionary is the merged dictionary",
                 _wraps(b, dop, md), where=b.where(s.get("ln")))
        if len(tgt_qts) == 1 and None not in tgt_qts:
            mq = list(tgt_qts)[0]
            qop = rv["ops"][fields.index("quoted_triple_store")]
            R.ob("C15-R4", "result-qts", "the result's quoted store is the merged quoted store", _wraps(b, qop, mq),
                 where=b.where(s.get("ln")))
            d = b.single_def(mq)
            ok = bool(d and d[0] == "call" and d[2].name() == "clone" and "other" not in T.op_taint(b, d[2].args[0]))
            R.ob("C15-R4", "merged-qts-from-self", "the merged quoted store starts as a clone of self's", ok, where=b.where())
        # sources are other's stores
        for c in san:
            t1 = T.op_taint(b, c.args[1])
            if "other" not in t1 or "self" in t1:
                R.ob("C15-R4", "source-is-other:%d" % _ordinal(b, c), "re-encoding decodes with `other`'s dictionary", False,
                     where=b.where(c.ln))
    r8_exclusive_targets(R, b, san)
    # every id-carrying field of the result is free of raw `other` ids
    if len(agg) == 1:
        bb, rv, s = agg[0]
        for fn, op in zip(rv["fields"], rv["ops"]):
            if fn in ("dataset_index",):
                # built through the sinks above; the local itself is only tainted through its &mut uses
                continue


def r8_exclusive_targets(R, b, san):
    R.rule("C15-R8", "in union the merged dictionary, the merged quoted store and the translation cache are written by "
                     "reencode_term_id only: nothing else may take them mutably (a pre-seeded cache entry or a wholesale merge "
                     "of `other`'s quoted store bypasses the re-encoding; the two quoted stores number their ids independently "
                     "even when the dictionary is shared)")
    if not san:
        return
    names = {3: "merged dictionary", 4: "merged quoted store", 5: "translation cache"}
    roots = {}
    for c in san:
        for j, nm in names.items():
            if len(c.args) > j:
                r = b.alias_root(c.args[j])
                if r is not None:
                    roots.setdefault(r, nm)
    R.floor("C15-R8", "exclusive targets of reencode_term_id in union", len(roots), 3)
    # &mut borrows of the roots, and the calls they are handed to
    mutrefs = {}
    for bb, i, pl, rv, s in b.assigns():
        if rv["rv"] in ("ref", "rawptr") and rv.get("bk") in ("mut", "Mut") and not pl["p"]:
            src = rv["pl"]
            r = b.alias_root(src["l"]) if not any(e["k"] != "deref" for e in src["p"]) else None
            if r in roots:
                mutrefs[pl["l"]] = r
    nuse = 0
    for c in b.calls():
        for j, a in enumerate(c.args):
            apl = F.op_place(a)
            if apl is None:
                continue
            l = apl["l"]
            r = mutrefs.get(l)
            if r is None:
                ar = b.alias_root(a)
                r = mutrefs.get(ar) if ar is not None else None
            if r is None:
                continue
            nuse += 1
            ok = c.name() == "reencode_term_id"
            R.ob("C15-R8", "mut-use:%s:%s:%d" % (roots[r].replace(" ", "-"), c.name(), _ordinal(b, c)),
                 "the %s is handed mutably to reencode_term_id only" % roots[r], ok, where=b.where(c.ln),
                 detail=None if ok else "%s writes the %s directly: identifiers of `other` (quoted-triple ids in particular, which "
                 "each store numbers on its own) reach the result without being re-encoded" % (c.name(), roots[r]))
    R.floor("C15-R8", "mutable uses of the exclusive targets in union", nuse, 3)


def _ordinal(b, c):
    same = [x for x in b.calls() if x.name() == c.name()]
    same.sort(key=lambda x: x.bb)
    return same.index(c)


def _deep_taint(T, b, op):
    """taint of an operand including, for references to aggregates built locally, the aggregate's operands"""
    out = set(T.op_taint(b, op))
    pl = F.op_place(op)
    if pl is None:
        return out
    seen = set()
    work = [pl["l"]]
    while work:
        l = work.pop()
        if l in seen:
            continue
        seen.add(l)
        out |= T.get(b, l)
        d = b.single_def(l)
        if d and d[0] == "assign":
            for p, kind in F.rv_places(d[3]):
                work.append(p["l"])
    return out


def _wraps(b, op, target_local, depth=0):
    """operand is target_local possibly wrapped by constructor calls (Arc::new(RwLock::new(x)))"""
    if depth > 6:
        return False
    r = b.alias_root(op)
    if r == target_local:
        return True
    if r is None:
        return False
    d = b.single_def(r)
    if d and d[0] == "call" and d[2].name() == "new" and len(d[2].args) == 1:
        return _wraps(b, d[2].args[0], target_local, depth + 1)
    return False


# ---------------------------------------------------------------- R6 decoding is a function of (id, stores)

def r6(R):
    from lib import guards as G
    prog = R.prog
    R.rule("C15-R6", "decoding is a function of the identifier and the stores alone: the recursive decoders carry no mutable state that can veto "
                     "a component - or, if a visited set is threaded through the recursion, an identifier entered into it is removed again on "
                     "every path that yields a value, so a term that contains the same quoted triple twice decodes like any other")
    fam = []
    for b in prog.bodies.values():
        if b.crate not in ("shared", "kolibrie") or b.is_closure or "::tests::" in b.key:
            continue
        if not (b.name.startswith("decode") and (b.file.endswith("dictionary.rs") or b.file.endswith("quoted_triple_store.rs") or b.file.endswith("sparql_database.rs"))):
            continue
        fam.append(b)
    R.floor("C15-R6", "decoder bodies", len(fam), 4)
    for b in sorted(fam, key=lambda x: x.key):
        R.saw(b)
        muts = [i for i in range(1, b.nargs + 1) if b.local_ty(i).startswith("&mut")]
        if not muts:
            R.ob("C15-R6", "pure:" + b.short, "%s takes no mutable state" % b.short, True, where=b.where())
            continue
        for i in muts:
            ty = b.local_ty(i)
            vetoes = [c for c in b.calls() if c.name() in ("insert", "contains", "contains_key") and c.args and b.alias_root(c.args[0]) == i]
            if not vetoes:
                R.ob("C15-R6", "state:%s:%d" % (b.short, i), "%s's mutable parameter `%s` is not consulted to reject a component" % (b.short, b.local_name(i)), True, where=b.where())
                continue
            removes = [c for c in b.calls() if c.name() in ("remove", "take", "pop", "clear", "truncate") and c.args and b.alias_root(c.args[0]) == i]
            somes = {bb for bb, k, pl, rv, st in b.assigns() if rv["rv"] == "aggregate" and rv.get("variant") == "Some"}
            ins = [c for c in vetoes if c.name() == "insert"]
            bad = False
            for c in ins:
                reach = b.reach_from(b.succ(c.bb), avoid={r.bb for r in removes})
                if reach & somes:
                    bad = True
            ok = bool(ins) and not bad and bool(removes) or (not ins)
            R.ob("C15-R6", "restored:%s:%d" % (b.short, i), "an identifier that %s enters into `%s` is removed again before a value is returned"
                 % (b.short, b.local_name(i)), ok, where=b.where(ins[0].ln if ins else None),
                 detail=None if ok else "the set remembers every quoted triple expanded during the whole call, not just the current path: the second "
                 "occurrence of a shared sub-term is refused and a well-formed term decodes to nothing (`unknown` in query results)")


def r7(R):
    """the identifier counter never moves backwards"""
    prog = R.prog
    R.rule("C15-R7", "identifiers are never handed out twice: every assignment to Dictionary.next_id outside the constructors stores a value that is at "
                     "least the counter's previous value - the old value plus something, or a `max` in which the old value takes part (also through "
                     "an accumulator that starts from it). A counter taken from elsewhere (the other dictionary of a merge, a recount of the entries) "
                     "can be smaller: the next new term then receives an identifier that an older term owns, and that identifier changes its meaning")
    n = 0
    for b in sorted(prog.bodies.values(), key=lambda x: x.key):
        if b.crate != "shared" or "::tests::" in b.key or b.derived:
            continue
        for bb, i, pl, rv, st in b.assigns():
            if not F.place_has_field(pl, DICT, "next_id"):
                continue
            if b.name in ("new", "default", "with_capacity", "clear", "from_parts", "deserialize"):
                continue
            n += 1
            R.saw(b)
            base = pl["l"]

            def ge_old(op, assume, depth=0):
                if depth > 12:
                    return False
                p = F.op_place(op)
                if p is None:
                    return False
                if F.place_has_field(p, DICT, "next_id") and (p["l"] == base or b.alias_root(p["l"]) == b.alias_root(base)):
                    return True
                if p["p"] and not all(e["k"] in ("field", "deref") for e in p["p"]):
                    return False
                l = p["l"]
                if l in assume:
                    return True
                ds = [d for d in b.defs().get(l, []) if d[0] in ("assign", "call", "partial", "partial_call")]
                if not ds or any(d[0] == "arg" for d in b.defs().get(l, [])):
                    return False
                res = []
                for d in ds:
                    if d[0] in ("call", "partial_call"):
                        c = d[2]
                        if c.name() in ("max", "saturating_add", "wrapping_add", "checked_add", "unwrap", "expect", "clone", "deref", "unwrap_or", "max_by_key"):
                            res.append(any(ge_old(a, assume | {l}, depth + 1) for a in c.args) if c.name() in ("max", "saturating_add", "wrapping_add", "checked_add")
                                       else (bool(c.args) and ge_old(c.args[0], assume | {l}, depth + 1)))
                        else:
                            res.append(False)
                    else:
                        r2 = d[3]
                        if r2["rv"] in ("use", "cast"):
                            res.append(ge_old(r2["op"], assume | {l}, depth + 1))
                        elif r2["rv"] in ("ref", "rawptr"):
                            res.append(ge_old({"k": "copy", "pl": r2["pl"]}, assume | {l}, depth + 1))
                        elif r2["rv"] in ("binop", "checked_binop") and str(r2["op"]).startswith("Add"):
                            res.append(ge_old(r2["a"], assume | {l}, depth + 1) or ge_old(r2["b"], assume | {l}, depth + 1))
                        else:
                            res.append(False)
                # an accumulator: every definition keeps it at least as large; at least one definition is anchored in the old counter without the assumption
                return all(res) and bool(res)
            src = rv["op"] if rv["rv"] in ("use", "cast") else None
            ok = False
            if src is not None:
                ok = ge_old(src, frozenset())
            elif rv["rv"] in ("binop", "checked_binop") and str(rv["op"]).startswith("Add"):
                ok = ge_old(rv["a"], frozenset()) or ge_old(rv["b"], frozenset())
            R.ob("C15-R7", "monotone:%s:%d" % (b.short, n), "the value %s stores in next_id is at least the previous counter" % b.short, ok, where=b.where(st.get("ln")),
                 detail=None if ok else "after merging a dictionary that holds fewer identifiers the counter moves back: the next encode() returns an identifier "
                 "already owned by another term, and decode(encode(old term)) answers the new one")
    R.floor("C15-R7", "assignments to next_id outside the constructors", n, 2)

"""C02 — answers do not depend on the chosen plan (structural clauses)."""
from lib import facts as F
from lib import guards as G
from lib.taint import Taint

LOP = "kolibrie::streamertail_optimizer::operators::logical::LogicalOperator"
POP = "kolibrie::streamertail_optimizer::operators::physical::PhysicalOperator"
ROW_TY = "std::collections::hash::map::HashMap<alloc::string::String, u32>"
WORKSPACE = ("kolibrie::", "shared::", "datalog::", "ml::")


def memo_scope(prog):
    ck = prog.one("Streamertail::create_memo_key", crate="kolibrie")
    if ck is None:
        return None, {}
    scope = {}
    for k in prog.reachable([ck.key]):
        b = prog.bodies.get(k)
        if b is not None and b.crate == "kolibrie" and b.file.endswith("streamertail_optimizer/optimizer.rs"):
            scope[k] = b
    return ck, scope


def field_reads(scope):
    """(kind, type key, variant) -> set of field names/indexes projected anywhere in scope"""
    reads = {}

    def note(pl):
        variant = None
        for e in pl["p"]:
            if e["k"] == "downcast":
                variant = e.get("n")
                continue
            if e["k"] == "field":
                if e.get("adt"):
                    key = ("adt", e["adt"], e.get("variant"))
                    reads.setdefault(key, set()).add(e["n"])
                elif e.get("tuple"):
                    key = ("tuple", e["tuple"], e.get("arity"))
                    reads.setdefault(key, set()).add(e["i"])
            variant = None
    for b in scope.values():
        for bb, i, pl, rv, s in b.assigns():
            note(pl)
            for p, kind in F.rv_places(rv):
                note(p)
        for c in b.calls():
            for a in c.args:
                p = F.op_place(a)
                if p is not None:
                    note(p)
        for bb, t in b.terms():
            if t["t"] == "switch":
                p = F.op_place(t["discr"])
                if p is not None:
                    note(p)
    return reads


CARDINALITY = ("len", "is_empty", "count", "capacity", "contains", "contains_key", "is_some", "is_none", "starts_with", "ends_with")


def serialized_fields(prog, scope):
    """set of (type key, field) whose value reaches a formatting sink (Debug/Display argument or a recursive serializer call)"""
    covered = set()
    keys = set(scope)

    def summ(c):
        if c.name() in CARDINALITY:
            return "clean"
        return None
    roots = [b for b in scope.values() if not b.is_closure]
    for root in roots:
        T = Taint(prog, root, summaries=summ)
        fam = prog.family(root.key)
        # seed: every read of a field gets the label of that field on the destination
        def labels_of(pl):
            out = []
            for e in pl["p"]:
                if e["k"] == "field":
                    if e.get("adt"):
                        out.append((("adt", e["adt"], e.get("variant")), e["n"]))
                    elif e.get("tuple"):
                        out.append((("tuple", e["tuple"], e.get("arity")), e["i"]))
            return out[-1:] if out else []
        for x in fam:
            for bb, i, pl, rv, s in x.assigns():
                for p2, kind in F.rv_places(rv):
                    for lab in labels_of(p2):
                        T.t[T._var_of_place(x, pl)].add(lab)
            for c in x.calls():
                for a in c.args:
                    p2 = F.op_place(a)
                    if p2 is not None:
                        for lab in labels_of(p2):
                            # the argument itself carries the label: handled at the sink check below
                            T.t[(x.key, "arg", c.bb, id(a))].add(lab)
        T.run()
        for x in fam:
            for c in x.calls():
                sink = False
                if c.name() in ("new_debug", "new_display") and "fmt::rt::Argument" in (c.pretty or ""):
                    sink = True
                elif c.key in keys and (prog.bodies[c.key].name or "").startswith("serialize"):
                    sink = True
                elif c.name() in ("to_string", "join", "push_str") :
                    sink = True
                if not sink:
                    continue
                for a in c.args:
                    for lab in T.op_taint(x, a):
                        covered.add(lab)
                    for lab in T.t.get((x.key, "arg", c.bb, id(a)), ()):
                        covered.add(lab)
    return covered


def run(R):
    prog = R.prog
    R.rule("C02-R1", "memo-key completeness: every field of every plan node, expression node and modifier tuple that the memo "
                     "key serializers take apart is written into the key (whole values only through derived Debug); every variant "
                     "has an explicit arm")
    R.rule("C02-R2", "one executor for both scan strategies: the TableScan and IndexScan arms run the same function on the same arguments")
    R.rule("C02-R3", "one row-merge for the set-at-a-time joins: the joiners never build, clone or extend a row themselves; every "
                     "emitted row is the Some payload of merge_rows")
    R.rule("C02-R4", "cost values do not enter plan content: results of the cost estimator / statistics reach only comparisons, "
                     "min-selection keys and further cost arithmetic, never an operand of a plan aggregate")
    R.rule("C02-R6", "correlated versus uncorrelated joins: hash / nested-loop candidates (right side evaluated on the unit input) "
                     "are offered only when the right operand is input-transparent")
    R.rule("C02-R8", "reordering is a permutation and a faithful rebuild: reorder_logical rebuilds every node from ALL fields of the matched "
                     "variant, each in its own position (children recursively, the rest cloned); greedy_order_scans leaves its loop only "
                     "when no scan remains, moves exactly the chosen scan from `remaining` to the order in every iteration, and returns "
                     "the patterns in that order without truncation")
    R.rule("C02-R9", "the star plan accounts for every pattern of the join group: patterns outside the chosen stars are each joined back "
                     "(skipped only when the pattern is marked as used by a star), every further star contributes all its patterns, and "
                     "the patterns a star keeps are exactly those not used by an earlier star")
    R.rule("C02-R10", "the plan memo stores under the key of a logical node only a plan that was computed from that node alone: the key is "
                      "create_memo_key of a parameter X, and the stored plan depends on no other plan-content input of the function (a "
                      "FILTER or projection passed alongside X must be part of the keyed node, or the entry is reused for the bare node)")
    R.rule("C02-R7", "parallel execution sees its whole input: what the rayon workers of the executor iterate over reaches them from the "
                     "operator's input rows only through element-preserving steps (par_chunks / par_iter / into_par_iter ...); no "
                     "hand-computed batches, no truncating adaptor - otherwise the answer depends on the thread count")
    R.rule("C02-R11", "no candidate plan drops a sub-plan: in every arm of the planner for an operator that has children, each candidate offered "
                      "derives from those children (the recursively planned child, or the child itself handed to a builder). A candidate built "
                      "from constants alone replaces the sub-plan by something else - and when the choice hangs on the optimizer's statistics "
                      "(`fixed_graph_is_visible` reads the cached graph cardinalities), stale statistics change the answer")
    r1(R)
    r2(R)
    r3(R)
    r4(R)
    r6(R)
    r7(R)
    r8(R)
    r9(R)
    r10(R)
    r11(R)
    r12(R)
    import c01
    c01.seen_scope(R, "C02-R13")
    r14(R)
    r15(R)


def r1(R):
    prog = R.prog
    ck, scope = memo_scope(prog)
    R.anchor("C02-R1", "Streamertail::create_memo_key", ck)
    if ck is None:
        return
    R.floor("C02-R1", "memo-key serializer bodies", len(scope), 2)
    for b in scope.values():
        R.saw(b)
    reads = field_reads(scope)
    covered = serialized_fields(prog, scope)
    nfield = 0
    for key in sorted(reads, key=str):
        kind, ty, variant = key
        if kind == "adt":
            if not ty.startswith(WORKSPACE):
                continue
            adt = prog.adt(ty)
            if adt is None:
                continue
            if adt["kind"] == "Enum":
                vs = [v for v in adt["variants"] if v["name"] == variant]
                allf = [f["name"] for f in vs[0]["fields"]] if vs else []
            else:
                allf = [f["name"] for f in adt["variants"][0]["fields"]]
            tname = ty.rsplit("::", 1)[-1] + ("::" + variant if variant and adt["kind"] == "Enum" else "")
            for f in allf:
                nfield += 1
                ok = f in reads[key] and (key, f) in covered
                R.ob("C02-R1", "field:%s.%s" % (tname, f), "memo key covers %s.%s" % (tname, f), ok, where=adt["file"],
                     detail=None if ok else "two plans that differ only in this field share a memo entry; one is planned as a copy of the other")
        else:
            arity = variant
            short = ty
            for i in range(arity or 0):
                nfield += 1
                ok = i in reads[key] and (key, i) in covered
                R.ob("C02-R1", "tuple:%s.%d" % (short, i), "memo key covers element %d of %s" % (i, short), ok,
                     detail=None if ok else "two plans that differ only in this component share a memo entry")
    R.floor("C02-R1", "fields checked for coverage", nfield, 30)
    # variants: every variant of the three enums has an explicit arm (the discriminant switch has no live default)
    for b in scope.values():
        for bb, t in b.terms():
            if t["t"] != "switch":
                continue
            d = G.describe_discr(b, t["discr"])
            if d["kind"] != "discr" or not (d.get("adt") or "").startswith("kolibrie::"):
                continue
            pl = d["pl"]
            # only switches on a parameter of the serializer (the node being serialised)
            o = b.origin({"k": "copy", "pl": pl}, stop_named=False)
            if o[0] != "place" or not (1 <= o[1]["l"] <= b.nargs):
                continue
            names = [n for v, n in d["variants"]]
            explicit = {dict(d["variants"]).get(v, v) for v, _ in t["targets"]}
            other_live = b.blocks[t["otherwise"]]["term"]["t"] != "unreachable"
            missing = [n for n in names if n not in explicit]
            ok = (not other_live) or len(missing) <= 1
            tname = d["adt"].rsplit("::", 1)[-1]
            R.ob("C02-R1", "arms:%s:%s" % (b.short, tname), "%s has an explicit arm for every %s variant (default arm covers: %s)"
                 % (b.short, tname, missing if other_live else []), ok, where=b.where(t.get("ln")),
                 detail=None if ok else "variants sharing a default arm share a memo key")
    # whole-value Debug prints of workspace types must be derived (so they print every field)
    dbg = set()
    for b in scope.values():
        for c in b.calls():
            if c.name() in ("new_debug", "new_display") and "fmt::rt::Argument" in (c.pretty or ""):
                for g in c.t.get("gargs", []):
                    dbg.add((c.name(), g.lstrip("&")))
    seen = set()
    work = [t for nm, t in dbg if nm == "new_debug"]
    nd = 0
    while work:
        ty = work.pop()
        base = ty.split("<")[0]
        inner = _type_args(ty)
        for it in inner:
            work.append(it)
        if base in seen or not base.startswith(WORKSPACE):
            continue
        seen.add(base)
        adt = prog.adt(base)
        if adt is None:
            continue
        nd += 1
        imp = [i for i in prog.impls if i.get("self_adt") == base and i["trait"] == "core::fmt::Debug"]
        ok = bool(imp) and all(i["derived"] for i in imp)
        R.ob("C02-R1", "debug-derived:" + base.rsplit("::", 1)[-1], "%s is written into the key through a derived Debug (prints every field)"
             % base.rsplit("::", 1)[-1], ok, where=adt["file"])
        for v in adt["variants"]:
            for f in v["fields"]:
                work.append(f["ty"])
    R.floor("C02-R1", "workspace types printed whole into the key", nd, 1)


def _type_args(ty):
    """top-level generic arguments / tuple / reference components of a type string"""
    ty = ty.strip()
    while ty.startswith("&"):
        ty = ty[1:].strip()
        if ty.startswith("mut "):
            ty = ty[4:]
    out = []
    if ty.startswith("(") and ty.endswith(")"):
        body = ty[1:-1]
    elif "<" in ty and ty.endswith(">"):
        body = ty[ty.index("<") + 1:-1]
    elif ty.startswith("[") and ty.endswith("]"):
        body = ty[1:-1].split(";")[0]
    else:
        return out
    depth = 0
    cur = ""
    for ch in body:
        if ch in "<([":
            depth += 1
        elif ch in ">)]":
            depth -= 1
        if ch == "," and depth == 0:
            out.append(cur.strip())
            cur = ""
        else:
            cur += ch
    if cur.strip():
        out.append(cur.strip())
    return out


def _arm_blocks(b, adt, variant):
    """blocks of the arm for `variant` in the executor's dispatch on `adt`"""
    for bb, t in b.terms():
        if t["t"] != "switch":
            continue
        for tgt, c in G.edge_conditions(b, bb):
            if c["kind"] == "variant" and c.get("adt") == adt and c.get("variant") == variant:
                o = b.origin({"k": "copy", "pl": c["pl"]}, stop_named=False)
                if o[0] == "place" and 1 <= o[1]["l"] <= b.nargs:
                    region = {k for k in b.reachable_blocks() if b.dominates(tgt, k)} if b.pred(tgt) == [bb] else {tgt}
                    return tgt, region
    return None, set()


def r2(R):
    prog = R.prog
    ex = R.body("C02-R2", "ExecutionEngine::execute_with_ids_and_input", crate="kolibrie")
    if ex is None:
        return
    sig = {}
    for v in ("TableScan", "IndexScan"):
        tgt, region = _arm_blocks(ex, POP, v)
        R.ob("C02-R2", "arm:" + v, "the executor has an arm for %s" % v, tgt is not None, where=ex.where())
        calls = [c for c in ex.calls() if c.bb in region and c.key in prog.bodies]
        sig[v] = sorted((c.key, tuple(_argsig(ex, a, v) for a in c.args)) for c in calls)
    if len(sig) == 2:
        a, b_ = sig["TableScan"], sig["IndexScan"]
        ok = bool(a) and a == b_
        R.ob("C02-R2", "same-executor", "TableScan and IndexScan are executed by the same function with the same argument roles", ok, where=ex.where(),
             detail=None if ok else "TableScan: %s / IndexScan: %s (an equivalent second executor needs its own equivalence argument)" %
             ([x[0].rsplit('::', 1)[-1] for x in a], [x[0].rsplit('::', 1)[-1] for x in b_]))


def _argsig(b, op, variant):
    o = b.origin(op, stop_named=False)
    if o[0] == "place":
        pl = o[1]
        return ("place", pl["l"] if 1 <= pl["l"] <= b.nargs else "local",
                tuple(e["n"] for e in pl["p"] if e["k"] == "field"))
    if o[0] == "const":
        return ("const", o[1].get("d"))
    return (o[0],)


def r3(R):
    prog = R.prog
    mr = R.body("C02-R3", "ExecutionEngine::merge_rows", crate="kolibrie")
    joiners = []
    for nm in ("join_solution_sequences", "hash_join_solution_sequences"):
        b = R.body("C02-R3", "ExecutionEngine::" + nm, crate="kolibrie")
        if b is not None:
            joiners.append(b)
    if mr is None:
        return
    for j in joiners:
        fam = prog.family(j.key)
        merges = [(x, c) for x in fam for c in x.calls() if c.key == mr.key]
        R.ob("C02-R3", "uses-merge:" + j.name, "%s merges rows through merge_rows" % j.name, bool(merges), where=j.where())
        # no row is built / cloned / extended outside merge_rows
        bad = []
        for x in fam:
            for c in x.calls():
                dty = x.local_ty(c.dest["l"]) if not c.dest["p"] else ""
                if dty == ROW_TY and c.key != mr.key:
                    bad.append((x, c, "creates a row via %s" % c.name()))
                if c.args:
                    pl = F.op_place(c.args[0])
                    if pl is not None:
                        aty = x.local_ty(pl["l"])
                        if aty.replace("&mut ", "").strip() == ROW_TY and aty.startswith("&mut") and c.name() in (
                                "insert", "extend", "entry", "remove", "retain", "clear", "get_mut"):
                            bad.append((x, c, "mutates a row via %s" % c.name()))
            for bb, i, pl, rv, s in x.assigns():
                if rv["rv"] == "aggregate" and rv.get("ak") == "adt" and x.local_ty(pl["l"]) == ROW_TY:
                    bad.append((x, None, "builds a row aggregate"))
        R.ob("C02-R3", "no-own-rows:" + j.name, "%s never builds, clones or extends a solution row itself" % j.name, not bad, where=j.where(),
             detail=None if not bad else "; ".join("%s at %s" % (w, x.where(c.ln if c else None)) for x, c, w in bad[:3]) +
             " — rows that bypass merge_rows skip the compatibility check on shared variables")
        # emission closures return exactly merge_rows' result
        for x, c in merges:
            ok = c.dest["l"] == 0 and not c.dest["p"] or _returns_call(x, c)
            R.ob("C02-R3", "emits-merge-result:%s" % j.name, "rows emitted by %s are exactly merge_rows' Some payloads" % j.name, ok, where=x.where(c.ln))
        # adaptors applied to candidate pairs: only filter_map(merge) style - a `map` producing rows would need own rows (covered above)
    R.floor("C02-R3", "set-at-a-time joiners", len(joiners), 2)
    # the bind join only returns what the recursive executor returns
    bj = R.body("C02-R3", "ExecutionEngine::execute_bind_join", crate="kolibrie")
    if bj is not None:
        fam = prog.family(bj.key)
        own = [c for x in fam for c in x.calls() if c.name() in ("insert", "extend", "entry") and c.args and
               F.op_place(c.args[0]) is not None and x.local_ty(F.op_place(c.args[0])["l"]).replace("&mut ", "") == ROW_TY]
        R.ob("C02-R3", "bind-join-pure", "the bind join builds no rows itself (it returns what the recursive executor yields)", not own, where=bj.where())
    # merge_rows itself: compatibility check on every shared variable before joining
    eqs = [c for c in mr.calls() if c.name() in ("ne", "eq")]
    gets = [c for c in mr.calls() if c.name() == "get"]
    R.ob("C02-R3", "merge-checks", "merge_rows compares the two rows on the variables they share", bool(eqs) and bool(gets), where=mr.where())
    none_ret = [bb for bb, i, pl, rv, s in mr.assigns() if pl["l"] == 0 and rv["rv"] == "aggregate" and rv.get("variant") == "None"]
    R.ob("C02-R3", "merge-rejects", "merge_rows rejects (None) on a disagreement", bool(none_ret), where=mr.where())


def _returns_call(x, c):
    for bb, i, pl, rv, s in x.assigns():
        if pl["l"] == 0 and not pl["p"] and rv["rv"] == "use" and x.alias_root(rv["op"]) == x.alias_root(c.dest["l"]):
            return True
    return False


def r4(R):
    prog = R.prog
    opt = [b for b in prog.bodies.values() if b.crate == "kolibrie" and b.file.endswith("streamertail_optimizer/optimizer.rs")
           and "::tests::" not in b.key]
    roots = [b for b in opt if not b.is_closure]
    nsrc = 0
    plan_types = ("PhysicalOperator", "LogicalOperator", "QuadPattern", "SubquerySpec", "Condition", "GraphTerm", "Term",
                  "ConditionExpression", "ConditionArithmetic", "SubqueryProjection")
    for b in sorted(roots, key=lambda x: x.key):
        srcs = []
        fam = prog.family(b.key)
        for x in fam:
            for c in x.calls():
                pk = c.pretty or ""
                if "CostEstimator" in pk and c.name() not in ("new", "cost_estimator"):
                    srcs.append((x, c))
        if not srcs:
            continue
        T = Taint(prog, b)
        for x, c in srcs:
            T.t[(x.key, c.dest["l"])].add("cost")
            nsrc += 1
        T.run()
        bad = []
        for x in fam:
            for bb, i, pl, rv, s in x.assigns():
                if rv["rv"] == "aggregate" and rv.get("ak") == "adt" and any(rv.get("adt", "").endswith("::" + t) for t in plan_types):
                    for fn, op in zip(rv.get("fields", []), rv["ops"]):
                        if "cost" in T.op_taint(x, op):
                            bad.append((x, s.get("ln"), rv["adt"].rsplit("::", 1)[-1], fn))
                # assignment into a field of a plan-typed local
                if pl["p"] and any(("::" + t) in x.local_ty(pl["l"]) for t in plan_types):
                    labs = set()
                    for p2, kind in F.rv_places(rv):
                        labs |= T._read(x, p2)
                    if "cost" in labs:
                        bad.append((x, s.get("ln"), x.local_ty(pl["l"]).rsplit("::", 1)[-1], "/".join(F.place_fields(pl))))
        R.ob("C02-R4", "cost-not-in-plan:" + b.short, "no cost estimate flows into a field of a plan node built in %s" % b.short, not bad, where=b.where(),
             detail=None if not bad else "; ".join("%s.%s at line %s" % (a, f, ln) for x, ln, a, f in bad[:3]))
    R.floor("C02-R4", "cost-estimator call sites in the optimizer", nsrc, 4)


def r6(R):
    prog = R.prog
    fb = R.body("C02-R6", "Streamertail::find_best_plan_recursive", crate="kolibrie")
    if fb is None:
        return
    tgt, region = _arm_blocks(fb, LOP, "Join")
    R.ob("C02-R6", "join-arm", "the planner has a Join arm", tgt is not None, where=fb.where())
    if tgt is None:
        return
    # candidate constructions: physical aggregates of the uncorrelated join kinds inside the Join arm
    cands = []
    for bb, i, pl, rv, s in fb.assigns():
        if bb in region and rv["rv"] == "aggregate" and rv.get("adt") == POP:
            cands.append((bb, rv.get("variant"), s))
    calls = [c for c in fb.calls() if c.bb in region and c.key in prog.bodies and prog.bodies[c.key].self_adt == POP]
    uncorrelated = []
    for bb, v, s in cands:
        if v and ("Hash" in v or "NestedLoop" in v or "Parallel" in v):
            uncorrelated.append((bb, v, s.get("ln")))
    for c in calls:
        nm = c.name() or ""
        if "hash" in nm or "nested" in nm or "parallel" in nm:
            uncorrelated.append((c.bb, nm, c.ln))
    R.floor("C02-R6", "uncorrelated join candidates in the Join arm", len(uncorrelated), 2)
    for bb, v, ln in uncorrelated:
        # must be control dependent on a test of the right child (any condition established inside the arm)
        conds = [c for c in G.conditions(fb, bb) if c.get("bb") in region]
        ok = any(c["kind"] in ("call", "variant", "cmp") for c in conds)
        R.ob("C02-R6", "guarded:" + str(v), "the %s candidate is offered only under a test of the right operand" % v, ok, where=fb.where(ln),
             detail=None if ok else "bind join evaluates the right operand with the left rows as input, hash / nested-loop evaluate it on "
             "the unit input: for an input-sensitive right operand (Filter/Bind over outer variables) they disagree")


def r7(R):
    from lib import pipeline as P
    prog = R.prog
    n = 0
    for b in sorted(prog.bodies.values(), key=lambda x: x.key):
        if b.crate != "kolibrie" or "::tests::" in b.key or not (b.file.endswith("execution/engine.rs") or b.file.endswith("execute_query.rs")):
            continue
        for c in b.calls():
            if c.name() not in ("map", "flat_map", "flat_map_iter", "filter_map", "for_each", "map_init", "fold", "try_for_each") or len(c.args) < 2:
                continue
            if "rayon" not in ((c.callee or "") + (c.pretty or "")):
                continue
            n += 1
            R.saw(b)
            terms = []
            P.coverage_terminals(prog, b, c.args[0], set(), terms)
            def whole(t):
                # the operator's input parameter, a captured collection, or the complete result of a (child) execution
                return t[0] in ("param", "doc", "capture") or (t[0] == "call" and len(t) > 3 and t[3].startswith("kolibrie::"))
            roots = [t for t in terms if whole(t)]
            other = [t for t in terms if not whole(t)]
            ok = len(roots) >= 1 and not other
            R.ob("C02-R7", "coverage:%s:%s" % (b.short, c.name()), "the parallel `%s` in %s ranges over its whole input (%s)" % (c.name(), b.short,
                 ", ".join(sorted({str(t[1]) for t in roots})) or "?"), ok, where=b.where(c.ln),
                 detail=None if ok else "not a total partition by construction: also computed from %s - rows outside the hand-made batches "
                 "(a division remainder) are never processed, and how many depends on the worker count"
                 % "; ".join(sorted({"%s%s" % (t[1], (" (line %s)" % t[2]) if t[2] else "") for t in other})))
    R.floor("C02-R7", "rayon worker pipelines in the executor", n, 1)


def r8(R):
    from lib import pipeline as P
    from lib import guards as G
    prog = R.prog
    ro = R.body("C02-R8", "Streamertail::reorder_logical", crate="kolibrie")
    adts = prog.adt(LOP)
    adt = adts[0] if isinstance(adts, list) and adts else adts
    if ro is not None and adt:
        variants = {v["name"].lower(): v for v in adt["variants"]}
        n = 0
        for c in ro.calls():
            pk = c.pretty or ""
            if "LogicalOperator::" not in pk or c.name() not in variants or c.name() in ("unit",):
                continue
            v = variants[c.name()]
            want = [f["name"] for f in v["fields"]]
            got = []
            for a in c.args:
                got.append(_field_of_plan(prog, ro, a))
            n += 1
            ok = got == want
            R.ob("C02-R8", "rebuild:" + v["name"], "reorder_logical rebuilds %s from its fields %s in order (got %s)" % (v["name"], want, got), ok, where=ro.where(c.ln),
                 detail=None if ok else "a field that is dropped, replaced or swapped with a same-typed sibling changes the query while it is being reordered")
        R.floor("C02-R8", "nodes rebuilt by reorder_logical", n, 6)
    go = R.body("C02-R8", "Streamertail::greedy_order_scans", crate="kolibrie")
    if go is None:
        return
    R.saw(go)
    # the selection loop: the loop that contains a push to `order` and a retain on `remaining`
    pushes = [c for c in go.calls() if c.name() == "push" and c.args and go.local_name(go.alias_root(c.args[0]) or -1) == "order"]
    retains = [c for c in go.calls() if c.name() == "retain" and c.args and go.local_name(go.alias_root(c.args[0]) or -1) == "remaining"]
    loops = [(h, blk) for h, blk in go.loops() if any(c.bb in blk for c in pushes) and any(c.bb in blk for c in retains)]
    R.ob("C02-R8", "selection-loop", "greedy_order_scans has one loop that moves scans from `remaining` to `order`", len(loops) == 1, where=go.where())
    if len(loops) == 1:
        h, blk = loops[0]
        inl_p = [c for c in pushes if c.bb in blk]
        inl_r = [c for c in retains if c.bb in blk]
        # exits: only the is_empty(remaining) test (panics / unreachable aside)
        bad = []
        for k in blk:
            for s2 in go.succ(k):
                if s2 in blk or go.blocks[s2]["term"]["t"] == "unreachable":
                    continue
                conds = [cd for tgt, cd in G.edge_conditions(go, k) if tgt == s2]
                okc = any(cd.get("kind") == "call" and cd["call"].name() == "is_empty" and go.local_name(go.alias_root(cd["call"].args[0]) or -1) == "remaining"
                          for cd in conds)
                if not okc:
                    # edges into panic paths (expect) are fine: they do not produce an order
                    if not (go.reach_from([s2]) & set(go.exits())):
                        continue
                    reach_ret = any(go.blocks[x]["term"]["t"] == "return" for x in go.reach_from([s2]))
                    if reach_ret:
                        bad.append(k)
        R.ob("C02-R8", "until-empty", "the selection loop is left only when `remaining` is empty", not bad, where=go.where())
        # every iteration reaches both the push and the retain, on the same chosen index
        entries = [s2 for s2 in go.succ(h) if s2 in blk]
        skip_p = h in go.reach_from(entries, avoid={c.bb for c in inl_p} | {h}) if False else None
        # while-loop: iteration entry is the false edge of is_empty; use all in-loop successors of the test block
        test_blocks = [k for k in blk if any(cd.get("kind") == "call" and cd["call"].name() == "is_empty" for tgt, cd in G.edge_conditions(go, k))]
        starts = [s2 for k in test_blocks for s2 in go.succ(k) if s2 in blk]
        miss_p = h in go.reach_from(starts, avoid={c.bb for c in inl_p}) if starts else True
        miss_r = h in go.reach_from(starts, avoid={c.bb for c in inl_r}) if starts else True
        R.ob("C02-R8", "moves-one", "every iteration appends the chosen scan to the order and removes it from `remaining`", not miss_p and not miss_r, where=go.where())
        # same index: the pushed value and the value the retain closure compares against
        same = False
        for pc in inl_p:
            po = go.origin(pc.args[1], stop_named=True)
            pv = po[1]["l"] if po[0] == "place" else go.alias_root(pc.args[1])
            for rc in inl_r:
                o = go.origin(rc.args[1], stop_named=False)
                rv = o[1] if o[0] == "rv" else None
                if rv is None and o[0] == "place":
                    d = go.single_def(o[1]["l"])
                    rv = d[3] if d and d[0] == "assign" else None
                if rv is not None and rv["rv"] == "aggregate" and rv.get("ak") == "closure":
                    caps = set()
                    for op in rv["ops"]:
                        oo = go.origin(op, stop_named=True)
                        if oo[0] == "place":
                            caps.add(oo[1]["l"])
                    if pv in caps or go.local_name(pv) in {go.local_name(x) for x in caps}:
                        same = True
        R.ob("C02-R8", "same-choice", "the scan removed from `remaining` is the one appended to the order", same, where=go.where())
    # the result: map over the whole `order`
    d0 = go.defs().get(0, [])
    okret = False
    for d in d0:
        if d[0] == "call":
            names, roots = P.flat(P.tree(go, d[2].args[0], stop_named=True)) if d[2].args else ([], [])
            names = names + [d[2].name()]
            if any(r["k"] == "root" and r["name"] == "order" for r in roots) and "map" in names and \
                    not [x for x in names if x in ("take", "skip", "filter", "filter_map", "step_by", "take_while", "skip_while", "dedup", "rev")]:
                okret = True
    R.ob("C02-R8", "returns-all", "the result lists the pattern of every position of the order (map over the whole order)", okret, where=go.where())


def _field_of_plan(prog, b, op, depth=0):
    """name of the field of the matched plan node an argument is built from (child: recursive call on it; other: clone of it)"""
    if depth > 8:
        return None
    o = b.origin(op, stop_named=False)
    if o[0] == "call":
        c = o[1]
        if c.name() in ("clone", "deref", "as_ref", "borrow", "to_vec", "to_owned") and c.args:
            return _field_of_plan(prog, b, c.args[0], depth + 1)
        if c.key == b.key and len(c.args) >= 2:
            return _field_of_plan(prog, b, c.args[1], depth + 1)
        if c.name() in ("collect", "map", "iter", "into_iter") and c.args:
            return _field_of_plan(prog, b, c.args[0], depth + 1)
        return None
    if o[0] == "place":
        fs = [e["n"] for e in o[1]["p"] if e["k"] == "field" and e.get("adt") == LOP]
        if fs:
            return fs[0]
        d = b.single_def(o[1]["l"])
        if d and d[0] == "assign":
            for p2, k2 in F.rv_places(d[3]):
                r = _field_of_plan(prog, b, {"k": "copy", "pl": p2}, depth + 1)
                if r:
                    return r
    return None


def r9(R):
    from lib import pipeline as P
    prog = R.prog
    bs = R.body("C02-R9", "Streamertail::build_star_join_from_patterns", crate="kolibrie")
    if bs is not None:
        R.saw(bs)
        lo = P.loops_over(bs, ["all_patterns", "star_scans", "star_operators"])
        ap = [x for x in lo.get("all_patterns", []) if any(c.name() == "bind_join" and c.bb in x[1] for c in bs.calls())]
        R.ob("C02-R9", "leftover-loops", "leftover patterns are joined back in a loop over all patterns of the group (found %d loop)" % len(ap), len(ap) >= 2, where=bs.where())
        for n, (h, blocks, names) in enumerate(ap):
            whole = not [x for x in names if x not in ("iter", "into_iter", "deref", "enumerate")]
            R.ob("C02-R9", "leftover-whole:%d" % n, "the loop ranges over every pattern (pipeline %s)" % names, whole, where=bs.where())
            eff = {c.bb for c in bs.calls() if c.name() == "bind_join" and c.bb in blocks}
            bad = []
            for bb, tgt, cd in P.skip_edges(bs, h, blocks, eff):
                if cd.get("kind") == "call" and cd["call"].name() == "contains" and cd.get("truth") is True:
                    o = bs.origin(cd["call"].args[0], stop_named=True)
                    if o[0] == "place" and "used" in (bs.local_name(o[1]["l"]) or ""):
                        continue
                if cd.get("kind") == "variant" and cd.get("variant") == "None":
                    continue
                bad.append(cd.get("kind") + (":" + cd["call"].name() if cd.get("kind") == "call" else ""))
            R.ob("C02-R9", "leftover-skips:%d" % n, "a pattern is left out of the join-back only when a star already uses it (other skip conditions: %s)" % bad,
                 not bad, where=bs.where(), detail=None if not bad else "a pattern of the group that is neither in a star nor joined back no longer constrains the solutions")
        ss = lo.get("star_scans", [])
        so = lo.get("star_operators", [])
        R.ob("C02-R9", "other-stars", "every further star contributes all its patterns (loops over the stars and their scans, no truncation)",
             len(ss) >= 1 and len(so) >= 1 and all(not [x for x in l[2] if x not in ("iter", "into_iter", "deref")] for l in ss + so), where=bs.where())
        if ss:
            h, blocks, names = ss[0]
            eff = {c.bb for c in bs.calls() if c.name() == "bind_join" and c.bb in blocks}
            R.ob("C02-R9", "other-stars-no-skip", "no scan of a further star is skipped", bool(eff) and not P.skips_effect(bs, h, blocks, eff), where=bs.where())
    iq = R.body("C02-R9", "Streamertail::is_star_query", crate="kolibrie")
    if iq is not None:
        R.saw(iq)
        # the patterns of a star = the variable's pattern indices minus those already used; all of them are marked used
        marks = [c for c in iq.calls() if c.name() == "insert" and c.args and "used" in (iq.local_name(iq.alias_root(c.args[0]) or -1) or "")]
        R.ob("C02-R9", "marks-used", "is_star_query marks the patterns it puts into a star as used", len(marks) >= 1, where=iq.where())
        for c in marks:
            drv = P.loop_driver(iq, c.bb)
            names = P.flat(drv[2])[0] if drv and drv[2] is not None else ["?"]
            roots = P.flat(drv[2])[1] if drv and drv[2] is not None else []
            ok = not [x for x in names if x not in ("iter", "into_iter", "deref")] and any(r["k"] == "root" and r["name"] == "available" for r in roots)
            R.ob("C02-R9", "marks-all", "every pattern taken into the star is marked (pipeline %s)" % names, ok, where=iq.where(c.ln))
        # star patterns are built from the same `available` list
        sp = [c for c in iq.calls() if c.name() == "collect" and iq.local_name(c.dest["l"]) == "star_patterns"]
        oksp = False
        for c in sp:
            names, roots = P.flat(P.tree(iq, c.args[0], stop_named=True))
            if any(r["k"] == "root" and r["name"] == "available" for r in roots) and not [x for x in names if x in ("take", "skip", "filter", "step_by", "take_while", "skip_while")]:
                oksp = True
        R.ob("C02-R9", "star-is-available", "the star consists of exactly the not-yet-used patterns of its variable", oksp, where=iq.where())


def r10(R):
    from lib import pipeline as P
    prog = R.prog
    n = 0
    for b in sorted(prog.bodies.values(), key=lambda x: x.key):
        if b.crate != "kolibrie" or not b.file.endswith("streamertail_optimizer/optimizer.rs") or "::tests::" in b.key:
            continue
        for c in b.calls():
            if c.name() != "insert" or len(c.args) != 3:
                continue
            o = b.origin(c.args[0], stop_named=False)
            if o[0] != "place" or not any(e.get("n") == "memo" for e in o[1]["p"]):
                continue
            n += 1
            R.saw(b)
            # key: create_memo_key(self, X)
            ko = b.origin(c.args[1], stop_named=False)
            kc = ko[1] if ko[0] == "call" else None
            if kc is None and ko[0] == "place":
                ds = [d for d in b.defs().get(ko[1]["l"], []) if d[0] == "call"]
                kc = ds[0][2] if len(ds) == 1 else None
            keyed = None
            if kc is not None and kc.name() == "create_memo_key" and len(kc.args) >= 2:
                ro = b.origin(kc.args[1], stop_named=True)
                if ro[0] == "place" and 1 <= ro[1]["l"] <= b.nargs and not [e for e in ro[1]["p"] if e["k"] != "deref"]:
                    keyed = ro[1]["l"]
            R.ob("C02-R10", "key:%s:%d" % (b.name, n), "the memo key in %s is create_memo_key of one of its parameters (%s)" % (b.name, b.local_name(keyed) if keyed else "?"),
                 keyed is not None, where=b.where(c.ln))
            if keyed is None:
                continue
            vl = F.op_place(c.args[2])
            der = P.derives(prog, b, vl["l"], at_bb=c.bb) if vl is not None else set()
            params = {t[1] for t in der if t[0] == "param"}
            fields = {t[1].split(".")[0] for t in der if t[0] == "field"}
            others = sorted(x for x in (params | fields) if x not in ("self", b.local_name(keyed)) and x is not None)
            # parameters that carry plan content (operators, conditions, variable lists, patterns)
            content = []
            for i in range(1, b.nargs + 1):
                if b.local_name(i) in others:
                    ty = b.local_ty(i)
                    if any(k in ty for k in ("Operator", "Condition", "Vec<", "QuadPattern", "Term", "SubquerySpec", "String", "Option<")):
                        content.append(b.local_name(i))
            R.ob("C02-R10", "value:%s:%d" % (b.name, n), "the plan stored under the key of `%s` depends on no other plan content (also depends on: %s)"
                 % (b.local_name(keyed), content), not content, where=b.where(c.ln),
                 detail=None if not content else "the entry is found again for a bare occurrence of `%s` in the same query (another UNION branch, a subquery) and "
                 "brings %s along: rows are filtered / projected that must not be" % (b.local_name(keyed), content))
    R.floor("C02-R10", "plan-memo insertions", n, 3)


def r11(R):
    from lib import pipeline as P, guards as G
    prog = R.prog
    b = R.body("C02-R11", "Streamertail::find_best_plan_recursive", crate="kolibrie")
    a = prog.adt(LOP)
    a = a[0] if isinstance(a, list) and a else a
    if b is None or not a:
        return
    # variants with children: a field whose type mentions LogicalOperator
    child_fields = {v["name"]: [f["name"] for f in v["fields"] if "LogicalOperator" in f["ty"]] for v in a["variants"]}
    best = None
    for bb, t in b.terms():
        if t["t"] != "switch":
            continue
        d = G.describe_discr(b, t["discr"])
        if d.get("kind") == "discr" and d.get("adt") == LOP and (best is None or len(t["targets"]) > len(best[1]["targets"])):
            best = (bb, t)
    R.ob("C02-R11", "dispatch", "the planner dispatches on the logical operator", best is not None, where=b.where())
    if best is None:
        return
    bb0, t0 = best
    edges = G.edge_conditions(b, bb0)
    pushes = [c for c in b.calls() if c.name() == "push" and len(c.args) > 1 and F.op_place(c.args[1]) is not None
              and "PhysicalOperator" in b.local_ty(F.op_place(c.args[1])["l"]) and "Vec<" not in b.local_ty(F.op_place(c.args[1])["l"])]
    narms = 0
    for tgt, cd in edges:
        v = cd.get("variant")
        if not v or not child_fields.get(v):
            continue
        others = [t2 for t2, c2 in edges if t2 != tgt]
        region = b.reach_from([tgt], avoid=set(others) | {bb0}) | {tgt}
        mine = [c for c in pushes if c.bb in region]
        if not mine:
            continue
        narms += 1
        for c in mine:
            d = P.derives(prog, b, F.op_place(c.args[1])["l"], at_bb=c.bb)
            from_child = any(t[0] == "call" and t[1] == b.name for t in d) or \
                any(t[0] == "field" and t[1].split(".")[-1] in child_fields[v] for t in d)
            R.ob("C02-R11", "candidate-keeps-children:%s" % v, "every candidate of the %s arm is built from the operator's sub-plan(s)" % v, from_child,
                 where=b.where(c.ln), detail=None if from_child else "this candidate derives from %s only: the sub-plan is dropped from the plan"
                 % sorted(t[1] for t in d if t[0] == "call")[:4])
    R.floor("C02-R11", "planner arms for operators with children that offer candidates", narms, 8)


def r12(R):
    """the incoming solutions enter a join once"""
    from lib import pipeline as P
    prog = R.prog
    R.rule("C02-R12", "the incoming solutions enter a join once: where an executor arm joins the results of two sub-executions "
                      "(join_solution_sequences / hash_join_solution_sequences), at most one of the two was started from the arm's incoming "
                      "solutions - the other starts from the unit solution or from the first one's result. Feeding `incoming` to both computes "
                      "(I x L) x (I x R): every pair of compatible incoming rows adds solutions, and only under the join algorithms that do it, "
                      "so the answer depends on the plan the cost model picks")
    ex = R.body("C02-R12", "ExecutionEngine::execute_with_ids_and_input", crate="kolibrie")
    if ex is None:
        return
    names = [ex.local_name(i) for i in range(1, ex.nargs + 1)]
    if "incoming" not in names:
        return
    joins = [c for c in ex.calls() if c.name() in ("join_solution_sequences", "hash_join_solution_sequences") and len(c.args) >= 2]
    R.floor("C02-R12", "places where the executor joins two solution sequences", len(joins), 3)
    for c in joins:
        fed = 0
        srcs = []
        for a in c.args[:2]:
            pl = F.op_place(a)
            if pl is None:
                continue
            # the recursive execution(s) this operand comes from
            rec = _feeding_calls(ex, pl["l"], c.bb)
            from_inc = False
            for rc in rec:
                if len(rc.args) >= 4 and F.op_place(rc.args[3]) is not None:
                    d = P.derives(prog, ex, F.op_place(rc.args[3])["l"], at_bb=rc.bb)
                    if ("param", "incoming") in d and not any(t[0] == "call" and t[1] == ex.name for t in d):
                        from_inc = True
            if not rec:
                d = P.derives(prog, ex, pl["l"], at_bb=c.bb)
                if ("param", "incoming") in d:
                    srcs.append("incoming itself")
                    continue
            fed += 1 if from_inc else 0
            srcs.append("a sub-execution started from incoming" if from_inc else "a sub-execution not started from incoming")
        ok = fed <= 1
        R.ob("C02-R12", "incoming-once:%d" % (c.ln or 0) if False else "incoming-once:" + c.name(), "the operands of %s are not both started from the incoming solutions (%s)" % (c.name(), "; ".join(srcs)),
             ok, where=ex.where(c.ln), detail=None if ok else "both operands were evaluated on `incoming`: rows of `incoming` that are compatible with each other are multiplied")


def _feeding_calls(b, l, at_bb, depth=0, seen=None):
    """recursive executor calls whose result flows into local l (through moves), nearest ones only"""
    seen = seen if seen is not None else set()
    if l in seen or depth > 8:
        return []
    seen.add(l)
    out = []
    for d in b.defs().get(l, []):
        if d[0] == "call":
            c = d[2]
            if c.key == b.key or c.name() in ("execute_with_ids_and_context", "execute_with_ids_and_input"):
                out.append(c)
            elif c.name() in ("clone", "into_iter", "collect", "deref"):
                for a in c.args[:1]:
                    pl = F.op_place(a)
                    if pl is not None:
                        out += _feeding_calls(b, pl["l"], at_bb, depth + 1, seen)
        elif d[0] == "assign" and d[3]["rv"] in ("use", "ref"):
            for q, k in F.rv_places(d[3]):
                out += _feeding_calls(b, q["l"], at_bb, depth + 1, seen)
    return out


def r14(R):
    """every candidate of a node is built for that node"""
    prog = R.prog
    R.rule("C02-R14", "a candidate implements its own node: every plan the optimizer offers for a logical node is produced in that node's arm by a "
                      "constructor of the physical algebra (or a chooser over such constructions) - never the plan of a child handed on as it is. "
                      "A wrapper node (GRAPH, projection, filter, subquery) changes what its input means; offering the bare input next to the wrapped "
                      "one lets the cost model decide between two *different* queries, so the answer depends on the statistics")
    b = R.body("C02-R14", "Streamertail::find_best_plan_recursive", crate="kolibrie")
    if b is None:
        return
    R.saw(b)
    n = 0
    for x in prog.family(b.key):
        for c in x.calls():
            if c.name() != "push" or len(c.args) != 2 or "PhysicalOperator" not in x.local_ty((F.op_place(c.args[1]) or {"l": 0})["l"]):
                continue
            arm = [cd.get("variant") for cd in G.conditions(x, c.bb) if cd.get("kind") == "variant" and "LogicalOperator" in str(cd.get("adt"))]
            n += 1
            o = x.origin(c.args[1], stop_named=False)
            built = o[0] == "rv" and o[1]["rv"] == "aggregate"
            if o[0] == "call":
                k = o[1].key or ""
                cal = prog.bodies.get(k)
                # a constructor / chooser: a function of the physical algebra or the optimizer that is not the recursive search itself (nor a clone of its result)
                built = cal is not None and cal.key != b.key and o[1].name() not in ("clone", "unwrap", "expect", "deref", "take", "into", "to_owned")
            if o[0] == "place":
                built = False
            R.ob("C02-R14", "built:%s:%d" % ((arm or ["?"])[0], n), "the candidate offered in the %s arm is constructed there (it comes from: %s)"
                 % ((arm or ["?"])[0], o[1].name() if o[0] == "call" else (o[1].get("rv") if o[0] == "rv" else "a variable holding a sub-plan")), built, where=x.where(c.ln),
                 detail=None if built else "the plan of the node's input is offered as a plan of the node: with fresh statistics `GRAPH ?h { .. }` inside another "
                 "GRAPH is executed without its wrapper and ?h is pinned to the outer graph")
    R.floor("C02-R14", "candidates offered by the optimizer", n, 10)


def r15(R):
    """positions into the pattern list stay valid"""
    prog = R.prog
    R.rule("C02-R15", "positions are not outlived by a re-ordering: build_star_join_from_patterns records which patterns its stars use as *positions* in "
                      "the pattern list and appends the remaining ones by position afterwards. Between recording a position and the last use of one, "
                      "the list is not re-ordered or shortened (`sort*`, `reverse`, `swap`, `retain`, `remove`, `dedup*`, `rotate*`, `drain`, `truncate`). "
                      "A sort in between makes a star pattern appear twice and drops a pattern outside the stars: the plan answers a weaker query, and "
                      "whether the sort moves anything depends on the statistics-driven order")
    b = R.body("C02-R15", "Streamertail::build_star_join_from_patterns", crate="kolibrie")
    if b is None:
        return
    R.saw(b)
    REORDER = ("sort", "sort_by", "sort_by_key", "sort_unstable", "sort_unstable_by", "sort_unstable_by_key", "sort_by_cached_key", "reverse", "swap", "retain", "remove",
               "swap_remove", "dedup", "dedup_by", "dedup_by_key", "rotate_left", "rotate_right", "drain", "truncate", "insert")
    fam = prog.family(b.key)
    idx_sets = [l for l in range(len(b.locals)) if "usize" in b.local_ty(l) and ("HashSet<usize" in b.local_ty(l) or "Vec<usize" in b.local_ty(l) or "BTreeSet<usize" in b.local_ty(l))
                and b.local_name(l)]
    recs = [c for c in b.calls() if c.name() in ("insert", "push", "extend") and c.args and b.alias_root(c.args[0]) in idx_sets]
    R.ob("C02-R15", "positions", "the function records positions of patterns (index collections: %s, recording calls: %d)" % ([b.local_name(l) for l in idx_sets], len(recs)),
         bool(idx_sets) and bool(recs), where=b.where())
    uses = [c for c in b.calls() if c.name() in ("contains", "get", "index") and c.args and b.alias_root(c.args[0]) in idx_sets]
    bad = []
    for c in b.calls():
        if c.name() in REORDER and c.args and F.op_place(c.args[0]):
            ty = b.local_ty(F.op_place(c.args[0])["l"])
            r0 = b.alias_root(c.args[0])
            for _ in range(4):
                d0 = b.single_def(r0) if r0 is not None else None
                if d0 and d0[0] == "call" and d0[2].name() in ("deref_mut", "deref", "as_mut_slice", "as_mut", "borrow_mut", "as_slice") and d0[2].args:
                    r0 = b.alias_root(d0[2].args[0])
                else:
                    break
            if r0 in idx_sets or "Vec<" not in b.local_ty(r0 if r0 is not None else 0):
                continue
            if "usize" in b.local_ty(r0) and "(" not in b.local_ty(r0):
                continue
            after_rec = any(c.bb in b.reach_from(b.succ(r.bb)) or c.bb == r.bb for r in recs)
            before_use = any(u.bb in b.reach_from(b.succ(c.bb)) for u in uses)
            if after_rec and before_use and b.local_name(r0) and ("pattern" in (b.local_name(r0) or "")):
                bad.append(c)
    R.ob("C02-R15", "stable", "the pattern list is not re-ordered between recording positions and using them (re-ordering calls in between: %s)" % sorted({c.name() for c in bad}),
         not bad, where=b.where(bad[0].ln if bad else None),
         detail=None if not bad else "a star query with a two-constant pattern outside the star returns rows that pattern excludes")

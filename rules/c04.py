"""C04 — every read path of the store agrees with the quads written (structural half)."""
from lib import facts as F
from lib import writers as W
from lib.taint import Taint
from lib import nav

DI = "shared::dataset_index::DatasetIndex"
IDX = ["gspo", "gpos", "gosp", "spog"]
CAT = "named_graphs"


def run(R):
    prog = R.prog
    R.rule("C04-R1", "writer set: the five DatasetIndex fields are mutated only by DatasetIndex's own methods, each "
                     "through a recognised idiom (entry-chain insert, removal helper, clear; catalog insert/remove/clear)")
    R.rule("C04-R2", "lock-step: on every path of a writer, touching one of gspo/gpos/gosp/spog implies touching all four")
    R.rule("C04-R3", "permutation agreement: per index the writer's key order defines the permutation; deleter, removal "
                     "helpers and every reader arm use the same order and put each key/leaf in its own Quad role")
    R.rule("C04-R4", "catalog independence: a graph identity is removed only by drop_graph (after clearing it) and "
                     "clear(); the inserting writer registers a named graph on every inserting path")
    R.rule("C04-R5", "rebuild feeds both named_graphs() and all_quads() of the old index into the new one before assigning it")

    if not R.anchor("C04-R1", "adt DatasetIndex", prog.adt(DI)):
        return
    adt = prog.adt(DI)
    fields = [f["name"] for f in adt["variants"][0]["fields"]]
    for f in IDX + [CAT]:
        R.ob("C04-R1", "field:" + f, "DatasetIndex has field `%s`" % f, f in fields, where=adt["file"])
    ftys = {f["name"]: f.get("ty", "") for f in adt["variants"][0]["fields"]}
    # a field that can hold terms or graphs of its own (a set / vector / nested map) is another index; a map or scalar of numbers / flags is a summary
    def _holds_quads(ty):
        return any(k in ty for k in ("HashSet<", "BTreeSet<", "Vec<", "VecDeque<")) or ty.count("Map<") >= 2
    extra = [f for f in fields if f not in IDX + [CAT]]
    summaries = [f for f in extra if not _holds_quads(ftys.get(f, "HashSet<"))]
    extra_idx = [f for f in extra if f not in summaries]
    R.ob("C04-R1", "fields:closed", "DatasetIndex has no index field unknown to the checker (found extra: %s)" % extra_idx,
         not extra_idx, where=adt["file"], detail="a new field that holds quads needs its own writer/reader agreement rule" if extra_idx else None)
    for f in adt["variants"][0]["fields"]:
        R.ob("C04-R1", "private:" + f["name"], "field `%s` is private to its module (type-enforced writer set)" % f["name"],
             not f["pub"], where=adt["file"])

    # unit tests inside the owner module may poke private fields to build legacy states; they are not shipped code
    touches = [t for t in W.field_touches(prog, DI, IDX + [CAT])
               if "::tests::" not in t.body.key and not t.body.unit.endswith("__test")]
    for t in touches:
        R.saw(t.body)
    writers = {}
    for t in touches:
        writers.setdefault(t.body.key, []).append(t)
    R.floor("C04-R1", "writer bodies of DatasetIndex fields", len(writers), 6)

    # ---- R1: each touch is by an owner method through a recognised idiom
    insert_role, delete_role, clear_role = set(), set(), set()
    for key, ts in sorted(writers.items()):
        b = ts[0].body
        owner = b.self_adt == DI and b.crate == "shared"
        R.ob("C04-R1", "owner:" + key, "writer `%s` is a method of DatasetIndex" % b.pretty, owner, where=b.where())
        for t in ts:
            if t.field in IDX:
                if t.kind == "refmut" and t.op == "entry":
                    insert_role.add(key)
                    ok = True
                elif t.kind == "refmut" and t.op == "clear":
                    clear_role.add(key)
                    ok = True
                elif t.kind == "refmut" and t.call is not None and t.call.key in prog.bodies \
                        and prog.bodies[t.call.key].crate == "shared" and _is_removal_helper(prog, prog.bodies[t.call.key]):
                    delete_role.add(key)
                    ok = True
                else:
                    ok = False
                R.ob("C04-R1", "idiom:%s:%s:%s" % (key, t.field, t.op or t.kind),
                     "mutation of `%s` in %s uses a recognised idiom (got %s/%s)" % (t.field, b.name, t.kind, t.op),
                     ok, where=b.where(t.ln),
                     detail=None if ok else "the permutation argument (R3) does not cover this mutation idiom")
            else:
                ok = t.kind == "refmut" and t.op in ("insert", "remove", "clear")
                R.ob("C04-R1", "idiom:%s:%s:%s" % (key, t.field, t.op or t.kind),
                     "mutation of catalog in %s is insert/remove/clear (got %s/%s)" % (b.name, t.kind, t.op), ok,
                     where=b.where(t.ln))
    R.ob("C04-R1", "roles", "exactly one inserting, one deleting and one clearing writer of the quad indexes "
         "(insert=%s delete=%s clear=%s)" % (sorted(insert_role), sorted(delete_role), sorted(clear_role)),
         len(insert_role) == 1 and len(delete_role) == 1 and len(clear_role) == 1)

    # summary fields (counters, flags): kept in step by every writer of the quad indexes, and by the catalog's remover
    for sf in summaries:
        st = {t.body.key for t in W.field_touches(prog, DI, [sf]) if t.kind in ("refmut", "assign")}
        need = sorted(insert_role | delete_role | clear_role)
        missing = [k for k in need if k not in st]
        R.ob("C04-R1", "summary:" + sf, "summary field `%s` is updated by every writer of the quad indexes (writers of the field: %s; index writers without it: %s)"
             % (sf, sorted(prog.bodies[k].name for k in st if k in prog.bodies), [prog.bodies[k].name for k in missing]), not missing, where=adt["file"],
             detail=None if not missing else "an access path that answers from the summary disagrees with the indexes after that writer ran")

    # derive-generated constructors (listed, not judged)
    derived = W.field_touches(prog, DI, IDX + [CAT], bodies=[b for b in prog.bodies.values() if b.derived],
                              include_derived=True)
    R.advisory("C04-R1", "derive-generated bodies that build whole DatasetIndex values: %s"
               % sorted({t.body.pretty for t in derived}))

    # ---- R2 lock-step
    n = 0
    for key, ts in sorted(writers.items()):
        b = ts[0].body
        its = [t for t in ts if t.field in IDX]
        if not its:
            continue
        n += 1
        touched = {t.field for t in its}
        R.ob("C04-R2", "set:" + key, "%s touches all four quad indexes (touches %s)" % (b.name, sorted(touched)),
             touched == set(IDX), where=b.where())
        viol = W.lockstep_violations(b, its, IDX)
        R.ob("C04-R2", "paths:" + key, "%s: no path touches one quad index and skips another" % b.name, not viol,
             where=b.where(), detail="; ".join("touch of %s at line %s can skip %s" % (t.field, t.ln, g) for t, g in viol[:4]) or None)
    R.floor("C04-R2", "quad-index writer bodies", n, 3)

    # ---- R4 catalog independence
    drop = R.body("C04-R4", "DatasetIndex::drop_graph")
    clear = R.body("C04-R4", "DatasetIndex::clear")
    clear_graph = R.body("C04-R4", "DatasetIndex::clear_graph")
    cat_t = [t for t in touches if t.field == CAT]
    for t in cat_t:
        if t.op == "remove":
            R.ob("C04-R4", "remove-in:" + t.body.key, "catalog `remove` occurs only in drop_graph (found in %s)" % t.body.name,
                 drop is not None and t.body.key == drop.key, where=t.body.where(t.ln))
        if t.op == "clear":
            R.ob("C04-R4", "clear-in:" + t.body.key, "catalog `clear` occurs only in clear() (found in %s)" % t.body.name,
                 clear is not None and t.body.key == clear.key, where=t.body.where(t.ln))
    if drop is not None and clear_graph is not None:
        rem = [t for t in cat_t if t.body.key == drop.key and t.op == "remove"]
        R.floor("C04-R4", "catalog removals in drop_graph", len(rem), 1)
        cg_calls = [c for c in drop.calls() if c.key == clear_graph.key]
        for t in rem:
            ok = any(drop.dominates(c.bb, t.bb) for c in cg_calls)
            R.ob("C04-R4", "drop-clears-first", "drop_graph clears the graph's quads before removing its identity", ok,
                 where=drop.where(t.ln))
        # the non-default arm of drop_graph removes the identity whenever it returns true:
    # inserting writer registers the graph on every inserting path
    for key in sorted(insert_role):
        b = prog.bodies[key]
        reg = [t for t in cat_t if t.body.key == key and t.op == "insert"]
        R.ob("C04-R4", "register:" + key, "%s registers named graphs in the catalog" % b.name, bool(reg), where=b.where())
        if not reg:
            continue
        regb = {t.bb for t in reg}
        sw = _named_switches(b, regb)
        idx_blocks = {t.bb for t in writers[key] if t.field in IDX}
        ok = bool(sw) and all(any(b.dominates(s, ib) for s in sw) for ib in idx_blocks)
        R.ob("C04-R4", "register-dominates:" + key,
             "every quad-index insertion in %s is preceded by the named-graph registration switch" % b.name, ok,
             where=b.where())
    create = R.body("C04-R4", "DatasetIndex::create_graph")
    if create is not None:
        reg = [t for t in cat_t if t.body.key == create.key and t.op == "insert"]
        R.ob("C04-R4", "create-registers", "create_graph inserts the identity into the catalog", bool(reg), where=create.where())
        if reg:
            sw = _named_switches(create, {t.bb for t in reg})
            R.ob("C04-R4", "create-registers-all-paths", "create_graph registers a named graph on every path of its Named arm",
                 bool(sw), where=create.where())
    # delete/clear_graph never remove identity: covered by remove-in/clear-in above (they are not drop_graph/clear)
    R.floor("C04-R4", "catalog touches", len(cat_t), 6)

    # ---- R6 a no-op mutation changes nothing
    R.rule("C04-R6", "a delete that removes nothing changes nothing: in the deleting writer every write to an index field or to the "
                     "graph catalog is dominated by the `quad is present` outcome of the membership test (the path that returns "
                     "false performs no write) - graph identities exist from creation / first insert until dropped, a failed "
                     "delete must not create or resurrect one")
    from lib import guards as G
    for key in sorted(delete_role):
        b = prog.bodies[key]
        ts = [t for t in writers.get(key, [])]
        tests = [c for c in b.calls() if c.name() in ("contains_quad", "contains")]
        R.ob("C04-R6", "tested:" + key, "%s tests membership before deleting" % b.name, len(tests) >= 1, where=b.where())
        for n, t in enumerate(ts):
            ok = False
            for cd in G.conditions(b, t.bb):
                if cd.get("kind") == "call" and cd["call"].name() in ("contains_quad", "contains") and cd.get("truth") is True:
                    ok = True
            R.ob("C04-R6", "guarded:%s:%s:%d" % (b.name, t.field, n), "the write to `%s` (%s) in %s happens only when the quad is present" % (t.field, t.op, b.name),
                 ok, where=b.where(t.ln), detail=None if ok else "on the path that finds nothing to delete the %s is modified: a no-op delete in an unknown or "
                 "dropped graph creates / resurrects its identity" % ("catalog" if t.field == CAT else "index"))
    R.floor("C04-R6", "deleting writers", len(delete_role), 1)

    # ---- R7 the named-graph reader reads named graphs only
    R.rule("C04-R7", "the across-named-graphs reader never reads the default graph: every graph it hands to query_graph comes from the "
                     "catalog of named graphs (a caller-supplied visible set may only filter that list), and its fully-bound fast path "
                     "drops GraphId::Default - so all its arms agree on which graphs count")
    from lib import pipeline as P
    qn = R.body("C04-R7", "DatasetIndex::query_named_graphs")
    if qn is not None:
        R.saw(qn)
        qg = [c for c in qn.calls() if c.name() == "query_graph"]
        R.ob("C04-R7", "delegates", "query_named_graphs reads graph by graph through query_graph (found %d call)" % len(qg), len(qg) >= 1, where=qn.where())
        for c in qg:
            drv = P.loop_driver(qn, c.bb)
            terms = []
            if drv and drv[2] is not None and drv[2].get("in"):
                call0 = drv[2]["call"]
                P.coverage_terminals(prog, qn, call0.args[0], set(), terms)
            srcs = sorted({"%s:%s" % (t[0], t[1]) for t in terms})
            ok = bool(terms) and all(t[0] == "call" and t[1] == "named_graphs" for t in terms)
            if not ok and terms and all((t[0] == "call" and t[1] == "named_graphs") or (t[0] == "param" and t[1] == "visible_graphs") for t in terms):
                # graphs taken from the visible set are fine if the pipeline keeps named, existing graphs only
                tests_named = tests_exists = False
                for x in prog.family(qn.key):
                    if not x.is_closure:
                        continue
                    for cc in x.calls():
                        if cc.name() in ("graph_exists", "contains") :
                            tests_exists = True
                        if cc.name() in ("ne", "eq") and any("GraphId" in x.local_ty((F.op_place(a) or {"l": 0})["l"]) for a in cc.args if F.op_place(a)):
                            tests_named = True
                    for bb, t in x.terms():
                        if t["t"] == "switch":
                            d = G.describe_discr(x, t["discr"])
                            if d.get("kind") == "discr" and (d.get("adt") or "").endswith("GraphId"):
                                tests_named = True
                # the fast path has its own `!= Default`; demand a second, separate named-test for the candidate list
                ncmp = sum(1 for x in prog.family(qn.key) if x.is_closure for cc in x.calls() if cc.name() in ("ne", "eq") and
                           any("GraphId" in x.local_ty((F.op_place(a) or {"l": 0})["l"]) for a in cc.args if F.op_place(a)))
                nsw = sum(1 for x in prog.family(qn.key) if x.is_closure for bb, t in x.terms() if t["t"] == "switch" and
                          G.describe_discr(x, t["discr"]).get("kind") == "discr" and (G.describe_discr(x, t["discr"]).get("adt") or "").endswith("GraphId"))
                ok = tests_exists and (ncmp + nsw) >= 2
            R.ob("C04-R7", "catalog-only", "the graphs visited are taken from named_graphs() only (sources: %s)" % srcs, ok, where=qn.where(c.ln),
                 detail=None if ok else "graphs taken from a caller-supplied set may include GraphId::Default: the default graph's quads are then "
                 "returned as named-graph matches for every not fully bound pattern, while the fully bound arm still excludes them")
        # fast path: a comparison against GraphId::Default filters the graph set
        fam = prog.family(qn.key)
        drops = False
        for x in fam:
            for cc in x.calls():
                if cc.name() in ("ne", "eq") and any("GraphId" in x.local_ty((F.op_place(a) or {"l": 0})["l"]) for a in cc.args if F.op_place(a)):
                    drops = True
            for bb, i, pl, rv, st in x.assigns():
                if rv["rv"] == "aggregate" and rv.get("variant") == "Default" and (rv.get("adt") or "").endswith("GraphId"):
                    drops = drops or True
        R.ob("C04-R7", "fast-path-drops-default", "the fully bound fast path excludes GraphId::Default", drops, where=qn.where())

    # ---- R8 merged graphs: an element is dropped only as a duplicate
    R.rule("C04-R8", "the merged read path is the union of its source graphs: every quad that query_graph returns for a source graph reaches the "
                     "result, except that a triple already emitted is not emitted again. Whether an element is kept depends on that element and on "
                     "what was emitted before - never on another read of the index (which graphs else hold the triple, which graph is the "
                     "smallest owner): such a test looks at graphs outside the source list")
    qm = R.body("C04-R8", "DatasetIndex::query_merged_graphs")
    if qm is not None:
        R.saw(qm)
        fam = prog.family(qm.key)
        index_reads = ("graphs_for_triple", "contains_quad", "contains_triple", "graph_exists", "named_graphs", "all_quads", "query_default", "query_named_graphs")
        extra = [(x, c) for x in fam for c in x.calls() if c.name() in index_reads]
        R.ob("C04-R8", "no-other-index-read", "query_merged_graphs reads the index only through query_graph on its source graphs (other reads: %s)"
             % sorted({c.name() for x, c in extra}), not extra, where=qm.where(extra[0][1].ln if extra else None),
             detail=None if not extra else "the decision to keep a triple consults the whole index: a triple whose other owner is outside the source list disappears")
        qg = [(x, c) for x in fam for c in x.calls() if c.name() == "query_graph"]
        R.ob("C04-R8", "delegates", "query_merged_graphs reads graph by graph through query_graph (found %d call)" % len(qg), len(qg) >= 1, where=qm.where())
        # pipeline form: only element-preserving adaptors and a set collect; loop form: a push skipped only after a failed seen-set insert
        filt = [c.name() for x in fam for c in x.calls() if c.name() in ("filter", "filter_map", "take", "skip", "take_while", "skip_while", "step_by", "retain", "dedup_by_key", "truncate")]
        R.ob("C04-R8", "no-filter", "no filtering or truncating adaptor on the way to the result (found %s)" % filt, not filt, where=qm.where())
        for x in fam:
            loops = x.loops()
            items = loops.items() if isinstance(loops, dict) else loops
            for h, blocks in items:
                pushes = [c for c in x.calls() if c.bb in blocks and c.name() in ("push", "extend", "insert") and not any(c.bb in b2 for h2, b2 in items if h2 != h and h2 in blocks)]
                pushes = [c for c in pushes if c.name() == "push"]
                if not pushes:
                    continue
                bad = []
                for bb, tgt, cd in P.skip_edges(x, h, blocks, {c.bb for c in pushes}):
                    if cd.get("kind") == "call" and cd["call"].name() == "insert" and cd.get("truth") is False:
                        continue        # already emitted
                    if cd.get("kind") == "variant" and cd.get("variant") in ("None",) and "Option" in (cd.get("adt") or ""):
                        continue        # iterator exhausted
                    bad.append(cd.get("kind") + (":" + cd["call"].name() if cd.get("kind") == "call" else ""))
                R.ob("C04-R8", "loop-skips-duplicates-only", "a loop of query_merged_graphs skips an element only because it was emitted before (other skips: %s)" % bad,
                     not bad, where=x.where(pushes[0].ln))

    # ---- R9 creating an existing graph changes nothing
    R.rule("C04-R9", "creating a graph that exists is a no-op: in create_graph the only unconditional write is the catalog's own set-insert "
                     "(idempotent); every other write into a field of the index (a map `insert` that overwrites, `remove`, `clear`, an assignment) "
                     "is control-dependent on a test that the graph did not exist before, or goes through `entry(..).or_insert(..)`. Re-creating a "
                     "populated graph - which union() does for every graph name the two sides share - must leave every access path as it was")
    cg = R.body("C04-R9", "DatasetIndex::create_graph")
    if cg is not None:
        R.saw(cg)
        allf = [f["name"] for f in adt["variants"][0]["fields"]]
        nw = 0
        for t in W.field_touches(prog, DI, allf, bodies=[cg]):
            if t.kind not in ("refmut", "assign"):
                continue
            nw += 1
            set_insert = t.field == CAT and t.op == "insert"
            soft = t.op in ("entry", "get_mut", "iter_mut", "values_mut") and t.kind == "refmut"
            guarded = False
            for cd in G.conditions(cg, t.bb):
                c0 = cd.get("call")
                if cd.get("kind") == "call" and c0 is not None and c0.name() in ("graph_exists", "contains", "contains_key", "insert", "is_some", "is_none", "is_empty"):
                    guarded = True
                if cd.get("kind") in ("local", "bool") or cd.get("kind") == "cmp":
                    guarded = True
            ok = set_insert or guarded
            if soft and not ok:
                # entry(..): what follows must be or_insert* / or_default (never and_modify / insert on the entry)
                after = [c.name() for c in cg.calls() if cg.dominates(t.bb, c.bb)]
                ok = not any(n in ("and_modify", "insert_entry", "insert") for n in after) and any(n.startswith("or_") for n in after)
            R.ob("C04-R9", "noop:%s:%s" % (t.field, t.op or t.kind), "create_graph writes `%s` (%s) only for a graph that did not exist, or idempotently"
                 % (t.field, t.op or t.kind), ok, where=cg.where(t.ln),
                 detail=None if ok else "re-creating a populated graph overwrites what this field recorded for it: the access path that reads the field "
                 "disagrees with the quad indexes from then on")
        R.floor("C04-R9", "writes in create_graph", nw, 1)

    # ---- R5 rebuild
    r5(R)

    # ---- R3 permutation agreement
    nav.check_permutations(R, insert_role, delete_role)


def _is_removal_helper(prog, body):
    """a free function that only removes (HashMap/HashSet::remove, get_mut, is_empty) from the index it is given"""
    seen = set()
    work = [body]
    removes = False
    while work:
        b = work.pop()
        if b.key in seen:
            continue
        seen.add(b.key)
        for c in b.calls():
            k = c.key or ""
            if k in prog.bodies and prog.bodies[k].crate == "shared":
                work.append(prog.bodies[k])
                continue
            nm = c.name()
            if nm in ("remove",):
                removes = True
            elif nm in ("get_mut", "is_empty", "deref", "deref_mut", "borrow", "borrow_mut"):
                pass
            elif nm in ("insert", "entry", "extend", "retain", "clear", "drain", "or_default", "or_insert", "or_insert_with"):
                return False
    return removes


def _named_switches(b, reg_blocks):
    """switch blocks on a GraphId discriminant whose Named edge cannot reach an exit without passing a registration"""
    out = []
    exits = set(b.exits())
    for bb, t in b.terms():
        if t["t"] != "switch":
            continue
        dl = F.op_local(t["discr"])
        if dl is None:
            continue
        d = b.single_def(dl)
        if not d or d[0] != "assign" or d[3]["rv"] != "discriminant" or d[3].get("adt") != "shared::dataset_index::GraphId":
            continue
        named_val = [v for v, n in d[3].get("variants", []) if n == "Named"]
        tgt = None
        for v, target in t["targets"]:
            if named_val and v == named_val[0]:
                tgt = target
        if tgt is None:
            # Named may be the otherwise edge
            explicit = {v for v, _ in t["targets"]}
            if named_val and named_val[0] not in explicit:
                tgt = t["otherwise"]
        if tgt is None:
            continue
        if not (b.reach_from([tgt], avoid=reg_blocks) & exits) and (tgt in reg_blocks or b.reach_from([tgt]) & reg_blocks):
            out.append(bb)
    return out


def r5(R):
    prog = R.prog
    b = R.body("C04-R5", "SparqlDatabase::build_all_indexes", crate="kolibrie")
    if b is None:
        return
    SD = "kolibrie::sparql_database::SparqlDatabase"

    def on_old_index(c):
        if not c.args:
            return False
        o = b.origin(c.args[0], stop_named=False)
        return o[0] == "place" and F.place_has_field(o[1], SD, "dataset_index")

    allq = [c for c in b.calls() if c.is_("DatasetIndex::all_quads") and on_old_index(c)]
    ng = [c for c in b.calls() if c.is_("DatasetIndex::named_graphs") and on_old_index(c)]
    R.ob("C04-R5", "reads-all-quads", "rebuild reads all_quads() of the stored index", len(allq) >= 1, where=b.where())
    R.ob("C04-R5", "reads-named-graphs", "rebuild reads named_graphs() of the stored index", len(ng) >= 1, where=b.where())
    # the assignment self.dataset_index = <local>
    assigns = [(bb, pl, rv, s) for bb, i, pl, rv, s in b.assigns()
               if F.place_has_field(pl, SD, "dataset_index") and pl["p"][-1].get("n") == "dataset_index"]
    R.ob("C04-R5", "assigns", "rebuild assigns the stored index exactly once", len(assigns) == 1, where=b.where())
    if not (allq and ng and len(assigns) == 1):
        return
    bb_a, pl_a, rv_a, s_a = assigns[0]
    new_local = None
    if rv_a["rv"] == "use":
        new_local = b.alias_root(rv_a["op"])
    R.ob("C04-R5", "assigns-local", "the assigned value is a locally built index", new_local is not None, where=b.where(s_a.get("ln")))
    if new_local is None:
        return
    T = Taint(prog, b)
    T.seed(b, allq[0].dest["l"], "quads")
    T.seed(b, ng[0].dest["l"], "graphs")
    T.run()

    def on_new(c):
        return bool(c.args) and b.alias_root(c.args[0]) == new_local

    ins = [c for c in b.calls() if c.is_("DatasetIndex::insert_quad") and on_new(c)]
    cre = [c for c in b.calls() if c.is_("DatasetIndex::create_graph") and on_new(c)]
    ok_i = any("quads" in T.op_taint(b, c.args[1]) for c in ins)
    ok_c = any("graphs" in T.op_taint(b, c.args[1]) for c in cre)
    R.ob("C04-R5", "feeds-quads", "every quad of the old index is re-inserted into the rebuilt one (all_quads -> insert_quad)",
         ok_i, where=b.where())
    R.ob("C04-R5", "feeds-graphs", "every graph identity is re-created in the rebuilt one (named_graphs -> create_graph)",
         ok_c, where=b.where())
    # both feeding loops are complete before the assignment: the loop headers dominate it and the loop exits lead to it
    for nm, cs in (("insert_quad", ins), ("create_graph", cre)):
        for c in cs:
            lp = b.loops_containing(c.bb)
            ok = bool(lp) and all(b.dominates(h, bb_a) and bb_a not in body for h, body in lp)
            R.ob("C04-R5", "loop-before-assign:" + nm, "the %s loop runs to completion before the new index is stored" % nm,
                 ok, where=b.where(c.ln))
    # source reads must precede construction order irrelevant; but reads must come from the OLD index: they dominate the assignment
    for nm, c in (("all_quads", allq[0]), ("named_graphs", ng[0])):
        R.ob("C04-R5", "read-before-assign:" + nm, "%s() is read before the stored index is replaced" % nm,
             b.dominates(c.bb, bb_a) and c.bb != bb_a, where=b.where(c.ln))

"""C06 — probabilities of derived facts: the propagation discipline every provenance mode relies on (structural part only).

Decides necessary conditions of "the reported tag is the weight of the worlds in which the fact is derivable": every matched premise
enters the conjunction, every derivation is recorded (first tag or disjunction), improved tags are re-triggered and consumed, the
negative stratum runs after the positive fixpoint on exactly the rules with negation and negates every negated atom, every seed gets
its own identifier, and an absent tag means certainty.  It does NOT decide the numeric equality (model counting, saturation)."""
from lib import facts as F
from lib import guards as G
from lib import pipeline as P
import c12


class Remap:
    """presents the C12 rule functions' obligations under C06 rule ids"""

    def __init__(self, R, m):
        self._R = R
        self._m = m

    def rule(self, rid, text):
        if rid in self._m:
            self._R.rule(self._m[rid], text)

    def ob(self, rule, key, what, ok, where=None, detail=None):
        if rule in self._m:
            return self._R.ob(self._m[rule], key, what, ok, where=where, detail=detail)

    def floor(self, rule, what, count, floor):
        if rule in self._m:
            return self._R.floor(self._m[rule], what, count, floor)

    def advisory(self, rule, text):
        if rule in self._m:
            return self._R.advisory(self._m[rule], text)

    def __getattr__(self, a):
        return getattr(self._R, a)


PSN = "provenance_semi_naive"


def run(R):
    prog = R.prog
    R.rule("C06-R1", "every premise counts: the tag of a derived fact is the conjunction over ALL matched premise facts (positive round and "
                     "negative pass), read from the tag store, guarded by the zero test")
    R.rule("C06-R2", "every derivation is recorded: for each conclusion of each rule instance the round either gives the fact its first tag or "
                     "merges the new derivation with update_disjunction - no path drops a derivation (alternative derivations add up)")
    R.rule("C06-R3", "improved tags propagate: a known fact whose tag improved is queued, the round reports the change, and later rounds join "
                     "the queued facts again")
    R.rule("C06-R4", "stratification: rules are split on `negative_premise is empty` into complementary sets, the positive fixpoint completes "
                     "before the single negative pass, and that pass receives exactly the rules with negation")
    R.rule("C06-R5", "seeds are distinct variables: every probability seed is tagged with tag_from_probability_with_id using its own index of "
                     "one enumeration over the complete seed list, and the recorded seed order is that same list")
    R.rule("C06-R6", "negation is complete: the negative pass folds EVERY negated atom into the tag - the negated tag of a present fact, "
                     "certainty for an absent one - and the conclusion tag is the conjunction of the positive and the negative part")
    R.rule("C06-R7", "tag store semantics: an absent tag reads as one(); update_disjunction stores disjunction(old, new) and reports a change "
                     "exactly when the result is not saturated")
    R.rule("C06-R8", "the exact model counter has no shortcut: every value shannon_wmc returns is a constant of a base case, the memoised value, or "
                     "computed from the recursive counts of both cofactors; a closed form is accepted for a single proof, or under an independence "
                     "test that compares the proofs' variables. A closed form whose side condition compares signed literals is wrong: literals of the "
                     "same seed with opposite polarity are not independent")
    r8(R)
    R.rule("C06-R9", "saturation means `nothing changed`: every Provenance::is_saturated compares its two tags as wholes (equality, or a numeric "
                     "distance for the float-valued modes); none compares a projection of the tags - their size, their emptiness, their first "
                     "element. Disjunction absorbs subsumed proofs, so a tag can change while its number of proofs stays the same; "
                     "update_disjunction then discards the improved tag")
    r9(R)
    r10(R)
    # ---- R1 (positive round) and R3, shared with C12
    c12.r5_r6(Remap(R, {"C12-R5": "C06-R1", "C12-R6": "C06-R3"}))
    c12.r3(Remap(R, {"C12-R3": "C06-R3"}))
    neg = R.body("C06-R1", PSN + "::run_negative_stratum_pass", crate="datalog")
    rounds = [b for b in prog.bodies.values() if (b.r.get("trait_item") or "").endswith("ProvenanceInferenceStrategy::infer_round") and b.crate == "datalog"]
    if neg is not None:
        _fold_over_all(R, neg)
    # ---- R2
    for b in rounds + ([neg] if neg is not None else []):
        _every_derivation_recorded(R, b)
    # ---- R4
    _stratification(R, neg)
    # ---- R5
    _seeds(R)
    # ---- R6
    if neg is not None:
        _negation(R, neg)
    # ---- R7
    _tag_store(R)


def _closure_calls(prog, b, op):
    from c19 import closure_family_calls
    return closure_family_calls(prog, b, op)


def _fold_over_all(R, b):
    prog = R.prog
    folds = []
    for c in b.calls():
        if c.name() in ("fold", "reduce", "try_fold"):
            key, inner = _closure_calls(prog, b, c.args[-1])
            if key and any(ic.name() == "conjunction" for x, ic in inner):
                folds.append(c)
    R.ob("C06-R1", "fold:" + b.short, "%s combines the positive premise tags with a fold over conjunction (found %d)" % (b.short, len(folds)), len(folds) >= 1, where=b.where())
    for c in folds:
        t = P.tree(b, c.args[0])
        names, roots = P.flat(t)
        bad = [n for n in names if n not in ("iter", "into_iter", "map", "deref", "cloned", "copied", "as_slice", "clone", "as_ref", "borrow")]
        src = False
        if len(roots) == 1 and roots[0]["k"] == "root":
            src = ("call", "resolve_premise_triples") in P.derives(prog, b, roots[0]["local"])
        R.ob("C06-R1", "all-premises:" + b.short, "the conjunction ranges over every matched positive premise (pipeline %s)" % P.render(t), not bad and src,
             where=b.where(c.ln), detail=None if (not bad and src) else "a premise left out of the conjunction makes the derived probability too high")
        # the tags come from the tag store
        key, inner = _closure_calls(prog, b, c.args[0]) if False else (None, [])
    # the patterns handed to resolve_premise_triples are the rule's whole premise list
    for c in b.calls():
        if c.name() == "resolve_premise_triples" and c.args:
            names, roots = P.flat(P.tree(b, c.args[0]))
            ok = any(r["k"] == "root" and "premise" in r["fields"] for r in roots) and not [n for n in names if n not in ("deref", "as_slice", "iter")]
            R.ob("C06-R1", "whole-premise:" + b.short, "all premise patterns of the rule are resolved (pipeline %s over %s)" % (names, [P.render(r) for r in roots]),
                 ok, where=b.where(c.ln))


def _every_derivation_recorded(R, b):
    """inside the loop over a rule's conclusions every iteration reaches set_tag or update_disjunction"""
    prog = R.prog
    rec = [c for c in b.calls() if c.name() in ("set_tag", "update_disjunction")]
    R.ob("C06-R2", "records:" + b.short, "%s records derivations with set_tag / update_disjunction (found %d sites)" % (b.short, len(rec)),
         len(rec) >= 2 and {"set_tag", "update_disjunction"} <= {c.name() for c in rec}, where=b.where())
    if not rec:
        return
    # the innermost loop that contains all recording sites and iterates rule.conclusion
    cand = None
    for h, blocks in b.loops():
        if all(c.bb in blocks for c in rec):
            drv = P.driver_of(b, h, blocks)
            if drv and drv[2] is not None:
                names, roots = P.flat(drv[2])
                if any(r["k"] == "root" and "conclusion" in r["fields"] for r in roots):
                    if cand is None or len(blocks) < len(cand[1]):
                        cand = (h, blocks, names)
    R.ob("C06-R2", "conclusion-loop:" + b.short, "the recording sites sit in a loop over the rule's conclusions", cand is not None, where=b.where(rec[0].ln))
    if cand is None:
        return
    h, blocks, names = cand
    whole = not [n for n in names if n not in ("iter", "into_iter", "deref")]
    R.ob("C06-R2", "every-conclusion:" + b.short, "every conclusion of the rule is derived (pipeline %s)" % names, whole, where=b.where(rec[0].ln))
    entries = [s2 for c in b.calls() if c.name() == "next" and c.bb in blocks and (c.bb == h or b.dominates(h, c.bb))
               for s1 in b.succ(c.bb) for s2 in b.succ(s1) if s2 in blocks and b.blocks[s1]["term"]["t"] == "switch"
               and all(b.dominates(c.bb, r.bb) for r in rec)]
    skip = (h in b.reach_from(entries, avoid={c.bb for c in rec})) if entries else True
    R.ob("C06-R2", "no-derivation-dropped:" + b.short, "no iteration over the conclusions returns to the loop head without recording the derivation",
         not skip, where=b.where(rec[0].ln),
         detail=None if not skip else "a derivation that is neither the fact's first tag nor merged by disjunction is lost: the reported probability "
         "misses the worlds in which only that derivation holds")
    # the tag recorded is the conclusion tag computed for this instance (same local in both calls)
    tagroots = set()
    for c in rec:
        a = c.args[2] if len(c.args) > 2 else None
        if a is not None:
            o = b.origin(a, stop_named=True)
            if o[0] == "call" and o[1].name() == "clone" and o[1].args:
                o = b.origin(o[1].args[0], stop_named=True)
            tagroots.add(o[1]["l"] if o[0] == "place" else None)
    R.ob("C06-R2", "same-tag:" + b.short, "both recording sites store the tag computed for this rule instance", len(tagroots) == 1 and None not in tagroots,
         where=b.where(rec[0].ln))


def _stratification(R, neg):
    prog = R.prog
    drv = R.body("C06-R4", PSN + "::semi_naive_with_initial_tags", crate="datalog")
    if drv is None:
        return
    # the two filters: closures that test negative_premise.is_empty()
    pol = {}
    for c in drv.calls():
        if c.name() == "filter" and len(c.args) == 2:
            key, inner = _closure_calls(prog, drv, c.args[1])
            cl = prog.bodies.get(key) if key else None
            if cl is None:
                continue
            emp = [ic for ic in cl.calls() if ic.name() == "is_empty"]
            if not emp:
                continue
            o = cl.origin(emp[0].args[0], stop_named=False)
            on_neg = o[0] == "place" and any(e.get("n") == "negative_premise" for e in o[1]["p"])
            if not on_neg:
                continue
            # does the closure return is_empty or its negation?
            neg_ret = any(rv["rv"] == "unop" and rv["op"] == "Not" for bb, i, pl, rv, st in cl.assigns() if pl["l"] == 0)
            # which collection does the filter result end up in?
            dest = None
            cur = c.dest["l"]
            for _ in range(4):
                nxt = [x for x in drv.calls() if x.args and F.op_place(x.args[0]) is not None and F.op_place(x.args[0])["l"] == cur]
                if not nxt:
                    break
                cur = nxt[0].dest["l"]
                if drv.local_name(cur):
                    dest = cur
                    break
            pol["negative" if neg_ret else "positive"] = dest
    R.ob("C06-R4", "partition", "rules are split by complementary tests on negative_premise.is_empty() (found %s)" % sorted(pol),
         set(pol) == {"positive", "negative"} and None not in pol.values(), where=drv.where())
    pos_call = [c for c in drv.calls() if c.name().startswith("infer_with_provenance_strategy")]
    neg_call = [c for c in drv.calls() if neg is not None and c.key == neg.key]
    R.ob("C06-R4", "calls", "the driver runs the positive fixpoint and the negative pass (found %d / %d)" % (len(pos_call), len(neg_call)),
         len(pos_call) == 1 and len(neg_call) == 1, where=drv.where())
    if len(pos_call) == 1 and len(neg_call) == 1 and set(pol) == {"positive", "negative"}:
        pc, nc = pos_call[0], neg_call[0]
        R.ob("C06-R4", "order", "the positive fixpoint completes before the negative pass", drv.dominates(pc.bb, nc.bb) and pc.bb != nc.bb, where=drv.where(nc.ln))

        def uses(c, l):
            return any(_root_through(drv, a) == l for a in c.args)
        R.ob("C06-R4", "positive-rules", "the fixpoint receives the rules without negation", uses(pc, pol["positive"]), where=drv.where(pc.ln))
        R.ob("C06-R4", "negative-rules", "the negative pass receives the rules with negation", uses(nc, pol["negative"]), where=drv.where(nc.ln))
        # the pass is skipped only when there is no rule with negation
        extra = [cd for cd in G.conditions(drv, nc.bb) if not (cd["kind"] == "call" and cd["call"].name() == "is_empty"
                                                                and _root_through(drv, cd["call"].args[0]) == pol["negative"])]
        R.ob("C06-R4", "pass-unconditional", "the negative pass runs whenever a rule with negation exists", not extra, where=drv.where(nc.ln))


def _root_through(b, op, depth=0):
    if depth > 8:
        return None
    o = b.origin(op, stop_named=True)
    if o[0] == "place":
        return o[1]["l"]
    if o[0] == "call" and o[1].name() in ("deref", "as_slice", "as_ref", "borrow", "as_mut", "deref_mut", "clone") and o[1].args:
        return _root_through(b, o[1].args[0], depth + 1)
    return None


def _seeds(R):
    prog = R.prog
    b = R.body("C06-R5", "Reasoner::infer_new_facts_with_provenance", crate="datalog")
    if b is None:
        return
    tags = [c for c in b.calls() if c.name() == "tag_from_probability_with_id"]
    sets = [c for c in b.calls() if c.name() == "set_tag"]
    R.ob("C06-R5", "tagging", "seeds are tagged through tag_from_probability_with_id + set_tag (found %d / %d)" % (len(tags), len(sets)),
         len(tags) == 1 and len(sets) >= 1, where=b.where())
    if len(tags) != 1:
        return
    c = tags[0]
    drv = P.loop_driver(b, c.bb)
    names, roots = (P.flat(drv[2]) if drv and drv[2] is not None else ([], []))
    ok = "enumerate" in names and not [n for n in names if n not in ("iter", "into_iter", "enumerate", "deref")]
    R.ob("C06-R5", "enumeration", "the seeds are numbered by one enumerate() over the complete list (pipeline %s)" % names, ok, where=b.where(c.ln),
         detail=None if ok else "two seeds sharing an identifier are one variable for model counting; a skipped seed keeps the default tag one()")
    # the id argument is the enumerate index (component 0 of the item), the probability is the item's
    o = b.origin(c.args[2], stop_named=False) if len(c.args) > 2 else ("?",)
    from_item = False
    if o[0] == "place":
        idx = [e.get("i") for e in o[1]["p"] if e["k"] == "field"]
        from_item = bool(idx) and idx[0] == 0
    R.ob("C06-R5", "own-index", "the identifier passed is the seed's own enumeration index", from_item, where=b.where(c.ln))
    # the list that is enumerated is the list recorded as seed_triples, and it is sorted
    lst = roots[0]["local"] if len(roots) == 1 and roots[0]["k"] == "root" else None
    rec = False
    for bb, i, pl, rv, st in b.assigns():
        if pl["p"] and pl["p"][-1].get("n") == "seed_triples":
            der = P.derives(prog, b, F.op_place(rv["op"])["l"]) if rv["rv"] == "use" and F.op_place(rv["op"]) else set()
            names2, roots2 = P.flat(P.tree(b, rv["op"], stop_named=True)) if rv["rv"] == "use" else ([], [])
            if lst is not None and any(r["k"] == "root" and r["local"] == lst for r in roots2) and not [n for n in names2 if n in ("take", "skip", "filter", "rev", "step_by")]:
                rec = True
    R.ob("C06-R5", "recorded-order", "seed_triples is built from the same list, in the same order", rec, where=b.where(c.ln))
    srt = [x for x in b.calls() if x.name().startswith("sort") and x.args and lst is not None and _root_through(b, x.args[0]) == lst]
    R.advisory("C06-R5", "the seed list is %ssorted before numbering (identifiers %s on hash iteration order; consistent within one run either way)"
               % ("" if srt else "NOT ", "do not depend" if srt else "depend"))
    # every seed comes from probability_seeds without truncation
    if lst is not None:
        names3, roots3 = P.flat(P.tree(b, {"k": "copy", "pl": {"l": lst, "p": [], "t": ""}}, stop_named=False))
        ok3 = any(r["k"] == "root" and "probability_seeds" in r["fields"] for r in roots3) and not [n for n in names3 if n in ("take", "skip", "filter", "step_by", "take_while", "skip_while")]
        R.ob("C06-R5", "all-seeds", "the list holds every entry of probability_seeds (pipeline %s)" % names3, ok3, where=b.where(c.ln))


def _negation(R, neg):
    prog = R.prog
    negs = [c for c in neg.calls() if c.name() == "negate"]
    R.ob("C06-R6", "negates", "the negative pass negates the tag of a present negated fact (found %d negate call)" % len(negs), len(negs) >= 1, where=neg.where())
    for c in negs:
        drv = P.loop_driver(neg, c.bb)
        names, roots = (P.flat(drv[2]) if drv and drv[2] is not None else ([], []))
        ok = any(r["k"] == "root" and "negative_premise" in r["fields"] for r in roots) and not [n for n in names if n not in ("iter", "into_iter", "deref")]
        R.ob("C06-R6", "every-negated-atom", "the loop visits every negated atom of the rule (pipeline %s)" % names, ok, where=neg.where(c.ln))
        if not drv:
            continue
        h, blocks, t = drv
        # accumulation: a conjunction inside the loop whose result is assigned back to one of its arguments' roots
        acc = False
        accl = None
        for x in neg.calls():
            if x.bb in blocks and x.name() == "conjunction" and len(x.args) >= 3:
                a1 = _root_through(neg, x.args[1])
                for bb, i, pl, rv, st in neg.assigns():
                    if bb in blocks and not pl["p"] and rv["rv"] == "use" and neg.alias_root(rv["op"]) == x.dest["l"] and pl["l"] == a1:
                        acc = True
                        accl = a1
                if x.dest["l"] == a1:
                    acc = True
                    accl = a1
        R.ob("C06-R6", "accumulates", "each negated atom's contribution is folded into the running negative tag", acc, where=neg.where(c.ln))
        # the contribution folded is negate(tag) / one() / zero(): on the `present` edge it is the negate result
        # exits of the loop: exhaustion, or the running tag became zero
        bad = []
        for k in blocks:
            for s2 in neg.succ(k):
                if s2 in blocks or neg.blocks[s2]["term"]["t"] == "unreachable":
                    continue
                if neg.dominates(c.bb, k) or k in neg.reach_from(neg.succ(c.bb), avoid={h}):
                    # an exit after the contribution was computed: must be the `== zero` shortcut
                    conds = [cd for cd in G.conditions(neg, s2) if cd.get("bb") == k] or [cd for tgt, cd in G.edge_conditions(neg, k) if tgt == s2]
                    if not any(cd.get("kind") == "call" and cd["call"].name() in ("eq", "ne") for cd in conds):
                        bad.append(k)
        R.ob("C06-R6", "only-zero-shortcut", "the loop over negated atoms is left early only when the running tag is already zero", not bad, where=neg.where(c.ln))
        # final: conjunction(pos_tag, neg_tag) after the loop
        fin = [x for x in neg.calls() if x.name() == "conjunction" and x.bb not in blocks and len(x.args) >= 3 and accl is not None
               and accl in (_root_through(neg, x.args[1]), _root_through(neg, x.args[2]))]
        R.ob("C06-R6", "combined", "the conclusion tag is conjunction(positive part, negative part)", len(fin) >= 1, where=neg.where(c.ln))
        # an absent negated fact contributes certainty
        ones = [x for x in neg.calls() if x.bb in blocks and x.name() == "one" and any(
            cd.get("kind") == "call" and cd["call"].name() == "contains" and cd.get("truth") is False for cd in G.conditions(neg, x.bb))]
        R.ob("C06-R6", "absent-is-certain", "a negated fact that is absent contributes one() (NOT absent = certainly true)", len(ones) >= 1, where=neg.where(c.ln))
        # present / absent decision: negate is controlled by the membership test of the negated fact
        ctrl = any(cd.get("kind") == "call" and cd["call"].name() == "contains" and cd.get("truth") is True for cd in G.conditions(neg, c.bb))
        R.ob("C06-R6", "present-only", "a tag is negated only for a negated fact that is present in the stratum-0 closure", ctrl, where=neg.where(c.ln))


def _tag_store(R):
    prog = R.prog
    gt = R.body("C06-R7", "TagStore::get_tag", crate="shared")
    ud = R.body("C06-R7", "TagStore::update_disjunction", crate="shared")
    if gt is not None:
        fam = prog.family(gt.key)
        one = any(c.name() == "one" for x in fam for c in x.calls())
        other = sorted({c.name() for x in fam for c in x.calls() if c.name() in ("zero", "default")})
        R.ob("C06-R7", "absent-is-one", "get_tag falls back to provenance.one() (other fallbacks: %s)" % other, one and not other, where=gt.where())
    if ud is not None:
        dis = [c for c in ud.calls() if c.name() == "disjunction"]
        st = [c for c in ud.calls() if c.name() == "set_tag"]
        sat = [c for c in ud.calls() if c.name() == "is_saturated"]
        ok = len(dis) == 1 and len(st) == 1 and len(sat) == 1
        R.ob("C06-R7", "shape", "update_disjunction computes one disjunction, tests saturation once and stores once", ok, where=ud.where())
        if ok:
            d, s, q = dis[0], st[0], sat[0]
            stored = ud.alias_root(s.args[2]) == d.dest["l"] or _root_through(ud, s.args[2]) == ud.alias_root(d.dest["l"]) or \
                ud.alias_root(s.args[2]) == ud.alias_root(d.dest["l"])
            R.ob("C06-R7", "stores-disjunction", "the stored tag is the disjunction of the old tag and the new derivation", stored, where=ud.where(s.ln))
            old = [c for c in ud.calls() if c.name() == "get_tag"]
            oldok = len(old) == 1 and (_root_through(ud, d.args[1]) == ud.alias_root(old[0].dest["l"]) or ud.alias_root(d.args[1]) == old[0].dest["l"])
            R.ob("C06-R7", "old-and-new", "the disjunction takes the fact's current tag and the new tag", oldok, where=ud.where(d.ln))
            # store happens on the not-saturated edge; returns true there and false otherwise
            cds = [cd for cd in G.conditions(ud, s.bb) if cd.get("kind") == "call" and cd["call"] is q]
            R.ob("C06-R7", "store-iff-changed", "the tag is stored exactly when the combination is not saturated", bool(cds) and cds[0].get("truth") is False,
                 where=ud.where(s.ln))



def r8(R):
    from lib import pipeline as P
    prog = R.prog
    b = R.body("C06-R8", "provenance::shannon_wmc", crate="shared")
    if b is None:
        return
    R.saw(b)
    rec = [c for c in b.calls() if c.key == b.key]
    R.ob("C06-R8", "two-cofactors", "shannon_wmc expands on both cofactors (found %d recursive calls)" % len(rec), len(rec) >= 2, where=b.where())
    nret = 0
    for d in b.defs().get(0, []):
        if d[0] not in ("assign", "call"):
            continue
        nret += 1
        if d[0] == "call":
            terms = {("call", d[2].name())}
            for a in d[2].args:
                pl = F.op_place(a)
                if pl is not None:
                    terms |= P.derives(prog, b, pl["l"])
            ln = d[2].ln
        else:
            terms = set()
            for q, k in F.rv_places(d[3]):
                terms |= P.derives(prog, b, q["l"])
            if not list(F.rv_places(d[3])):
                terms.add(("const",))
            ln = (d[4].get("ln") if len(d) > 4 and isinstance(d[4], dict) else None)
        calls = {t[1] for t in terms if t[0] == "call"}
        from_rec = b.name in calls
        from_memo = any(t[0] == "param" and t[1] == "memo" for t in terms) and not (calls - {"get", "copied", "cloned", "deref"})
        const_only = not calls and not any(t[0] in ("param", "field") for t in terms)
        ok = from_rec or from_memo or const_only
        why = None
        if not ok:
            # a closed form is acceptable for a single proof (a product of literal weights is exact), or under an independence test that compares
            # the proofs' VARIABLES; a test on signed literals treats (x,true) and (x,false) as unrelated
            from lib import guards as G
            bbr = d[1]
            conds = G.conditions(b, bbr)
            single = any(cd.get("kind") == "call" and cd["call"].name() == "len" for cd in conds) or \
                any(cd.get("kind") == "cmp" and "len" in str(cd) for cd in conds)
            guard_calls = [cd["call"] for cd in conds if cd.get("kind") == "call" and cd["call"].key in prog.bodies]
            on_vars = False
            on_literals = False
            for gc in guard_calls:
                for x in prog.family(gc.key):
                    for c2 in x.calls():
                        if c2.name() in ("is_disjoint", "intersection", "is_subset", "contains", "union") and c2.args and F.op_place(c2.args[0]) is not None:
                            t = x.local_ty(F.op_place(c2.args[0])["l"])
                            if "(u32, bool)" in t:
                                on_literals = True
                            elif "u32" in t:
                                on_vars = True
            ok = single or (on_vars and not on_literals)
            why = "this return is computed through %s without the Shannon expansion%s" % (
                sorted(calls)[:5], "; its side condition compares signed literals, so proofs that use one seed with opposite polarity count as independent" if on_literals else "")
        R.ob("C06-R8", "return-by-expansion", "a value shannon_wmc returns is a base-case constant, the memoised value or built from the recursive counts", ok,
             where=b.where(ln), detail=None if ok else why)
    R.floor("C06-R8", "assignments to shannon_wmc's result", nret, 3)



def r9(R):
    prog = R.prog
    TR = "shared::provenance::Provenance::"
    impls = [b for b in prog.bodies.values() if b.crate == "shared" and not b.is_closure and "::tests::" not in b.key and b.name == "is_saturated"
             and (b.r.get("trait_item") or "").endswith("Provenance::is_saturated")]
    # a provided (default) body in the trait itself, and the implementors that rely on it
    default = prog.bodies.get(TR + "is_saturated")
    implementors = sorted({b.self_adt for b in prog.bodies.values() if b.crate == "shared" and "::tests::" not in b.key and not b.is_closure and b.self_adt
                           and (b.r.get("trait_item") or "").startswith(TR)})
    own = {b.self_adt for b in impls}
    by_default = [a for a in implementors if a not in own] if default is not None else []
    R.floor("C06-R9", "provenances whose saturation test was analysed (own implementation or the trait's default)", len(impls) + len(by_default), 6)
    missing = [a for a in implementors if a not in own and default is None]
    R.ob("C06-R9", "every-provenance", "every implementor of Provenance has a saturation test (without one: %s)" % missing, not missing)
    PROJ = ("len", "count", "is_empty", "first", "last", "iter", "keys", "capacity", "min", "max", "next")
    for b in sorted(impls, key=lambda x: x.key):
        R.saw(b)
        proj = sorted({c.name() for x in prog.family(b.key) for c in x.calls() if c.name() in PROJ})
        cmp_whole = any(c.name() in ("eq", "ne") for c in b.calls()) or any(rv["rv"] == "binop" and rv["op"] in ("Eq", "Ne", "Lt", "Le", "Gt", "Ge")
                                                                          for bb, i, pl, rv, st in b.assigns())
        ok = cmp_whole and not proj
        R.ob("C06-R9", "whole-tags:" + b.key.split("::")[-2] if "::" in b.key else b.key, "%s compares the tags as wholes" % b.pretty.replace("shared::", ""), ok, where=b.where(),
             detail=None if ok else "the comparison goes through %s: two different tags with the same %s count as saturated and the new one is dropped" % (proj, proj[0] if proj else "projection"))
    if default is not None:
        R.saw(default)
        # the default cannot see the tag type: it compares images under other trait methods; that is a whole-tag comparison only for an
        # implementor whose image function loses nothing
        through = sorted({c.name() for x in prog.family(default.key) for c in x.calls() if (c.pretty or "").startswith(TR) or (c.key or "").startswith(TR)})
        R.ob("C06-R9", "default-body", "the trait's default saturation test compares images of the two tags (under: %s)" % through, bool(through), where=default.where())
        for a in by_default:
            lossy = []
            for m in through:
                mb = [b for b in prog.bodies.values() if b.self_adt == a and b.name == m and (b.r.get("trait_item") or "") == TR + m]
                for b in mb:
                    R.saw(b)
                    casts = [rv.get("kind") for bb, i, pl, rv, st in b.assigns() if rv["rv"] == "cast" and str(rv.get("kind", "")).startswith(("IntToFloat", "FloatToInt", "IntToInt", "FloatToFloat"))]
                    calls = [c.name() for x in prog.family(b.key) for c in x.calls() if c.name() not in ("deref", "clone", "borrow")]
                    if casts or calls:
                        lossy.append("%s (%s)" % (m, ", ".join(str(k) for k in casts + calls[:3])))
                if not mb:
                    lossy.append("%s (not found)" % m)
            ok = not lossy
            R.ob("C06-R9", "whole-tags:default:" + a.split("::")[-1], "%s, which uses the default saturation test, maps different tags to different images" % a.split("::")[-1], ok,
                 where=default.where(), detail=None if ok else "its image function is not one-to-one: %s - two expiries beyond 2^53 that differ by less than the "
                 "spacing of f64 count as `nothing changed`, the later expiry is dropped and the fact is not re-queued" % lossy)


def r10(R):
    """a first tag is written only for a fact that has none: the memory of what was derived lives as long as the pass"""
    import c01
    prog = R.prog
    R.rule("C06-R10", "`first tag` means first in the whole pass: where the negative pass writes a tag with set_tag (which overwrites) instead of merging "
                      "with update_disjunction, the test that sends it there consults only collections that live for the whole pass - created before the "
                      "loop over the rules. A memory that is re-created per rule forgets what an earlier rule derived: the second NAF rule that concludes "
                      "the same triple overwrites the first derivation's tag, and the reported probability covers the last rule only")
    b = R.body("C06-R10", "provenance_semi_naive::run_negative_stratum_pass", crate="datalog")
    if b is None:
        return
    R.saw(b)
    sets = [c for c in b.calls() if c.name() == "set_tag" and b.loops_containing(c.bb)]
    if not R.ob("C06-R10", "writes", "the negative pass writes first tags in its rule loop (found %d set_tag)" % len(sets), len(sets) >= 1, where=b.where()):
        return
    for c in sets:
        loops = b.loops_containing(c.bb)
        outer = max(loops, key=lambda hl: len(hl[1]))[1]
        mem = []
        for cd in G.conditions(b, c.bb):
            cc = cd.get("call")
            if cd.get("kind") == "call" and cc is not None and cc.name() in ("contains", "insert", "contains_key", "get") and cc.args and cd.get("bb") in outer:
                cr = c01._creation_of(b, cc.args[0])
                where = "parameter" if cr and cr[0] == "param" else ("unknown" if cr is None else ("inside the rule loop" if all(k in outer for k in ([cr[1]] if cr[0] == "created" else cr[1])) else "before the rule loop"))
                mem.append((cc.name(), b.local_name(b.alias_root(cc.args[0])) if b.alias_root(cc.args[0]) is not None else "?", where))
        bad = [m for m in mem if m[2] in ("inside the rule loop", "unknown")]
        R.ob("C06-R10", "pass-wide:%d" % (c.ln or 0), "the `not derived yet` test in front of set_tag consults pass-wide memories only (consulted: %s)" % mem, bool(mem) and not bad,
             where=b.where(c.ln), detail=None if (mem and not bad) else "two NAF rules that conclude the same triple: the second overwrites the first derivation's tag")

"""C19 — inconsistency-tolerant answers: two-sided maximality, intersection over all repairs, guarded derivation."""
from lib import facts as F
from lib import guards as G


def closure_family_calls(prog, body, op):
    """all calls inside the closure passed as operand `op` (and nested closures)"""
    out = []
    pl = F.op_place(op)
    key = None
    if op.get("k") == "const" and op.get("closure"):
        key = op["closure"]
    elif pl is not None:
        cur = pl["l"]
        for _ in range(6):
            d = body.single_def(cur)
            if not d or d[0] != "assign":
                break
            rv = d[3]
            if rv["rv"] == "aggregate" and rv.get("ak") == "closure":
                key = rv["closure"]
                break
            nxt = rv.get("pl") or F.op_place(rv.get("op") or {})
            if nxt is None:
                break
            cur = nxt["l"]
    if key is None:
        return None, out
    for x in prog.family(key):
        out.extend((x, c) for c in x.calls())
    return key, out


def r5(R, cr):
    # the repair list is what the function returns; the queue is the other vector of candidate sets that is pushed to in the loop
    pushes = []
    for c in cr.calls():
        if c.name() == "push" and c.args and cr.loops_containing(c.bb):
            root = cr.alias_root(c.args[0])
            if root is not None and cr.local_name(root) != "repairs" and "HashSet" in cr.local_ty(root):
                pushes.append(c)
    R.floor("C19-R5", "queueing sites for sub-candidates", len(pushes), 1)
    ALLOWED = {"violates_constraints", "insert", "contains", "next", "pop", "is_some", "is_none"}
    for n, pc in enumerate(pushes):
        bad = []
        seen_consistency = False
        for c in G.conditions(cr, pc.bb):
            k = c["kind"]
            if k == "call":
                nm = c["call"].name()
                if nm == "violates_constraints":
                    seen_consistency = True
                if nm not in ALLOWED:
                    bad.append("result of %s()" % nm)
            elif k == "variant":
                continue
            elif k == "cmp":
                bad.append("comparison %s at line %s" % (c["op"], cr.blocks[c["bb"]]["term"].get("ln")))
            else:
                bad.append("condition of kind %s at line %s" % (k, cr.blocks[c["bb"]]["term"].get("ln")))
        ok = not bad and seen_consistency
        R.ob("C19-R5", "unpruned:%d" % n, "sub-candidates are queued whenever the candidate is inconsistent and unseen (other conditions: %s)"
             % (bad or "none"), ok, where=cr.where(pc.ln),
             detail=None if ok else "candidates are skipped for a reason other than consistency / duplicates: a subset-maximal repair "
             "below the skipped candidate is never reached, so answers that fail in that repair are returned")
        # the loop over the candidate's elements: the queueing site returns to it, and it is left only when the elements are exhausted
        elem_loops = []
        for c in cr.calls():
            if c.name() == "next" and c.args:
                it = cr.alias_root(c.args[0])
                if it is not None and "hash::set::Iter" in cr.local_ty(it).replace("hash_set", "hash::set"):
                    own = sorted(cr.loops_containing(c.bb), key=lambda hb: len(hb[1]))
                    if own:
                        elem_loops.append((own[0][0], own[0][1], c))
        mine = [(h, bl, c) for h, bl, c in elem_loops if pc.bb in bl]
        R.ob("C19-R5", "in-element-loop:%d" % n, "the queueing site lies on the cycle of a loop over the candidate's elements (so it is "
             "reached for every element)", bool(mine), where=cr.where(pc.ln),
             detail=None if mine else "after queueing one sub-candidate the element loop is not continued: the other immediate subsets are never explored")
        for h, blocks, nx in mine[:1]:
            srcs = {b2 for b2 in blocks for s2 in cr.succ(b2) if s2 not in blocks}
            okx = all(cr.blocks[b2]["term"]["t"] == "switch" and G.describe_discr(cr, cr.blocks[b2]["term"]["discr"]).get("kind") == "discr"
                      and F.op_place(cr.blocks[b2]["term"]["discr"]) is not None for b2 in srcs)
            R.ob("C19-R5", "all-elements:%d" % n, "the loop that removes one element at a time is left only when the elements are exhausted",
                 okx, where=cr.where(pc.ln))


def run(R):
    prog = R.prog
    R.rule("C19-R1", "two-sided maximality: where a candidate is admitted to the repair list under a superset test against "
                     "existing entries, existing entries that are subsets of the candidate are removed on the same path")
    R.rule("C19-R2", "universal quantification: query_with_repairs seeds from the first repair and keeps a binding only "
                     "under `all` over the remaining repairs (skipping exactly the seed)")
    R.rule("C19-R4", "consistency-guarded derivation: every insertion of a derived fact by the repair-aware strategy is "
                     "dominated by the false edge of violates_constraints on a set that contains that fact")
    R.rule("C19-R5", "search completeness: every immediate subset of an inconsistent candidate is queued; the only reasons not to "
                     "queue or expand a candidate are that it is consistent or was seen before (no pruning by size or count: a "
                     "smaller consistent set can still be subset-maximal)")
    R.rule("C19-R6", "consistency means every constraint: violates_constraints answers true as soon as one constraint has a match and "
                     "false only after ALL constraints were joined without a match")
    R.rule("C19-R7", "repair-aware materialisation starts from exactly the chosen repair: when the stored facts are inconsistent the "
                     "index is emptied and refilled with every fact of the repair, and the working fact set becomes that repair")
    R.rule("C19-R8", "the repair search ranges over all facts: the first candidate is (a copy of) the complete fact set handed to "
                     "compute_repairs - not a pre-filtered part of it - and the repairs are returned as found (nothing is added to them "
                     "afterwards), so every fact that can take part in a violation is examined")
    r6_r7(R)
    r8(R)
    cr = R.body("C19-R1", "Reasoner::compute_repairs", crate="datalog")
    if cr is not None:
        r5(R, cr)
        pushes = []
        for c in cr.calls():
            if c.name() == "push" and c.args:
                root = cr.alias_root(c.args[0])
                if root is not None and cr.local_name(root) == "repairs":
                    pushes.append(c)
        # the returned local
        R.floor("C19-R1", "admissions to the repair list", len(pushes), 1)
        for n, pc in enumerate(pushes):
            root = cr.alias_root(pc.args[0])
            # guard: admitted under a test over existing repairs
            conds = G.conditions(cr, pc.bb)
            guarded = any(c["kind"] in ("call", "other") for c in conds)
            R.ob("C19-R1", "admission-guarded:%d" % n, "a candidate is admitted only under the maximality test", guarded, where=cr.where(pc.ln))
            # converse: retain on repairs with a subset/superset test between push's dominators or straight after
            ok = False
            for c in cr.calls():
                if c.name() not in ("retain", "retain_mut") or not c.args:
                    continue
                if cr.alias_root(c.args[0]) != root:
                    continue
                key, inner = closure_family_calls(prog, cr, c.args[1])
                if not any(ic.name() in ("is_superset", "is_subset") for x, ic in inner):
                    continue
                if cr.dominates(c.bb, pc.bb) and all(cr.dominates(d["bb"], c.bb) or d["bb"] == c.bb for d in conds if "bb" in d):
                    ok = True
                elif cr.dominates(pc.bb, c.bb) and not (cr.reach_from([pc.bb], avoid={c.bb}) & (set(cr.exits()) | {h for h, _ in cr.loops_containing(pc.bb)})):
                    ok = True
            sorted_visit = any(c.name() in ("sort_by_key", "sort_by", "sort_unstable_by_key", "sort_unstable_by") for c in cr.calls())
            R.ob("C19-R1", "two-sided:%d" % n, "admitting a candidate also evicts existing repairs that are subsets of it "
                 "(or candidates are visited largest-first)", ok or sorted_visit, where=cr.where(pc.ln),
                 detail=None if (ok or sorted_visit) else "a consistent strict subset found earlier stays in the list; answers are then "
                 "intersected with a non-maximal repair and unrelated facts are lost")
    qr = R.body("C19-R2", "Reasoner::query_with_repairs", crate="datalog")
    if qr is not None:
        comp = [c for c in qr.calls() if c.name() == "compute_repairs"]
        R.ob("C19-R2", "computes-repairs", "query_with_repairs computes the repairs once", len(comp) == 1, where=qr.where())
        firsts = [c for c in qr.calls() if c.name() == "first"]
        R.ob("C19-R2", "seeds-from-first", "candidates are seeded from the first repair", bool(firsts), where=qr.where())
        rets = [c for c in qr.calls() if c.name() == "retain"]
        R.ob("C19-R2", "retains", "candidates are filtered by one retain", len(rets) == 1, where=qr.where())
        if len(rets) == 1:
            key, inner = closure_family_calls(prog, qr, rets[0].args[1])
            names = [ic.name() for x, ic in inner]
            R.ob("C19-R2", "all-over-repairs", "the filter quantifies with `all` over the repairs", "all" in names and "any" in names,
                 where=qr.where(rets[0].ln), detail="`all` over repairs of `any` over the repair's facts")
            # the outer quantifier is `all`: the call whose receiver derives from the repairs capture
            skips = [(x, ic) for x, ic in inner if ic.name() == "skip"]
            okskip = all(F.const_int(ic.args[1]) == 1 for x, ic in skips) and len(skips) <= 1
            R.ob("C19-R2", "skips-only-seed", "only the seeding repair is skipped (skip(1) at most once)", okskip and bool(firsts),
                 where=qr.where(rets[0].ln))
            bad = [ic.name() for x, ic in inner if ic.name() in ("take", "step_by", "nth", "last", "take_while", "find")]
            R.ob("C19-R2", "no-truncation", "the quantification over repairs is not truncated", not bad, where=qr.where(rets[0].ln))
            # in the closure that iterates repairs the outermost quantifier must be all (not any)
            outer = None
            for x, ic in inner:
                if x.key == key and ic.name() in ("all", "any"):
                    outer = ic.name()
            R.ob("C19-R2", "outer-is-all", "the outer quantifier over repairs is `all`", outer == "all", where=qr.where(rets[0].ln))
            eq = [ic for x, ic in inner if ic.name() in ("eq", "ne")]
            R.ob("C19-R2", "binding-compared", "a repair supports a candidate only if it yields the same binding", bool(eq), where=qr.where(rets[0].ln))
    # answers are made by the matcher, which checks a repeated variable against its first binding
    if qr is not None:
        fam_calls = {c.name() for x in prog.family(qr.key) for c in x.calls()}
        R.ob("C19-R2", "matcher", "query_with_repairs obtains its bindings from matches_rule_pattern (a goal that repeats a variable binds it once)",
             "matches_rule_pattern" in fam_calls, where=qr.where(),
             detail=None if "matches_rule_pattern" in fam_calls else "bindings assembled by position let the later occurrence of a repeated variable overwrite the earlier one: "
             "`?x knows ?x` returns every `knows` fact")
    wr = R.body("C19-R4", "Reasoner::infer_new_facts_semi_naive_with_repairs", crate="datalog")
    if wr is not None:
        # insertions of derived facts: dataset_index.insert / all_facts.insert inside the rule loop
        sinks = []
        loops = wr.loops()
        for c in wr.calls():
            if c.name() not in ("insert", "insert_triple", "push") or not c.args:
                continue
            o = wr.origin(c.args[0], stop_named=False)
            nm = None
            if o[0] == "place":
                if any(e["k"] == "field" and e["n"] == "dataset_index" for e in o[1]["p"]):
                    nm = "dataset_index"
                else:
                    r = wr.alias_root(c.args[0])
                    if r is not None and wr.local_name(r) in ("all_facts", "new_delta", "inferred_so_far"):
                        nm = wr.local_name(r)
            if nm is None:
                continue
            # only insertions of *derived* facts: inside a loop that calls replace_variables_with_bound_values
            in_rule_loop = any(any(x.bb in body and x.name() == "replace_variables_with_bound_values" for x in wr.calls())
                               for h, body in wr.loops_containing(c.bb))
            if in_rule_loop:
                sinks.append((nm, c))
        R.floor("C19-R4", "insertions of derived facts", len(sinks), 2)
        for nm, c in sinks:
            conds = G.conditions(wr, c.bb)
            ok = any(x["kind"] == "call" and x["call"].name() == "violates_constraints" and x["truth"] is False for x in conds)
            R.ob("C19-R4", "guarded:%s" % nm, "the insertion of a derived fact into %s is guarded by !violates_constraints" % nm, ok,
                 where=wr.where(c.ln), detail=None if ok else "an inconsistent fact set can be materialised")
        # the tested set contains the candidate fact: temp set receives the inferred fact before the test
        vcs = [c for c in wr.calls() if c.name() == "violates_constraints"]
        inner_vc = [c for c in vcs if wr.loops_containing(c.bb)]
        R.floor("C19-R4", "consistency tests inside the rule loop", len(inner_vc), 1)
        for c in inner_vc:
            tested = wr.alias_root(c.args[1])
            ins = [x for x in wr.calls() if x.name() == "insert" and x.args and wr.alias_root(x.args[0]) == tested
                   and wr.dominates(x.bb, c.bb)]
            base = wr.single_def(tested) if tested is not None else None
            from_all = bool(base and base[0] == "call" and base[2].name() == "clone")
            R.ob("C19-R4", "tested-set-contains-candidate", "the consistency test runs on (all facts + the candidate fact)",
                 bool(ins) and from_all, where=wr.where(c.ln))
            # ... and on every fact accepted before it: the copy is taken per candidate, or - when it is hoisted out of the candidate loops - what was
            # accepted stays in it (a candidate is taken out again only when it was rejected)
            if base and base[0] == "call":
                inner = min(wr.loops_containing(c.bb), key=lambda hl: len(hl[1]))[1]
                per_candidate = base[2].bb in inner
                takes = [x for x in wr.calls() if x.name() in ("remove", "clear", "retain", "take", "drain") and x.args and wr.alias_root(x.args[0]) == tested
                         and wr.loops_containing(x.bb)]
                bad = []
                for x in takes:
                    cds = G.conditions(wr, x.bb)
                    rejected = any(cd.get("kind") == "call" and cd["call"].name() == "violates_constraints" and cd.get("truth") is True for cd in cds)
                    if not rejected:
                        bad.append(x)
                ok2 = per_candidate or not bad
                R.ob("C19-R4", "tested-set-keeps-accepted", "the tested set contains every fact accepted so far in this round (copy taken per candidate: %s; "
                     "removals not tied to a rejection: %d)" % (per_candidate, len(bad)), ok2, where=wr.where((bad[0].ln if bad else c.ln)),
                     detail=None if ok2 else "two conclusions of one rule that are consistent one by one but complete a constraint body together are both "
                     "accepted: the materialisation ends in an inconsistent fact set")


def r6_r7(R):
    from lib import pipeline as P
    prog = R.prog
    vc = R.body("C19-R6", "Reasoner::violates_constraints", crate="datalog")
    if vc is not None:
        R.saw(vc)
        loops = vc.loops()
        anys = [c for c in vc.calls() if c.name() == "any"]
        if loops:
            h, blocks = max(loops, key=lambda x: len(x[1]))
            drv = P.driver_of(vc, h, blocks)
            names, roots = P.flat(drv[2]) if drv and drv[2] else ([], [])
            over = any(r["k"] == "root" and "constraints" in r["fields"] for r in roots)
            whole = not [n for n in names if n not in ("iter", "into_iter", "deref")]
            R.ob("C19-R6", "all-constraints", "violates_constraints visits every constraint (pipeline %s over %s)" % (names, [P.render(r) for r in roots]),
                 over and whole, where=vc.where())
            bad = []
            for bb, i, pl, rv, st in vc.assigns():
                if pl["l"] == 0 and not pl["p"] and bb in blocks:
                    if not (rv["rv"] == "use" and F.const_int(rv["op"]) == 1):
                        bad.append(st.get("ln"))
            # exits of the loop other than exhaustion must carry the verdict `true`
            R.ob("C19-R6", "false-only-after-all", "inside the loop over the constraints the only verdict produced is `true` (violated)", not bad,
                 where=vc.where(bad[0] if bad else None),
                 detail=None if not bad else "a verdict computed from one constraint alone ends the check: a set violating a later constraint counts as consistent")
            joins = [c for c in vc.calls() if c.bb in blocks and c.name() == "join_rule"]
            R.ob("C19-R6", "joins", "each constraint is joined against the candidate set itself (both arguments)", len(joins) >= 1 and all(
                vc.alias_root(c.args[1]) == 2 and vc.alias_root(c.args[2]) == 2 for c in joins), where=vc.where())
        else:
            ok = False
            for c in anys:
                names, roots = P.flat(P.tree(vc, c.args[0]))
                if any(r["k"] == "root" and "constraints" in r["fields"] for r in roots) and not [n for n in names if n not in ("iter", "into_iter", "deref")]:
                    ok = True
            R.ob("C19-R6", "all-constraints", "violates_constraints is `any` over every constraint", ok, where=vc.where())
    mat = R.body("C19-R7", "Reasoner::infer_new_facts_semi_naive_with_repairs", crate="datalog")
    if mat is None:
        return
    R.saw(mat)
    guards = [c for c in mat.calls() if c.name() == "violates_constraints"]
    cr = [c for c in mat.calls() if c.name() == "compute_repairs"]
    R.ob("C19-R7", "repairs-computed", "the strategy computes repairs when the stored facts violate a constraint", len(cr) == 1 and len(guards) >= 1, where=mat.where())
    if len(cr) != 1:
        return
    c0 = cr[0]
    # reset of the index in the region dominated by compute_repairs
    resets = []
    for bb, i, pl, rv, st in mat.assigns():
        if pl["p"] and pl["p"][-1].get("n") == "dataset_index" and mat.dominates(c0.bb, bb):
            o = mat.origin(rv["op"], stop_named=False) if rv["rv"] == "use" else None
            if o and o[0] == "call" and o[1].name() in ("new", "default"):
                resets.append((bb, st.get("ln")))
    for c in mat.calls():
        if c.name() == "clear" and c.args and mat.dominates(c0.bb, c.bb):
            o = mat.origin(c.args[0], stop_named=False)
            if o[0] == "place" and any(e.get("n") == "dataset_index" for e in o[1]["p"]):
                resets.append((c.bb, c.ln))
    R.ob("C19-R7", "emptied", "the index is emptied before the repair is loaded (found %d reset)" % len(resets), len(resets) >= 1, where=mat.where(c0.ln),
         detail=None if resets else "facts removed by the repair stay in the index: the materialisation ends in an inconsistent fact set")
    # refill: insert into self.dataset_index in a loop over the chosen repair, after the reset
    fills = []
    for c in mat.calls():
        if c.name() == "insert" and len(c.args) == 2 and mat.dominates(c0.bb, c.bb):
            o = mat.origin(c.args[0], stop_named=False)
            if o[0] == "place" and any(e.get("n") == "dataset_index" for e in o[1]["p"]):
                drv = P.loop_driver(mat, c.bb)
                if drv and drv[2] is not None:
                    names, roots = P.flat(drv[2])
                    if not [n for n in names if n not in ("iter", "into_iter", "deref")] and len(roots) == 1 and roots[0]["k"] == "root":
                        fills.append((c, roots[0]["local"]))
    fills = [f for f in fills if any(mat.dominates(rb, f[0].bb) for rb, ln in resets)] if resets else fills
    R.ob("C19-R7", "refilled", "every fact of the chosen repair is inserted into the emptied index", len(fills) >= 1, where=mat.where(c0.ln))
    if fills:
        rep = mat.alias_root(fills[0][1])
        der = P.derives(prog, mat, fills[0][1])
        R.ob("C19-R7", "from-repairs", "the loaded set is one of the computed repairs", ("call", "compute_repairs") in der, where=mat.where(fills[0][0].ln))
        asg = False
        for bb, i, pl, rv, st in mat.assigns():
            if not pl["p"] and mat.local_name(pl["l"]) == "all_facts" and rv["rv"] == "use" and mat.alias_root(rv["op"]) == rep and mat.dominates(c0.bb, bb):
                asg = True
        R.ob("C19-R7", "working-set", "the working fact set becomes the same repair", asg, where=mat.where(fills[0][0].ln))


def r8(R):
    from lib import pipeline as P
    prog = R.prog
    cr = prog.one("Reasoner::compute_repairs", crate="datalog")
    if cr is None:
        return
    # the vector that is popped in the search loop
    pops = [c for c in cr.calls() if c.name() == "pop" and c.args]
    R.ob("C19-R8", "queue", "compute_repairs pops candidates from a work queue", len(pops) >= 1, where=cr.where())
    if not pops:
        return
    q = cr.alias_root(pops[0].args[0])
    # initial content: the definition of the queue before the loop
    h = [hh for hh, blk in cr.loops() if pops[0].bb in blk]
    terms = []
    P.coverage_terminals(prog, cr, {"k": "copy", "pl": {"l": q, "p": [], "t": ""}}, set(), terms)
    srcs = sorted({"%s:%s" % (t[0], t[1]) for t in terms})
    ok = bool(terms) and all(t[0] == "param" and t[1] == "facts" for t in terms)
    R.ob("C19-R8", "starts-from-all-facts", "the search starts from the complete fact set (initial candidate built from: %s)" % srcs, ok, where=cr.where(),
         detail=None if ok else "facts left out of the search are never removed from a violating set: if the pre-filter misses a way a fact can match a "
         "constraint (e.g. a variable in predicate position), every `repair` still violates it")
    # nothing is added to the repairs after the search loop
    rep = None
    for d in cr.defs().get(0, []):
        if d[0] == "assign" and d[3]["rv"] == "use":
            rep = cr.alias_root(d[3]["op"])
    late = []
    if rep is not None and h:
        loop_blocks = set()
        for hh, blk in cr.loops():
            if pops[0].bb in blk:
                loop_blocks |= set(blk)
        for c in cr.calls():
            if c.bb in loop_blocks:
                continue
            if c.name() in ("extend", "insert", "push", "iter_mut", "append") and c.args and cr.alias_root(c.args[0]) == rep and \
                    any(cr.dominates(b0, c.bb) for b0 in loop_blocks):
                late.append(c)
    R.ob("C19-R8", "returned-as-found", "the repairs are returned as the search found them (writes after the loop: %s)" % [c.name() for c in late], not late,
         where=cr.where(late[0].ln if late else None))

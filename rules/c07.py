"""C07 — decision-diagram operations: interruption safety and twin agreement (structural clauses)."""
from lib import facts as F
from lib import writers as W

MGR = "shared::sdd::SddManager"
CACHES = ["apply_cache", "negate_cache"]
TWINS = ["literal", "apply", "apply_inner", "expand", "apply_same_vtree", "apply_different_vtree", "apply_expanded",
         "normalize_to", "make_decision_raw", "unique_d", "compress", "negate", "exactly_one"]


def is_fallible_call(c):
    """a call whose failure can end the activation with Err: `?` machinery or a budgeted workspace callee"""
    nm = c.name()
    if nm in ("branch", "from_residual"):
        return True
    k = c.key or ""
    if "SddOperationBudget" in (c.pretty or "") or nm in ("checkpoint", "before_allocation"):
        return True
    if k.startswith("shared::sdd::") and nm and nm.startswith("try_"):
        return True
    return False


def field_of(body, op, adt=MGR):
    o = body.origin(op, stop_named=False)
    if o[0] == "place":
        for e in o[1]["p"]:
            if e["k"] == "field" and e.get("adt") == adt:
                return e["n"]
    return None


def err_exit_blocks(body):
    """blocks that produce an Err return value: from_residual calls and Err aggregates assigned to _0"""
    out = set()
    for c in body.calls():
        if c.name() == "from_residual" and c.dest["l"] == 0:
            out.add(c.bb)
    for bb, i, pl, rv, s in body.assigns():
        if pl["l"] == 0 and rv["rv"] == "aggregate" and rv.get("variant") == "Err":
            out.add(bb)
    return out


def run(R):
    prog = R.prog
    R.rule("C07-R1", "cache after success: every insert into apply_cache/negate_cache stores the value that the "
                     "activation computed and returns (never a provisional value), keyed like the lookup")
    R.rule("C07-R2", "allocation atomicity: every node push is followed by the unique-table insert of that node's key in "
                     "one straight-line region with no fallible step between; the id is the pre-push length; the key is "
                     "looked up before allocating; in try_* bodies before_allocation dominates the push")
    R.rule("C07-R3", "twin skeleton: X and try_X call the same manager operations (after try_Y -> Y) and write the same fields")
    R.rule("C07-R5", "perturbed weights are restored: inside wmc_gradient every variable's positive and negative weight is set back to "
                     "the value read before the perturbation, on every path of the iteration (afterwards the manager answers as before)")
    R.rule("C07-R6", "no unguarded division in model counting: in everything reachable from wmc / wmc_gradient a floating-point "
                     "division has a non-zero constant divisor or is dominated by a test of the divisor against zero (weights may be "
                     "0 or 1 exactly: a quotient by `1 - p` is NaN for a certain seed and silently drops its derivative)")
    r5_r6(R)
    R.rule("C07-R9", "the budgeted and the unbudgeted twin address the shared caches alike: for every pair (f, try_f) that reads or writes the same "
                     "cache field of the manager (apply_cache, negate_cache, unique_table), the keys are built from the operands in the same way - "
                     "component by component the same expression shape (which parameter, which cast, which comparison). A key that encodes the "
                     "operator differently in one twin makes `try_apply(a, b, And)` hit the entry `apply(a, b, Or)` wrote")
    r9(R)
    R.rule("C07-R10", "absence is not encoded by a value the allocator hands out: where the manager allocates an identifier as the current length of "
                      "a table (`table.len()` before the push - the first one is 0) and records it in a per-variable slot, the test `is this "
                      "variable already registered` does not compare that slot with a constant the allocator can produce. With `0` as `none`, "
                      "the first registered variable looks unregistered: registering it again gives it a second vtree leaf and its literals two "
                      "positions")
    r10(R)
    R.rule("C07-R8", "decision nodes are built only through the canonicalising path: the raw node constructor is called from normalize_to "
                     "(wrapping for a higher vtree node) only, unique_d (compress + trim + unique table) from apply_same_vtree, negate and "
                     "normalize_to only, and compress from unique_d only - a shortcut that assembles a partition elsewhere bypasses the "
                     "vtree-position, compression and trimming rules that make equal functions get equal handles")
    WHO = {"make_decision_raw": {"normalize_to"}, "try_make_decision_raw": {"try_normalize_to"},
           "unique_d": {"apply_same_vtree", "negate", "normalize_to"}, "try_unique_d": {"try_apply_same_vtree", "try_negate", "try_normalize_to"},
           "compress": {"unique_d"}, "try_compress": {"try_unique_d"}}
    seenw = {}
    for b in prog.bodies.values():
        if b.crate != "shared" or "::tests::" in b.key:
            continue
        for c in b.calls():
            if c.name() in WHO and "sdd::" in (c.key or ""):
                root = prog.bodies.get(b.root) if b.is_closure else b
                seenw.setdefault(c.name(), set()).add((root.name if root else b.name, b.where(c.ln)))
    for tgt, allowed in sorted(WHO.items()):
        callers = seenw.get(tgt, set())
        R.ob("C07-R8", "called:" + tgt, "%s is called (by %s)" % (tgt, sorted(n for n, w in callers)), len(callers) >= 1)
        for nm, where in sorted(callers):
            R.ob("C07-R8", "caller:%s:%s" % (tgt, nm), "%s is called by %s, one of %s" % (tgt, nm, sorted(allowed)), nm in allowed, where=where,
                 detail=None if nm in allowed else "a node assembled outside the canonicalising path can have its prime and sub on the wrong sides of the "
                 "vtree (or be uncompressed): later operations on it denote wrong functions and equal functions get different handles")
    R.rule("C07-R7", "budget exhaustion propagates: in every budgeted operation of the manager the failure edge of a budgeted step never leads to "
                     "an Ok return - an operation interrupted part-way reports exhaustion instead of handing back a partially built diagram")
    import c08
    c08.r5(R, rule="C07-R7", file_suffix="sdd.rs", err_types=("SddBudgetError",), floor=20)
    R.rule("C07-R4", "budget closure: no unbudgeted mutating manager operation is reachable from a try_* operation")
    r12(R)
    adt = R.anchor("C07-R1", "adt SddManager", prog.adt(MGR))
    if not adt:
        return
    fields = {f["name"]: f for f in adt["variants"][0]["fields"]}
    for f in CACHES + ["unique_table", "nodes"]:
        R.ob("C07-R1", "private:" + f, "SddManager.%s exists and is private" % f, f in fields and not fields[f]["pub"],
             where=adt["file"])
    methods = {b.name: b for b in prog.bodies.values() if b.self_adt == MGR and not b.is_closure and not b.derived
               and b.crate == "shared"}

    # ---------------- R1
    touches = W.field_touches(prog, MGR, CACHES)
    ins = [t for t in touches if t.kind == "refmut" and t.op == "insert"]
    other = [t for t in touches if not (t.kind == "refmut" and t.op in ("insert",)) and t.kind != "construct"]
    for t in other:
        R.ob("C07-R1", "cache-op:%s:%s:%s" % (t.body.key, t.field, t.op or t.kind),
             "cache `%s` is only filled by insert (found %s/%s in %s)" % (t.field, t.kind, t.op, t.body.name), False,
             where=t.body.where(t.ln))
    R.floor("C07-R1", "cache inserts", len(ins), 4)
    for t in ins:
        b, c = t.body, t.call
        R.saw(b)
        tag = "%s:%s" % (b.key, t.field)
        # (a) value is the result of the computation and is what is returned
        val = c.args[2]
        vroot = _value_root(b, val)
        R.ob("C07-R1", "value-computed:" + tag, "the cached value in %s is the result of the inner computation" % b.name,
             vroot is not None, where=b.where(c.ln),
             detail=None if vroot is not None else "a provisional/constant value in the cache poisons later answers")
        # returned value on the paths after the insert equals the cached value
        after = b.reach_from([c.bb])
        rets = []
        for bb, i, pl, rv, s in b.assigns():
            if pl["l"] == 0 and not pl["p"] and bb in after:
                rets.append((bb, rv, s))
        ok_ret = bool(rets)
        for bb, rv, s in rets:
            src = None
            if rv["rv"] == "aggregate" and rv.get("variant") == "Ok":
                src = _value_root(b, rv["ops"][0])
            elif rv["rv"] == "use":
                src = _value_root(b, rv["op"])
            if src is None or src != vroot:
                ok_ret = False
        R.ob("C07-R1", "value-returned:" + tag, "%s returns exactly the value it cached" % b.name, ok_ret and vroot is not None,
             where=b.where(c.ln))
        # (b) a fallible step *after* caching a completed result is harmless (the cached value is final); what
        # matters is (a): the value is the finished result. Nothing to check here.
        # (c) lookup key == insert key, lookup dominates insert
        gets = [x for x in b.calls() if x.name() == "get" and x.args and field_of(b, x.args[0]) == t.field]
        okk = bool(gets) and any(b.dominates(g.bb, c.bb) and _same_src(b, g.args[1], c.args[1]) for g in gets)
        R.ob("C07-R1", "key-agrees:" + tag, "%s looks the cache up under the key it later inserts" % b.name, okk, where=b.where(c.ln))

    # ---------------- R2
    pushes = [t for t in W.field_touches(prog, MGR, ["nodes"]) if t.kind == "refmut" and t.op == "push"]
    R.floor("C07-R2", "node pushes", len(pushes), 6)
    ut = [t for t in W.field_touches(prog, MGR, ["unique_table"]) if t.kind == "refmut"]
    for t in ut:
        if t.op not in ("insert",):
            R.ob("C07-R2", "ut-op:%s:%s" % (t.body.key, t.op), "unique_table is only filled by insert (found %s in %s)" % (t.op, t.body.name),
                 False, where=t.body.where(t.ln))
    nodes_other = [t for t in W.field_touches(prog, MGR, ["nodes"]) if t.kind != "construct" and not (t.kind == "refmut" and t.op == "push")]
    for t in nodes_other:
        R.ob("C07-R2", "nodes-op:%s:%s" % (t.body.key, t.op or t.kind), "nodes is append-only (found %s/%s in %s)" % (t.kind, t.op, t.body.name),
             False, where=t.body.where(t.ln), detail="handles are indexes into nodes; removing or rewriting nodes invalidates them")
    for t in pushes:
        b, pc = t.body, t.call
        R.saw(b)
        tag = b.key
        uins = [u for u in ut if u.body is b and u.op == "insert"]
        R.ob("C07-R2", "paired:" + tag, "%s registers the pushed node in the unique table" % b.name, len(uins) >= 1, where=b.where(pc.ln))
        if not uins:
            continue
        ic = uins[0].call
        exits = set(b.exits())
        straight = b.dominates(pc.bb, ic.bb) and not (b.reach_from([pc.bb], avoid={ic.bb}) & exits)
        R.ob("C07-R2", "straight:" + tag, "every path from the push in %s reaches the unique-table insert" % b.name, straight,
             where=b.where(pc.ln))
        btw = b.between(pc.bb, ic.bb)
        bad = [x for x in b.calls() if x.bb in btw and x.bb not in (ic.bb,) and x is not pc and
               (is_fallible_call(x) or (x.key in prog.bodies and x.bb != pc.bb))]
        errs = err_exit_blocks(b) & btw
        R.ob("C07-R2", "atomic:" + tag, "no fallible step lies between push and unique-table insert in %s" % b.name,
             not bad and not errs, where=b.where(pc.ln),
             detail=None if not bad and not errs else "an interruption there leaves an unregistered node; the next build duplicates it: %s" % [str(x) for x in bad[:3]])
        # id = SddId(len(nodes)) computed before the push
        idsrc = b.origin(ic.args[2], stop_named=False)
        ok_id = False
        if idsrc[0] == "rv" and idsrc[1]["rv"] == "aggregate" and idsrc[1].get("adt", "").endswith("SddId"):
            o2 = b.origin(idsrc[1]["ops"][0], stop_named=False)
            if o2[0] == "rv" and o2[1]["rv"] == "cast":
                o2 = b.origin(o2[1]["op"], stop_named=False)
            if o2[0] == "call" and o2[1].name() == "len" and field_of(b, o2[1].args[0]) == "nodes":
                lc = o2[1]
                ok_id = b.dominates(lc.bb, pc.bb) and lc.bb != pc.bb
        R.ob("C07-R2", "id-is-index:" + tag, "the registered id in %s is nodes.len() read before the push" % b.name, ok_id,
             where=b.where(ic.ln))
        # pushed node and inserted key are the same kind and built from the same parts
        node = b.origin(pc.args[1], stop_named=False)
        key = b.origin(ic.args[1], stop_named=False)
        okk = False
        if node[0] == "rv" and key[0] == "rv" and node[1].get("ak") == "adt" and key[1].get("ak") == "adt":
            okk = node[1].get("variant") == key[1].get("variant")
        elif node[0] == "rv" and key[0] == "place":
            # key is a named local built earlier
            d = b.single_def(key[1]["l"])
            if d and d[0] == "assign" and d[3]["rv"] == "aggregate":
                okk = node[1].get("variant") == d[3].get("variant")
        R.ob("C07-R2", "key-kind:" + tag, "the node pushed in %s and the key registered are of the same kind" % b.name, okk,
             where=b.where(pc.ln))
        gets = [x for x in b.calls() if x.name() == "get" and x.args and field_of(b, x.args[0]) == "unique_table"]
        okl = any(b.dominates(g.bb, pc.bb) and _same_src(b, g.args[1], ic.args[1]) for g in gets)
        R.ob("C07-R2", "lookup-first:" + tag, "%s looks the key up in the unique table before allocating (hash-consing)" % b.name,
             okl, where=b.where(pc.ln), detail=None if okl else "equal functions would get different handles")
        if b.name.startswith("try_"):
            ba = [x for x in b.calls() if x.name() == "before_allocation"]
            okb = any(b.dominates(x.bb, pc.bb) for x in ba)
            R.ob("C07-R2", "budget-first:" + tag, "before_allocation dominates the push in %s" % b.name, okb, where=b.where(pc.ln))

    # ---------------- R3 twin skeleton
    def skeleton(b):
        callees, writes = set(), set()
        fam = prog.family(b.key)
        for x in fam:
            for c in x.calls():
                k = c.key
                if k in prog.bodies and prog.bodies[k].self_adt == MGR:
                    nm = prog.bodies[k].name
                    callees.add(nm[4:] if nm.startswith("try_") else nm)
        for t in W.field_touches(prog, MGR, list(fields), bodies=fam):
            if t.kind != "construct":
                writes.add(t.field)
        return callees, writes

    found = 0
    for nm, b in sorted(methods.items()):
        if not nm.startswith("try_"):
            continue
        base = nm[4:]
        orig = methods.get(base)
        R.ob("C07-R3", "has-original:" + nm, "budgeted operation %s has an unbudgeted original `%s`" % (nm, base), orig is not None,
             where=b.where())
        if orig is None:
            continue
        found += 1
        R.saw(b)
        R.saw(orig)
        c1, w1 = skeleton(orig)
        c2, w2 = skeleton(b)
        R.ob("C07-R3", "callees:" + base, "%s and try_%s call the same manager operations" % (base, base), c1 == c2, where=b.where(),
             detail=None if c1 == c2 else "only in original: %s; only in twin: %s" % (sorted(c1 - c2), sorted(c2 - c1)))
        R.ob("C07-R3", "writes:" + base, "%s and try_%s write the same manager fields" % (base, base), w1 == w2, where=b.where(),
             detail=None if w1 == w2 else "original writes %s, twin writes %s" % (sorted(w1), sorted(w2)))
    R.floor("C07-R3", "twin pairs", found, 13)

    # ---------------- R11 twins order alike
    R.rule("C07-R11", "twins order alike: partitions are canonical only up to the order of their elements, and several operations rely on that order "
                      "(sorted by prime). X and try_X therefore use the same ordering operations on node identifiers - order comparisons, `cmp`, "
                      "sorts, reversals, swaps, min / max: an ordering step added to one twin only makes the budgeted and the unbudgeted operation "
                      "hand differently ordered partitions to the same consumers (and to the shared caches)")

    def order_profile(b):
        out = set()
        for x in prog.family(b.key):
            for bb, i, pl, rv, st in x.assigns():
                if rv["rv"] == "binop" and rv["op"] in ("Lt", "Le", "Gt", "Ge"):
                    tys = sorted({(x.local_ty(F.op_place(o)["l"]) if F.op_place(o) else (o.get("ty") or "")).replace("&", "").split("::")[-1] for o in (rv["a"], rv["b"])})
                    if any(t in ("SddId", "u32", "VtreeId") for t in tys):
                        out.add(("order-compare", tuple(tys)))
            for c in x.calls():
                nm = c.name()
                kind = {"lt": "order-compare", "le": "order-compare", "gt": "order-compare", "ge": "order-compare", "cmp": "cmp", "partial_cmp": "cmp",
                        "reverse": "reverse", "swap": "swap", "min": "min-max", "max": "min-max", "min_by_key": "min-max", "max_by_key": "min-max"}.get(nm)
                if nm.startswith("sort"):
                    kind = "sort"
                if kind is None:
                    continue
                tys = sorted({x.local_ty(F.op_place(o)["l"]).replace("&mut ", "").replace("&", "").replace("shared::sdd::", "") for o in c.args if F.op_place(o)})
                if any("SddId" in t or "VtreeId" in t or t == "u32" for t in tys):
                    out.add((kind, tuple(t[:60] for t in tys)))
        return out
    npairs = 0
    for nm, b in sorted(methods.items()):
        if not nm.startswith("try_") or nm[4:] not in methods:
            continue
        npairs += 1
        p1, p2 = order_profile(methods[nm[4:]]), order_profile(b)
        R.ob("C07-R11", "order:" + nm[4:], "%s and %s use the same ordering operations on node identifiers" % (nm[4:], nm), p1 == p2, where=b.where(),
             detail=None if p1 == p2 else "only in %s: %s; only in %s: %s - the partitions the two hand on are ordered differently, a consumer that "
             "relies on the order (a merge of two sorted partitions, a cache key) is right for one twin only" % (nm[4:], sorted(p1 - p2), nm, sorted(p2 - p1)))
    R.floor("C07-R11", "twin pairs compared", npairs, 13)
    for base in TWINS:
        R.ob("C07-R3", "pair-present:" + base, "pair %s / try_%s exists" % (base, base), base in methods and ("try_" + base) in methods)

    # ---------------- R4 budget closure
    mutating = set()
    all_t = W.field_touches(prog, MGR, list(fields))
    for t in all_t:
        if t.kind != "construct":
            root = prog.bodies.get(t.body.root) if t.body.is_closure else t.body
            if root is not None and root.self_adt == MGR:
                mutating.add(root.key)
    changed = True
    mkeys = {b.key: b for b in methods.values()}
    while changed:
        changed = False
        for k, b in mkeys.items():
            if k in mutating:
                continue
            for x in prog.family(k):
                for c in x.calls():
                    if c.key in mutating:
                        mutating.add(k)
                        changed = True
                        break
    n = 0
    for nm, b in sorted(methods.items()):
        if not nm.startswith("try_"):
            continue
        for x in prog.family(b.key):
            for c in x.calls():
                k = c.key
                if k in mkeys:
                    n += 1
                    cal = mkeys[k]
                    ok = cal.name.startswith("try_") or k not in mutating
                    R.ob("C07-R4", "closure:%s->%s" % (nm, cal.name), "%s calls %s, which is budgeted or read-only" % (nm, cal.name), ok,
                         where=x.where(c.ln),
                         detail=None if ok else "an unbudgeted mutating operation runs to completion regardless of the deadline and bypasses allocation accounting")
    R.floor("C07-R4", "manager calls from try_* bodies", n, 30)


def _value_root(b, op):
    """local holding the computed value: result of a call, possibly through `?` (Continue payload)"""
    o = b.origin(op, stop_named=False)
    if o[0] == "call":
        c = o[1]
        if c.key and c.key.startswith("shared::sdd::"):
            return ("call", c.bb)
        return None
    if o[0] == "place":
        pl = o[1]
        names = [e.get("n") for e in pl["p"] if e["k"] in ("downcast", "field")]
        if names[:1] == ["Continue"]:
            d = b.single_def(pl["l"])
            if d and d[0] == "call" and d[2].name() == "branch":
                o2 = b.origin(d[2].args[0], stop_named=False)
                if o2[0] == "call" and (o2[1].key or "").startswith("shared::sdd::"):
                    return ("call", o2[1].bb)
        # a named local assigned in several match arms from computed values
        l = pl["l"]
        if not pl["p"]:
            ds = b.defs().get(l, [])
            roots = set()
            for d in ds:
                if d[0] == "assign" and d[3]["rv"] == "use":
                    r = _value_root(b, d[3]["op"])
                    roots.add(r)
                elif d[0] == "call":
                    c = d[2]
                    roots.add(("call", c.bb) if (c.key or "").startswith("shared::sdd::") else None)
                else:
                    roots.add(None)
            if roots and None not in roots:
                return ("multi", l)
    return None


def _same_src(b, op1, op2):
    def src(op):
        l = b.alias_root(op)
        if l is not None:
            # a key that is cloned for the lookup/insert
            d = b.single_def(l)
            if d and d[0] == "call" and d[2].name() == "clone" and d[2].args:
                return b.alias_root(d[2].args[0])
        return l
    a, c = src(op1), src(op2)
    return a is not None and a == c


def r5_r6(R):
    from lib import guards as G
    prog = R.prog
    g = R.body("C07-R5", "diff_sdd::wmc_gradient", crate="shared")
    if g is not None:
        R.saw(g)
        loops = g.loops()
        for kind in ("pos", "neg"):
            sets = [c for c in g.calls() if c.name() == "set_%s_weight" % kind]
            getter = "%s_weight" % kind

            def from_getter(op, depth=0):
                if depth > 10:
                    return False
                o = g.origin(op, stop_named=False)
                if o[0] == "call":
                    if o[1].name() == getter:
                        return True
                    return any(from_getter(a, depth + 1) for a in o[1].args[:1])
                if o[0] == "place":
                    ds = g.defs().get(o[1]["l"], [])
                    for d in ds:
                        if d[0] == "call" and (d[2].name() == getter or any(from_getter(a, depth + 1) for a in d[2].args[:1])):
                            return True
                        if d[0] == "assign":
                            for p2, k2 in F.rv_places(d[3]):
                                if from_getter({"k": "copy", "pl": p2}, depth + 1):
                                    return True
                return False
            restoring = [c for c in sets if len(c.args) >= 3 and from_getter(c.args[2])]
            perturbing = [c for c in sets if c not in restoring]
            R.ob("C07-R5", "restores:" + kind, "wmc_gradient writes the saved %s weight back (found %d restoring / %d perturbing writes)"
                 % (kind, len(restoring), len(perturbing)), len(restoring) >= 1 and len(perturbing) >= 1, where=g.where())
            for pi, c in enumerate(perturbing):
                hs = {h for h, blk in g.loops_containing(c.bb)}
                ok = bool(restoring) and bool(hs) and not (g.reach_from(g.succ(c.bb), avoid={r.bb for r in restoring}) & (hs | set(g.exits())))
                R.ob("C07-R5", "restored-after:%s:%d" % (kind, pi), "after the %s weight is perturbed, every path to the next variable (or out) restores it"
                     % kind, ok, where=g.where(c.ln), detail=None if ok else "a path leaves the perturbed weight in the manager: later counts are wrong")
            # the saved value is read before the first perturbation
            for r in restoring:
                o = g.alias_root(r.args[2])
                ds = [d for d in g.defs().get(o, []) if d[0] in ("call", "assign")] if o is not None else []
                before = bool(ds) and all(all(g.dominates(d[1], c.bb) and d[1] != c.bb or d[1] == c.bb and False or g.dominates(d[1], c.bb) for c in perturbing) for d in ds)
                R.ob("C07-R5", "saved-first:" + kind, "the %s weight written back was read before the perturbation" % kind, before, where=g.where(r.ln))
    # ---- R6
    entries = [b for b in prog.bodies.values() if b.crate == "shared" and not b.is_closure and "::tests::" not in b.key and
               ((b.name == "wmc_gradient") or (b.name in ("wmc", "wmc_rec", "wmc_node", "weighted_model_count") and "sdd" in b.file))]
    R.floor("C07-R6", "model-counting entry points", len(entries), 2)
    reach = prog.reachable([b.key for b in entries])
    scope = [prog.bodies[k] for k in reach if k in prog.bodies and prog.bodies[k].crate == "shared"]
    scope_all = set()
    for b in scope:
        for x in prog.family(b.key):
            scope_all.add(x.key)
    ndiv = 0
    for k in sorted(scope_all):
        b = prog.bodies[k]
        R.saw(b)
        for bb, i, pl, rv, st in b.assigns():
            if rv["rv"] != "binop" or rv["op"] != "Div":
                continue
            isf = any(("f64" in str(x.get("ty", "")) or (F.op_local(x) is not None and b.local_ty(F.op_local(x)) in ("f64", "f32"))) for x in (rv["a"], rv["b"]))
            if not isf:
                continue
            ndiv += 1
            ok, why = _div_guarded(b, bb, rv["b"], G)
            R.ob("C07-R6", "div:%s:%d" % (b.short, ndiv), "the floating-point division in %s has a divisor that cannot be zero" % b.short, ok,
                 where=b.where(st.get("ln")), detail=None if ok else why)
    # positive control for the detector: it must see a float division where there is one (the window scope arithmetic)
    sc = prog.one("CSPARQLWindow::scope", crate="kolibrie")
    seen = 0
    if sc is not None:
        for bb, i, pl, rv, st in sc.assigns():
            if rv["rv"] == "binop" and rv["op"] == "Div" and not pl["p"] and sc.local_ty(pl["l"]) in ("f64", "f32"):
                seen += 1
    R.advisory("C07-R6", "float divisions in the model-counting scope: %d (bodies: %d); detector control: %d float division(s) seen in CSPARQLWindow::scope"
               % (ndiv, len(scope_all), seen))
    R.floor("C07-R6", "bodies reachable from the model-counting entry points", len(scope_all), 3)


def _fconst(o):
    import re
    if o.get("k") != "const":
        return None
    m = re.match(r"^(?:const )?([-+]?[0-9][0-9_.]*(?:[eE][-+]?[0-9]+)?)", str(o.get("d") or o.get("v") or ""))
    if not m:
        return None
    try:
        return float(m.group(1).replace("_", ""))
    except ValueError:
        return None


def _div_guarded(b, bb, divisor, G):
    d = str(divisor.get("d") or divisor.get("v") or "")
    if divisor.get("k") == "const":
        val = _fconst(divisor)
        if val is None:
            return False, "constant divisor of unknown value"
        return (val != 0.0), "constant zero divisor"
    root = b.alias_root(divisor)
    for cd in G.conditions(b, bb):
        if cd.get("kind") != "cmp":
            continue
        n = G.normalize_cmp(b, cd)
        if n is None:
            continue
        op, x, y = n

        def refers(o):
            if F.op_place(o) is None:
                return False
            if b.alias_root(o) == root:
                return True
            oo = b.origin(o, stop_named=False)
            return oo[0] == "call" and oo[1].name() == "abs" and oo[1].args and b.alias_root(oo[1].args[0]) == root

        def is_small_const(o):
            v = _fconst(o)
            return v is not None and v >= 0.0
        if refers(x) and is_small_const(y) and op in ("Gt", "Ne"):
            return True, None
        if refers(y) and is_small_const(x) and op in ("Lt", "Ne"):
            return True, None
    return False, ("the divisor is a runtime value (a weight or a count) and no dominating test excludes zero: for a seed with probability exactly 1 "
                   "(negative weight 0) the quotient is NaN or infinite and the derivative is lost")



def _shape(x, op, depth=0):
    """expression shape of an operand: parameters by name, casts, comparisons, calls - enough to tell `op as u8` from `(op == And) as u8`"""
    if depth > 6:
        return "..."
    if op.get("k") == "const":
        return "const"
    pl = F.op_place(op)
    if pl is None:
        return "?"
    proj = "".join("." + str(e.get("n", e["k"])) if e["k"] == "field" else ("*" if e["k"] == "deref" else "") for e in pl["p"])
    l = pl["l"]
    if 1 <= l <= x.nargs:
        return "param:%s%s" % (x.local_name(l) or l, proj)
    ds = [d for d in x.defs().get(l, []) if d[0] in ("assign", "call")]
    if len(ds) != 1:
        if not ds or depth > 3:
            return "phi" + proj
        alts = set()
        for d in ds:
            if d[0] == "call":
                alts.add("%s(%s)" % (d[2].name(), ",".join(_shape(x, a, depth + 2) for a in d[2].args)))
            else:
                alts.add(_shape_rv(x, d[3], depth + 2))
        return "{%s}%s" % ("|".join(sorted(alts)), proj)
    d = ds[0]
    if d[0] == "call":
        return "%s(%s)%s" % (d[2].name(), ",".join(_shape(x, a, depth + 1) for a in d[2].args), proj)
    if d[0] != "assign":
        return "?" + proj
    return _shape_rv(x, d[3], depth) + proj


def _shape_rv(x, rv, depth):
    proj = ""
    if rv["rv"] in ("use",):
        return _shape(x, rv["op"], depth + 1) + proj
    if rv["rv"] == "cast":
        return "cast(%s)" % _shape(x, rv["op"], depth + 1)
    if rv["rv"] == "discriminant":
        return "discr(%s)" % _shape(x, {"k": "copy", "pl": rv["pl"]}, depth + 1)
    if rv["rv"] in ("binop", "checked_binop"):
        return "%s(%s,%s)" % (rv["op"], _shape(x, rv["a"], depth + 1), _shape(x, rv["b"], depth + 1))
    if rv["rv"] == "unop":
        return "%s(%s)" % (rv.get("op"), _shape(x, rv.get("a") or rv.get("operand") or {}, depth + 1))
    if rv["rv"] == "ref":
        return _shape(x, {"k": "copy", "pl": rv["pl"]}, depth + 1)
    if rv["rv"] == "aggregate":
        return "%s(%s)" % (rv.get("variant") or rv.get("ak"), ",".join(_shape(x, o, depth + 1) for o in rv["ops"]))
    return rv["rv"] + proj


def r9(R):
    prog = R.prog
    pairs = 0
    for k, b in sorted(prog.bodies.items()):
        if b.crate != "shared" or not b.file.endswith("sdd.rs") or b.is_closure or "::tests::" in k or b.name.startswith("try_"):
            continue
        tw = [x for x in prog.bodies.values() if x.crate == "shared" and x.file.endswith("sdd.rs") and not x.is_closure and x.name == "try_" + b.name
              and x.self_adt == b.self_adt and "::tests::" not in x.key]
        if len(tw) != 1:
            continue
        t = tw[0]

        def keys(x):
            out = {}
            for c in x.calls():
                if c.name() not in ("get", "insert", "contains_key", "entry") or not c.args:
                    continue
                p0 = F.op_place(c.args[0])
                if p0 is None:
                    continue
                # which cache field of self
                root = x.origin(c.args[0], stop_named=False)
                fld = None
                cur = p0
                for _ in range(4):
                    fs = [e.get("n") for e in cur["p"] if e["k"] == "field"]
                    if fs:
                        fld = fs[-1]
                        break
                    ds = x.defs().get(cur["l"], [])
                    if len(ds) != 1 or ds[0][0] != "assign" or ds[0][3]["rv"] != "ref":
                        break
                    cur = ds[0][3]["pl"]
                if fld not in ("apply_cache", "negate_cache", "unique_table"):
                    continue
                if len(c.args) < 2:
                    continue
                out.setdefault(fld, set()).add(_shape(x, c.args[1]))
            return out
        kb, kt = keys(b), keys(t)
        for fld in sorted(set(kb) & set(kt)):
            pairs += 1
            same = kb[fld] == kt[fld]
            R.ob("C07-R9", "twin-keys:%s:%s" % (b.name, fld), "%s and %s build their %s keys alike" % (b.name, t.name, fld), same, where=t.where(),
                 detail=None if same else "key shapes differ: %s has %s, %s has %s" % (b.name, sorted(kb[fld])[:3], t.name, sorted(kt[fld])[:3]))
    R.floor("C07-R9", "(twin, cache) pairs compared", pairs, 2)



def r10(R):
    prog = R.prog
    nalloc = 0
    for k, b in sorted(prog.bodies.items()):
        if b.crate != "shared" or not b.file.endswith("sdd.rs") or b.is_closure or "::tests::" in k or b.self_adt is None:
            continue
        # allocations: a local defined as (a cast of) `len()` of a field of self
        allocs = set()
        for c in b.calls():
            if c.name() == "len" and c.dest is not None:
                allocs.add(c.dest["l"])
        if not allocs:
            continue
        grown = True
        while grown:
            grown = False
            for bb, i, pl, rv, st in b.assigns():
                if pl["l"] in allocs or pl["p"]:
                    continue
                if rv["rv"] in ("use", "cast") and F.op_place(rv.get("op") or {}) is not None and F.op_place(rv["op"])["l"] in allocs:
                    allocs.add(pl["l"])
                    grown = True
        # stores of an allocated id into an indexed slot of a field of self: self.F[idx] = id
        stores = {}
        for bb, i, pl, rv, st in b.assigns():
            fs = [e.get("n") for e in pl["p"] if e["k"] == "field"]
            if fs and any(e["k"] in ("index", "constant_index") for e in pl["p"]) and rv["rv"] == "use" and F.op_place(rv["op"]) is not None and F.op_place(rv["op"])["l"] in allocs:
                stores.setdefault(fs[0], []).append(st.get("ln") if isinstance(st, dict) else None)
        # through IndexMut::index_mut(&mut self.F, idx) = id
        for c in b.calls():
            if c.name() == "index_mut" and c.dest is not None:
                fld = _self_field(b, c.args[0])
                if fld is None:
                    continue
                for bb, i, pl, rv, st in b.assigns():
                    if pl["l"] == c.dest["l"] and any(e["k"] == "deref" for e in pl["p"]) and rv["rv"] == "use" and F.op_place(rv["op"]) is not None and F.op_place(rv["op"])["l"] in allocs:
                        stores.setdefault(fld, []).append(c.ln)
        for fld, lns in stores.items():
            nalloc += 1
            # guards: comparisons of a value read from the same field's slot with an integer constant
            bad = []
            for bb, i, pl, rv, st in b.assigns():
                if rv["rv"] != "binop" or rv["op"] not in ("Eq", "Ne"):
                    continue
                for me, other in ((rv["a"], rv["b"]), (rv["b"], rv["a"])):
                    v = F.const_int(other)
                    if v is None or v != 0:
                        continue
                    if _reads_field_slot(b, me, fld):
                        bad.append(st.get("ln") if isinstance(st, dict) else None)
            R.ob("C07-R10", "sentinel:%s:%s" % (b.name, fld), "%s does not test `%s[..]` against 0 to mean `absent` (ids stored there start at 0)" % (b.name, fld), not bad,
                 where=b.where(bad[0] if bad else lns[0]), detail=None if not bad else "the slot holds ids allocated as `len()` before the push - the first is 0 - and is "
                 "compared with 0 to decide `not registered yet`")
    R.ob("C07-R10", "scanned", "allocation sites (`id = table.len()` stored into a slot of the manager) scanned: %d" % nalloc, True)


_UNWRAP = ("lock", "try_lock", "unwrap", "unwrap_or_else", "expect", "get_mut", "deref_mut", "deref", "borrow_mut", "write", "as_mut",
           "into_inner", "as_deref_mut")


def _chain_field(b, op):
    """field of self an operand is derived from, looking through guards and unwrapping calls (`self.m.lock().unwrap()`, `self.m.get_mut()`)"""
    pl = F.op_place(op) if "k" in op else op
    for _ in range(12):
        if pl is None:
            return None
        fs = [e.get("n") for e in pl["p"] if e["k"] == "field" and e.get("adt") == MGR]
        if fs:
            return fs[0]
        ds = b.defs().get(pl["l"], [])
        ds = [d for d in ds if d[0] in ("assign", "call")]
        if len(ds) != 1:
            return None
        d = ds[0]
        if d[0] == "call":
            if d[2].name() in _UNWRAP and d[2].args:
                pl = F.op_place(d[2].args[0])
                continue
            return None
        rv = d[3]
        if rv["rv"] in ("ref", "rawptr"):
            pl = rv["pl"]
        elif rv["rv"] in ("use", "cast"):
            pl = F.op_place(rv["op"])
        else:
            return None
    return None


def r12(R):
    R.rule("C07-R12", "a model count is a function of the diagram and the *current* literal weights: if anything computed while counting "
                      "(everything the manager reaches from wmc) is kept in a field of the manager across calls, every operation that "
                      "writes pos_weight / neg_weight clears that field on every path from the write to its return - otherwise a count "
                      "taken after re-weighting a registered variable returns the value of the old weights")
    prog = R.prog
    from lib import writers as W
    entry = [b for b in prog.bodies.values() if b.self_adt == MGR and b.name == "wmc" and not b.is_closure]
    R.floor("C07-R12", "SddManager::wmc", len(entry), 1)
    if not entry:
        return
    fam = []
    for k in prog.reachable([entry[0].key]):
        x = prog.bodies.get(k)
        if x is not None and (x.self_adt == MGR or (x.is_closure and "SddManager" in x.key)):
            fam.append(x)
    R.floor("C07-R12", "manager bodies reached from wmc", len(fam), 2)
    weights = ("pos_weight", "neg_weight")
    kept = {}
    for x in fam:
        R.saw(x)
        for c in x.calls():
            if c.name() in ("lock", "try_lock", "write", "borrow_mut", "set", "store", "insert", "push", "replace", "get_or_insert_with", "entry",
                            "get_mut", "fetch_add", "swap", "extend") and c.args:
                f = _chain_field(x, c.args[0])
                if f and f not in weights:
                    kept.setdefault(f, (x, c))
        for t in W.field_touches(prog, MGR, [f["name"] for f in prog.adt(MGR)["variants"][0]["fields"]], bodies=[x]):
            if t.kind != "construct" and t.field not in weights:
                kept.setdefault(t.field, (x, None))
    R.advisory("C07-R12", "fields of the manager written while counting: %s" % (sorted(kept) or "none (the memo is a local of each call)"))
    if not kept:
        return
    writers = {}
    for t in W.field_touches(prog, MGR, list(weights)):
        if t.kind == "construct":
            continue
        writers.setdefault(t.body.key, (t.body, []))[1].append(t)
    R.floor("C07-R12", "writers of the literal weights", len(writers), 3)
    for fld, (x0, c0) in sorted(kept.items()):
        for key, (b, ts) in sorted(writers.items()):
            clears = set()
            for c in b.calls():
                if c.name() in ("clear", "take", "drain") and c.args and _chain_field(b, c.args[0]) == fld:
                    clears.add(c.bb)
                    continue
                y = prog.bodies.get(c.key)
                if y is not None and y.self_adt == MGR and y.key != b.key:
                    if any(c2.name() in ("clear", "take", "drain") and c2.args and _chain_field(y, c2.args[0]) == fld for c2 in y.calls()):
                        clears.add(c.bb)
            rets = {bb for bb, t in b.terms() if t["t"] == "return"}
            bad = None
            for t in ts:
                reach = b.reach_from([t.bb], avoid=clears)
                if t.bb not in clears and reach & rets:
                    bad = t
                    break
            R.ob("C07-R12", "stale:%s:%s" % (fld, b.short), "%s writes a literal weight and drops what counting kept in `%s` on every path to its return" % (b.short, fld),
                 bad is None, where=b.where(bad.ln if bad else None),
                 detail=None if bad is None else "`%s` is filled while counting (in %s) and survives this write: the next wmc of a diagram counted before "
                 "returns the value of the old weights" % (fld, x0.short))


def _self_field(b, op):
    pl = F.op_place(op)
    for _ in range(5):
        if pl is None:
            return None
        fs = [e.get("n") for e in pl["p"] if e["k"] == "field"]
        if fs and pl["l"] == 1:
            return fs[0]
        ds = [d for d in b.defs().get(pl["l"], []) if d[0] == "assign" and d[3]["rv"] in ("ref", "use")]
        if len(ds) != 1:
            return None
        pl = ds[0][3].get("pl") if ds[0][3]["rv"] == "ref" else F.op_place(ds[0][3].get("op") or {})
    return None


def _reads_field_slot(b, op, fld):
    pl = F.op_place(op)
    seen = set()
    while pl is not None and pl["l"] not in seen:
        seen.add(pl["l"])
        fs = [e.get("n") for e in pl["p"] if e["k"] == "field"]
        if fs and fs[0] == fld and pl["l"] == 1:
            return True
        ds = b.defs().get(pl["l"], [])
        if len(ds) != 1:
            return False
        d = ds[0]
        if d[0] == "call" and d[2].name() in ("index", "get", "deref", "copied", "unwrap_or", "unwrap_or_default") and d[2].args:
            if _self_field(b, d[2].args[0]) == fld:
                return True
            pl = F.op_place(d[2].args[0])
            continue
        if d[0] == "assign" and d[3]["rv"] in ("use", "ref", "cast"):
            pl = d[3].get("pl") if d[3]["rv"] == "ref" else F.op_place(d[3].get("op") or {})
            continue
        return False
    return False

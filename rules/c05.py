"""C05 — rule materialisation: every strategy consults every rule component; rule index; driver lock-step."""
from lib import facts as F
from lib import cover
from lib import guards as G

RULE = "shared::rule::Rule"
FIELDS = ["premise", "negative_premise", "filters", "conclusion"]
NAMED_CONSUMERS = ["run_negative_stratum_pass", "infer_new_facts_semi_naive_parallel", "infer_new_facts_semi_naive_with_repairs"]


def short(b):
    return b.short


def consumers(prog):
    out = []
    for b in prog.bodies.values():
        if b.crate != "datalog" or b.is_closure:
            continue
        ti = b.r.get("trait_item") or ""
        if ti.endswith("InferenceStrategy::infer_round") or ti.endswith("ProvenanceInferenceStrategy::infer_round"):
            out.append(b)
        elif b.name in NAMED_CONSUMERS:
            out.append(b)
    return sorted(out, key=lambda x: x.key)


def run(R):
    prog = R.prog
    R.rule("C05-R1", "rule-component coverage: every body that performs one round/pass of rule application consults "
                     "premise, conclusion, filters and negative_premise of a rule (or is only entered through a caller that "
                     "partitions the rules on that component)")
    R.rule("C05-R2", "no silent premise-count default: no strategy dispatches on premise.len() with a default arm that derives nothing")
    R.rule("C05-R3", "rule-index agreement: variable positions are filed under WILDCARD by the writer, so some lookup path must probe WILDCARD")
    R.rule("C05-R4", "driver lock-step: every accepted fact enters known_facts, the dataset index and all_facts together; the "
                     "fixpoint loop only exits when a round produced nothing")
    adt = R.anchor("C05-R1", "adt Rule", prog.adt(RULE))
    if not adt:
        return
    have = [f["name"] for f in adt["variants"][0]["fields"]]
    R.ob("C05-R1", "fields", "Rule has exactly the components the checker knows (%s)" % have, sorted(have) == sorted(FIELDS),
         where=adt["file"], detail="a new rule component must be consulted by every strategy")
    cons = consumers(prog)
    R.floor("C05-R1", "rule-application bodies (strategy rounds / passes)", len(cons), 6)
    rc = prog.callers()
    for b in cons:
        R.saw(b)
        got = cover.consulted_fields(prog, b, RULE)
        for f in FIELDS:
            ok = f in got
            note = None
            if not ok:
                # entered only through callers that partition on f?
                seen, work, guard = set(), [b.key], []
                while work:
                    k = work.pop()
                    for c in rc.get(k, ()):
                        if c in seen:
                            continue
                        seen.add(c)
                        cb = prog.bodies.get(c)
                        if cb is None:
                            continue
                        dr = []
                        for fb in prog.family(cb.root if cb.is_closure else cb.key):
                            dr += cover.direct_reads(fb, RULE).get(f, [])
                        if any(x[1] for x in dr):
                            guard.append(cb.pretty)
                        else:
                            work.append(c)
                if guard:
                    ok = True
                    note = "partitioned by caller(s): %s" % sorted(set(guard))
                    R.advisory("C05-R1", "%s does not read Rule.%s itself; %s" % (b.pretty, f, note))
            R.ob("C05-R1", "cover:%s:%s" % (short(b), f), "%s consults Rule.%s%s" % (b.pretty, f, " (%s)" % note if note else ""), ok,
                 where=b.where(), detail=None if ok else "rules using this component are evaluated as if it were absent")

    # ---- R2 / R5 over everything the strategies execute inside the reasoner crates
    cg = prog.callgraph()
    scope = {}
    work = [b.key for b in cons]
    while work:
        k = work.pop()
        if k in scope:
            continue
        x = prog.bodies.get(k)
        if x is None or x.crate not in ("datalog", "shared"):
            continue
        scope[k] = x
        work.extend(cg.get(k, ()))
    R.floor("C05-R2", "bodies executed by the strategies (datalog/shared)", len(scope), 20)
    nsw = 0
    for x in sorted(scope.values(), key=lambda v: v.key):
        for bb, t in x.terms():
            if t["t"] != "switch":
                continue
            arms = _premise_len_dispatch(x, t)
            if arms is None:
                continue
            nsw += 1
            # every arm must do work on the rule (call into the reasoner), except arms for the empty rule
            targets = [(v, tgt) for v, tgt in arms]
            for v, tgt in targets:
                # the arm's own code = blocks dominated by its target (up to the merge point)
                region = {k for k in x.reachable_blocks() if x.dominates(tgt, k)} if x.pred(tgt) == [bb] else {tgt}
                if x.blocks[tgt]["term"]["t"] == "unreachable":
                    continue
                works = [c for c in x.calls() if c.bb in region and c.key in prog.bodies]
                if v == "len==0":
                    continue
                ok = bool(works)
                R.ob("C05-R2", "len-default:%s:%s" % (short(x), v), "every premise-count arm in %s applies the rule (arm `%s`)" % (x.pretty, v), ok,
                     where=x.where(t.get("ln")),
                     detail=None if ok else "rules with that number of premises silently derive nothing")
    R.ob("C05-R2", "scanned", "premise-count dispatches scanned in %d bodies (found %d)" % (len(scope), nsw), True)

    R.rule("C05-R5", "no truncation: iterations over a rule's premises / conclusions / negative premises are not cut short "
                     "by take/skip/first/nth-style adaptors")
    TRUNC = {"take", "skip", "step_by", "nth", "first", "last", "take_while", "skip_while", "find", "position", "split_first",
             "split_last", "pop", "truncate", "find_map", "any", "min", "max", "min_by_key", "max_by_key", "next_back", "rev"}
    nit = 0
    for x in sorted(scope.values(), key=lambda v: v.key):
        for c in x.calls():
            if not c.args or c.name() not in TRUNC:
                continue
            src = _rule_field_source(x, c.args[0])
            if src in ("premise", "conclusion", "negative_premise", "filters"):
                R.ob("C05-R5", "trunc:%s:%s:%s" % (short(x), src, c.name()), "%s does not cut the iteration over Rule.%s short with `%s`"
                     % (x.pretty, src, c.name()), False, where=x.where(c.ln), detail="some %s entries of a rule are never applied" % src)
        for c in x.calls():
            if c.name() in ("into_iter", "iter") and c.args and _rule_field_source(x, c.args[0]) in FIELDS:
                nit += 1
    R.floor("C05-R5", "iterations over rule components", nit, 10)

    # ---- R6 delta feeds every premise position / every rule
    R.rule("C05-R8", "parallel joins see their whole input: the rayon pipelines of the shared rule join and of the parallel strategy range "
                     "over the complete triple / binding collections (no hand-made batches, no truncating adaptor)")
    from lib import pipeline as _P
    _P.check_parallel_coverage(R, "C05-R8", [b for b in prog.bodies.values() if b.crate in ("shared", "datalog") and "::tests::" not in b.key
                                              and (b.file.endswith("join_algorithm.rs") or "/materialisation/" in b.file or b.file.endswith("reasoning.rs"))],
                               whole_call_prefixes=("datalog::", "shared::"), floor=3, what="rayon pipelines in the rule join / parallel strategy")
    R.rule("C05-R9", "the rule join keeps every partial binding: when the hash table over the partial bindings is built, every binding's "
                     "index is appended (push) to a bucket - no iteration leaves the loop body without a push, so bindings that share the "
                     "join values but differ elsewhere all survive - and the probe side iterates over every index of the bucket it hits")
    r9(R)
    R.rule("C05-R10", "what the negative stratum derives feeds back: the stratified model is a fixpoint stratum by stratum, so facts concluded by "
                      "rules with negation must be visible to every rule that can use them. Wherever the rules are split on `negative_premise` and "
                      "the negated ones are applied in a pass of their own, that pass sits in a loop together with the positive fixpoint (or is "
                      "itself iterated to a fixpoint and followed by one); a single straight-line pass loses every fact that depends on a "
                      "conclusion of a rule with negation")
    r10(R)
    R.rule("C05-R11", "match-or-bind sees its own earlier bindings: a helper that matches one pattern against one fact looks every variable up in the "
                      "map that receives the new bindings, and a binding made for one position is in that map before the next position is looked "
                      "up (in the failed-lookup branch, before the next lookup / the loop's next turn). Staging the new bindings elsewhere and "
                      "committing them at the end lets `rel(?V, ?V)` match a fact with different subject and object")
    r11(R)
    R.rule("C05-R12", "a rule filter decides every operator: wherever the filter evaluator dispatches on the comparison operator, the dispatch names all six "
                      "operators the rule syntax can produce (> < >= <= = !=), or its default arm leads on to another dispatch that does. A dispatch "
                      "that knows `=` and `!=` only and otherwise falls through to `accept` makes `FILTER(?a > ?b)` a no-op; and the evaluator never "
                      "substitutes a default number for a value that does not parse")
    r12(R)
    r13(R)
    r14(R)
    r15(R)
    R.rule("C05-R7", "match-or-bind is the last word on a binding row: after a premise position was matched against (or bound in) a row by "
                     "a match-or-bind helper, nothing overwrites entries of that row before it is emitted - a plain insert after the "
                     "test can replace the very value the test just accepted (repeated variable across positions)")
    r7(R)
    R.rule("C05-R6", "delta discipline: inside the per-position / per-rule loops of the semi-naive strategies the join against "
                     "last round's facts (delta) runs on every iteration (no conditional skip of a position or rule)")
    nd = 0
    for x in sorted(scope.values(), key=lambda v: v.key):
        for c in x.calls():
            if c.key not in prog.bodies:
                continue
            darg = None
            for a in c.args:
                r = x.alias_root(a)
                if r is None:
                    o = x.origin(a, stop_named=True)
                    r = o[1]["l"] if o[0] == "place" else None
                nm = x.local_name(r) if r is not None else None
                if nm and nm.startswith("delta"):
                    darg = nm
            if darg is None:
                continue
            lps = x.loops_containing(c.bb)
            if not lps:
                continue
            nd += 1
            h, body = min(lps, key=lambda v: len(v[1]))
            # can an iteration complete (return to the header) without executing the delta join?
            starts = [s2 for s2 in x.succ(h) if s2 in body]
            outside = set(x.reachable_blocks()) - set(body)
            reach = x.reach_from(starts, avoid={c.bb} | outside) if c.bb != h else set()
            skip = h in reach
            R.ob("C05-R6", "delta-unconditional:%s:%s" % (short(x), c.name()), "%s joins `%s` on every iteration of its loop (call %s)"
                 % (x.pretty, darg, c.name()), not skip, where=x.where(c.ln),
                 detail=None if not skip else "a premise position / rule that is skipped is never fed with newly derived facts")
    R.floor("C05-R6", "delta joins inside loops", nd, 3)

    # ---- R3
    wc = "shared::rule_index::WILDCARD"
    users = set()
    for b in prog.bodies.values():
        if b.unit.endswith("__test"):
            continue
        found = False
        for bb, i, pl, rv, s in b.assigns():
            for op in F.rv_operands(rv):
                if op.get("k") == "const" and op.get("const_def") == wc:
                    found = True
        for c in b.calls():
            for a in c.args:
                if a.get("k") == "const" and a.get("const_def") == wc:
                    found = True
        if found:
            users.add(b.key)
    q = R.body("C05-R3", "RuleIndex::query_candidate_rules", crate="shared")
    ins = R.body("C05-R3", "RuleIndex::insert_premise_pattern", crate="shared")
    if q is not None and ins is not None:
        writer_side = {k for k in users if k in prog.reachable([ins.key])}
        R.ob("C05-R3", "writer-files-wildcard", "the writer files variable positions under WILDCARD", bool(writer_side), where=ins.where())
        reader_side = set()
        qfam = {x.key for x in prog.family(q.key)} | set(prog.reachable([q.key]))
        callers_q = prog.callers().get(q.key, set())
        for k in users - writer_side:
            root = prog.bodies[k].root
            if k in qfam or root in qfam or k in callers_q or root in callers_q:
                reader_side.add(k)
        ok = bool(reader_side) or not writer_side
        R.ob("C05-R3", "wildcard-probed", "some lookup path probes the WILDCARD bucket (in query_candidate_rules or at a call site)",
             ok, where=q.where(), detail=None if ok else "rules with a variable in the looked-up position are invisible to candidate lookup "
             "(users of WILDCARD: %s)" % sorted(users))

    # ---- R4
    for nm in ("infer_with_strategy", "infer_with_provenance_strategy_and_rules"):
        b = R.body("C05-R4", "Reasoner::" + nm, crate="datalog")
        if b is None:
            continue
        eff = {}
        for c in b.calls():
            if not c.args:
                continue
            root = b.alias_root(c.args[0])
            o = b.origin(c.args[0], stop_named=False)
            nmc = c.name()
            lname = b.local_name(root) if root is not None else None
            if nmc == "insert" and lname == "known_facts":
                eff.setdefault("known_facts", []).append(c)
            elif nmc == "push" and lname == "all_facts":
                eff.setdefault("all_facts", []).append(c)
            elif nmc in ("insert", "insert_triple", "insert_quad") and o[0] == "place" and any(
                    e["k"] == "field" and e["n"] == "dataset_index" for e in o[1]["p"]):
                eff.setdefault("dataset_index", []).append(c)
        for k in ("known_facts", "all_facts", "dataset_index"):
            R.ob("C05-R4", "effect:%s:%s" % (nm, k), "%s stores accepted facts into %s" % (nm, k), len(eff.get(k, [])) == 1, where=b.where())
        if all(len(eff.get(k, [])) == 1 for k in ("known_facts", "all_facts", "dataset_index")):
            blocks = {k: eff[k][0].bb for k in eff}
            lps = b.loops_containing(blocks["known_facts"])
            inner = min(lps, key=lambda x: len(x[1])) if lps else None
            R.ob("C05-R4", "in-loop:" + nm, "the three stores lie in the per-fact loop", inner is not None
                 and all(v in inner[1] for v in blocks.values()), where=b.where())
            if inner is not None:
                h = inner[0]
                for x in blocks:
                    for y in blocks:
                        if x == y:
                            continue
                        pre = b.reach_from([h], avoid={blocks[y]})
                        post = b.reach_from(b.succ(blocks[x]), avoid={blocks[y]})
                        bad = blocks[x] in pre and (h in post or (post & set(b.exits())))
                        R.ob("C05-R4", "lockstep:%s:%s-with-%s" % (nm, x, y), "%s: a fact stored into %s is always also stored into %s" % (nm, x, y),
                             not bad, where=b.where(eff[x][0].ln))
            # loop exits
            outer = max(lps, key=lambda x: len(x[1])) if lps else None
            if outer is not None:
                hb, body = outer
                n_exit = 0
                can_return = b.reach_to(b.exits())
                for k in sorted(body):
                    for s in b.succ(k):
                        if s not in body and s in can_return:
                            n_exit += 1
                            conds = G.conditions(b, s) if b.pred(s) == [k] else []
                            ok = any(_is_empty_round(b, c) for c in conds)
                            R.ob("C05-R4", "exit:%s:%d" % (nm, n_exit), "%s leaves the fixpoint loop only when the round produced nothing" % nm,
                                 ok, where=b.where(b.blocks[k]["term"].get("ln")))
                R.ob("C05-R4", "exits:" + nm, "%s has a fixpoint-loop exit" % nm, n_exit >= 1, where=b.where())


def _is_empty_round(b, c):
    """condition says: `<round result>.is_empty()` is true (or its negation stored in a flag is false)"""
    if c["kind"] == "call" and c["call"].name() == "is_empty":
        return c["truth"] is True
    if c["kind"] == "other" and "local" in c:
        # a named flag like has_new_facts = !x.is_empty(); accept `!flag` (truth False on flag)
        l = c["local"]
        nm = b.local_name(l) or ""
        ds = b.defs().get(l, [])
        for d in ds:
            if d[0] == "assign" and d[3]["rv"] == "unop" and d[3]["op"] == "Not":
                inner = G.describe_discr(b, d[3]["a"])
                if inner["kind"] == "call" and inner["call"].name() == "is_empty":
                    return c["truth"] is False
    return False


def _rule_field_source(x, op, depth=0):
    """the Rule field an iterator / slice operand was obtained from (through iter/deref/adaptor chains)"""
    if depth > 8:
        return None
    o = x.origin(op, stop_named=False)
    if o[0] == "place":
        for e in o[1]["p"]:
            if e["k"] == "field" and e.get("adt") == RULE:
                return e["n"]
        return None
    if o[0] == "call" and o[1].args:
        return _rule_field_source(x, o[1].args[0], depth + 1)
    return None


def _premise_len_dispatch(x, t):
    """if switch `t` distinguishes values of rule.premise.len(): list of (arm label, target); else None.
    Recognises integer switches on len and comparisons of len with a constant >= 1."""
    dl = F.op_local(t["discr"])
    if dl is None:
        return None
    d = x.single_def(dl)
    if not d:
        return None

    def is_len(op):
        o = x.origin(op, stop_named=False)
        if o[0] == "call" and o[1].name() == "len" and o[1].args:
            oo = x.origin(o[1].args[0], stop_named=False)
            return oo[0] == "place" and F.place_has_field(oo[1], RULE, "premise")
        if o[0] == "place" and x.local_name(o[1]["l"]):
            # a named copy such as nr_premises
            dd = x.single_def(o[1]["l"])
            if dd and dd[0] == "call" and dd[2].name() == "len" and dd[2].args:
                oo = x.origin(dd[2].args[0], stop_named=False)
                return oo[0] == "place" and F.place_has_field(oo[1], RULE, "premise")
        return False
    if d[0] == "call":
        if d[2].name() == "len" and is_len(t["discr"]):
            arms = [("len==%s" % v, tgt) for v, tgt in t["targets"]] + [("len other", t["otherwise"])]
            return arms
        return None
    if d[0] == "assign" and d[3]["rv"] == "binop" and d[3]["op"] in G.CMP:
        a, b2 = d[3]["a"], d[3]["b"]
        ca, cb = F.const_int(a), F.const_int(b2)
        if ca is not None and is_len(b2) or cb is not None and is_len(a):
            c = ca if ca is not None else cb
            op = d[3]["op"]
            if ca is not None:
                op = G.SWAP[op]          # normalise to: len OP c
            def label(rel):
                # arms that can only be taken by the empty rule are labelled len==0 (exempt)
                if (rel == "Lt" and c <= 1) or (rel == "Le" and c == 0) or (rel == "Eq" and c == 0):
                    return "len==0"
                return "len %s %d" % (rel, c)
            t_false, t_true = t["targets"][0][1], t["otherwise"]
            if (op in ("Gt", "Ne") and c == 0) or (op == "Ge" and c <= 1):
                return None              # plain non-emptiness test
            return [(label(G.NEG[op]), t_false), (label(op), t_true)]
    if d[0] == "assign" and d[3]["rv"] == "use" and is_len(d[3]["op"]):
        return [("len==%s" % v, tgt) for v, tgt in t["targets"]] + [("len other", t["otherwise"])]
    return None


def r7(R):
    prog = R.prog
    helpers = []
    for b in prog.bodies.values():
        if b.crate not in ("shared", "datalog") or b.is_closure or "::tests::" in b.key:
            continue
        if b.nargs < 1 or not b.local_ty(1).startswith("&mut") or "Map<alloc::string::String, alloc::string::String" not in b.local_ty(1):
            continue
        if b.local_ty(0) != "bool":
            continue
        names = [c.name() for c in b.calls() if c.args and b.alias_root(c.args[0]) == 1]
        if "get" in names and "insert" in names:
            helpers.append(b)
    R.floor("C05-R7", "match-or-bind helpers (bool fn(&mut row, ..) that both looks a variable up and inserts it)", len(helpers), 1)
    hk = {h.key for h in helpers}
    n = 0
    for b in sorted(prog.bodies.values(), key=lambda x: x.key):
        if b.crate not in ("shared", "datalog") or "::tests::" in b.key or b.key in hk:
            continue
        uses = [c for c in b.calls() if c.key in hk]
        if not uses:
            continue
        R.saw(b)
        for c in uses:
            n += 1
            row = b.alias_root(c.args[0])
            later = []
            hdrs = {h for h, blks in b.loops_containing(c.bb)}
            after = b.reach_from(b.succ(c.bb), avoid=hdrs)
            for x in b.calls():
                if x.bb in after and x.name() in ("insert", "extend", "append", "entry", "remove", "clear", "retain") and x.args \
                        and b.alias_root(x.args[0]) == row and x is not c:
                    later.append(x)
            R.ob("C05-R7", "last:%s:%s" % (short(b), c.ln and "" or ""), "in %s nothing writes the row after %s matched/bound the premise position (later writes: %s)"
                 % (short(b), prog.bodies[c.key].name, [x.name() for x in later]), not later, where=b.where(c.ln),
                 detail=None if not later else "for a premise that repeats the variable (`?x ?x ?y`) the later insert overwrites the checked binding: the "
                 "premise then matches triples it must not match and unsupported facts are derived")
    R.floor("C05-R7", "match-or-bind call sites", n, 1)


def r9(R):
    from lib import pipeline as P
    prog = R.prog
    bt = R.body("C05-R9", "join_algorithm::build_simple_hash_table", crate="shared")
    if bt is not None:
        R.saw(bt)
        lo = P.loops_over(bt, ["final_results"])
        ls = lo.get("final_results", [])
        R.ob("C05-R9", "build-loop", "the table is built in a loop over all partial bindings", len(ls) >= 1 and
             not [n for n in ls[0][2] if n not in ("iter", "into_iter", "deref", "enumerate")], where=bt.where())
        if ls:
            h, blocks, names = ls[0]
            pushes = [c for c in bt.calls() if c.bb in blocks and c.name() == "push"]
            skip = P.skips_effect(bt, h, blocks, {c.bb for c in pushes}) if pushes else True
            R.ob("C05-R9", "every-binding-kept", "every partial binding's index is pushed into a bucket (found %d push sites)" % len(pushes), bool(pushes) and not skip,
                 where=bt.where(pushes[0].ln if pushes else None),
                 detail=None if (pushes and not skip) else "a bucket that keeps one index per key (entry().or_insert(idx)) drops every further binding with the same "
                 "join values: their conclusions are never derived and the store stays below the least fixpoint")
            # what is pushed is the enumeration index of the binding
    pt = R.body("C05-R9", "join_algorithm::process_triple_fast", crate="shared")
    if pt is not None:
        R.saw(pt)
        gets = [c for c in pt.calls() if c.name() == "get" and c.args]
        nb = 0
        for g in gets:
            o = pt.origin(g.args[0], stop_named=False)
            if o[0] != "place" or not any(e.get("n") in ("both_bound", "subject_bound", "object_bound") for e in o[1]["p"]):
                continue
            nb += 1
            fld = [e.get("n") for e in o[1]["p"] if e.get("n") in ("both_bound", "subject_bound", "object_bound")][0]
            # the Some payload is iterated by a loop (all indices)
            looped = False
            for h, blocks in pt.loops():
                drv = P.driver_of(pt, h, blocks)
                if drv and drv[2] is not None:
                    names, roots = P.flat(drv[2])
                    for r in roots:
                        if r["k"] == "root":
                            oo = pt.origin({"k": "copy", "pl": {"l": r["local"], "p": [], "t": ""}}, stop_named=False)
                            if (oo[0] == "place" and oo[1]["l"] == g.dest["l"]) or r["local"] == g.dest["l"]:
                                if not [n for n in names if n not in ("iter", "into_iter", "deref")]:
                                    looped = True
            R.ob("C05-R9", "probe-all:" + fld, "a hit in `%s` is expanded over every index of the bucket" % fld, looped, where=pt.where(g.ln))
        R.floor("C05-R9", "bucket probes", nb, 3)



def r10(R):
    prog = R.prog
    n = 0
    for k, b in sorted(prog.bodies.items()):
        if b.crate != "datalog" or b.is_closure or "::tests::" in k or "/materialisation/" not in b.file:
            continue
        # drivers that split the rules on negative_premise (a filter closure reading that field) ...
        fam = prog.family(k)
        splits = False
        for x in fam:
            if not x.is_closure:
                continue
            for bb, i, pl, rv, st in x.assigns():
                for q, kk in F.rv_places(rv):
                    if any(e["k"] == "field" and e.get("n") == "negative_premise" for e in q["p"]):
                        splits = True
        if not splits:
            continue
        # ... and apply the negated ones through a pass of their own
        passes = [c for c in b.calls() if c.key and c.key in prog.bodies and "negative" in prog.bodies[c.key].name and prog.bodies[c.key].crate == "datalog"]
        if not passes:
            continue
        n += 1
        loops = b.loops()
        items = loops.items() if isinstance(loops, dict) else loops
        for c in passes:
            inside = [(h, bl) for h, bl in items if c.bb in bl]
            fix = [cc for cc in b.calls() if cc.name().startswith("infer_with")]
            together = any(any(cc.bb in bl for cc in fix) for h, bl in inside)
            callee = prog.bodies[c.key]
            callee_iterates = any(cc.name().startswith("infer_with") for x in prog.family(callee.key) for cc in x.calls())
            ok = together or callee_iterates
            R.ob("C05-R10", "negative-pass-feeds-back:" + b.name, "%s re-runs the positive fixpoint after %s derived something" % (b.name, callee.name), ok,
                 where=b.where(c.ln), detail=None if ok else "the pass over the rules with negation runs once, after the positive fixpoint: a fact it "
                 "derives is never offered to the positive rules (or to another rule with negation), so the result is not the stratified model "
                 "whenever a conclusion of a rule with negation occurs in a rule body")
    R.floor("C05-R10", "drivers that split the rules on negative_premise and run a separate negative pass", n, 1)



def r11(R):
    prog = R.prog
    n = 0
    for k, b in sorted(prog.bodies.items()):
        if b.crate not in ("datalog", "shared") or b.is_closure or "::tests::" in k or b.local_ty(0) != "bool":
            continue
        at = b.arg_tys()
        if not (any("HashMap<alloc::string::String, u32>" in t and t.startswith("&mut") for t in at) and any("Triple" in t for t in at)):
            continue
        maps = lambda c: F.op_place(c.args[0]) is not None and "HashMap<alloc::string::String, u32>" in b.local_ty(b.alias_root(c.args[0]) or 0)
        gets = [c for c in b.calls() if c.name() in ("get", "contains_key", "entry") and c.args and maps(c)]
        ins = [c for c in b.calls() if c.name() in ("insert", "entry") and c.args and maps(c)]
        if not gets:
            continue
        n += 1
        R.saw(b)
        groots = {b.alias_root(c.args[0]) for c in gets}
        iroots = {b.alias_root(c.args[0]) for c in ins}
        same = bool(ins) and iroots <= groots and groots <= iroots
        R.ob("C05-R11", "same-map:" + b.name, "%s looks variables up in the map it binds them in" % b.name, same, where=b.where(),
             detail=None if same else "lookups read %s, bindings go to %s" % (sorted(b.local_name(x) or "_%d" % x for x in groots), sorted(b.local_name(x) or "_%d" % x for x in iroots)))
        if not same:
            continue
        loops = b.loops()
        items = list(loops.items() if isinstance(loops, dict) else loops)
        bad = []
        for g in gets:
            X = b.alias_root(g.args[0])
            avoid = {c.bb for c in gets if c is not g and b.alias_root(c.args[0]) == X}
            for h, bl in items:
                if g.bb in bl:
                    avoid.add(h)
            tgt = [i.bb for i in ins if b.alias_root(i.args[0]) == X]
            r = b.reach_from([g.bb], avoid=avoid - {g.bb})
            if not any(t in r or t == g.bb for t in tgt):
                # accepted alternative: the new binding is staged in a side structure that the failed-lookup branch also consults before it writes
                staged = set()
                for bb2, i2, pl2, rv2, st2 in b.assigns():
                    if bb2 in r and pl2["p"] and any(e["k"] in ("index", "constant_index", "field") for e in pl2["p"]) and b.local_name(pl2["l"]) and pl2["l"] != X:
                        staged.add(pl2["l"])
                for c2 in b.calls():
                    if c2.bb in r and c2.name() in ("push", "insert") and c2.args and F.op_place(c2.args[0]) is not None and b.alias_root(c2.args[0]) not in (None, X):
                        staged.add(b.alias_root(c2.args[0]))
                def _root(op):
                    pl = F.op_place(op)
                    seen = set()
                    while pl is not None and pl["l"] not in seen:
                        seen.add(pl["l"])
                        if b.local_name(pl["l"]):
                            return pl["l"]
                        ds = [d for d in b.defs().get(pl["l"], []) if d[0] == "assign"]
                        if len(ds) != 1:
                            return pl["l"]
                        rv = ds[0][3]
                        nxt = rv.get("pl") if rv["rv"] in ("ref", "rawptr") else F.op_place(rv.get("op") or {}) if rv["rv"] in ("use", "cast") else None
                        pl = nxt
                    return None
                consulted = any(c2.bb in r and c2.name() in ("iter", "get", "contains", "contains_key", "find", "into_iter", "as_slice", "deref") and c2.args
                                and _root(c2.args[0]) in staged for c2 in b.calls())
                if not (staged and consulted):
                    bad.append(g.ln)
        R.ob("C05-R11", "bind-before-next-lookup:" + b.name, "%s binds a variable before the next position is looked up" % b.name, not bad,
             where=b.where(bad[0] if bad else None), detail=None if not bad else "after a failed lookup no insert into the looked-up map is reached before "
             "the next lookup: a variable that occurs twice in one pattern is compared with nothing and the later position overwrites the earlier")
    R.floor("C05-R11", "match-or-bind helpers (pattern x fact x &mut bindings -> bool)", n, 1)



OPS6 = {">", "<", ">=", "<=", "=", "!="}


def r12(R):
    from c14 import const_text
    prog = R.prog
    b = R.body("C05-R12", "rules::evaluate_filters", crate="datalog")
    if b is None:
        return
    R.saw(b)
    loops = b.loops()
    items = list(loops.items() if isinstance(loops, dict) else loops)
    headers = {h for h, bl in items}
    eqs = []
    for c in b.calls():
        if c.name() not in ("eq", "ne"):
            continue
        txt = [const_text(a) for a in c.args if a.get("k") == "const"]
        txt = [t for t in txt if t is not None and t and all(ch in "!<>=" for ch in t)]
        if txt:
            eqs.append((c, txt[0]))
    R.floor("C05-R12", "operator comparisons in evaluate_filters", len(eqs), 8)
    # accept-by-default only after all six operators were excluded: walk the CFG from every first operator test, following only the
    # "operator is not this one" edges; reaching the next turn of the loop (or a return) with fewer than six operators excluded means the
    # remaining operators are accepted without any comparison
    by_target = {}
    for c, t in eqs:
        if c.target is None:
            continue
        tb = c.target
        term = b.blocks[tb]["term"]
        if term["t"] != "switch":
            continue
        zero = [tg for v, tg in term["targets"] if v == "0"]
        if not zero:
            continue
        # eq: value 0 = not equal; ne: value 0 = equal
        neq_edge = zero[0] if c.name() == "eq" else term["otherwise"]
        by_target[tb] = (t, neq_edge)
    ends = set(headers)
    bad_paths = []
    seen_states = set()
    work = [(0, frozenset())]
    for h in headers:
        for s2 in b.succ(h):
            work.append((s2, frozenset()))
    ndisp = 0
    while work:
        bb, st = work.pop()
        if (bb, st) in seen_states:
            continue
        seen_states.add((bb, st))
        if bb in by_target:
            t, neq = by_target[bb]
            work.append((neq, st | {t}))       # only the "not this operator" edge; the other edge handles the operator
            continue
        if bb in ends and st:
            if not st >= OPS6:
                bad_paths.append(st)
            continue
        if b.blocks[bb]["term"]["t"] in ("unreachable", "resume"):
            continue
        if b.blocks[bb]["term"]["t"] == "return":
            if st and not st >= OPS6:
                bad_paths.append(st)
            continue
        for s2 in b.succ(bb):
            work.append((s2, st))
    worst = sorted(bad_paths, key=len)[:1]
    ok = not bad_paths
    R.ob("C05-R12", "accept-only-after-all-excluded", "the evaluator lets a filter pass by default only after all six operators were excluded on that path", ok,
         where=b.where(), detail=None if ok else "a path that tested only {%s} reaches the next filter / `true`: operators %s are accepted without any comparison"
         % (", ".join(sorted(worst[0])), sorted(OPS6 - set(worst[0]))))
    # identifiers are compared only between two bound variables: the right-hand identifier comes from the bindings, never from a dictionary lookup of
    # the filter's constant (`18` and `18.0` are different terms but the same number)
    names = [b.local_name(i) for i in range(1, b.nargs + 1)]
    from lib import pipeline as P
    badid = []
    for bb, i, pl, rv, st in b.assigns():
        if rv["rv"] == "binop" and rv["op"] in ("Eq", "Ne") and "u32" in (b.local_ty((F.op_place(rv["a"]) or {"l": 0})["l"]) + b.local_ty((F.op_place(rv["b"]) or {"l": 0})["l"])):
            for o in (rv["a"], rv["b"]):
                q = F.op_place(o)
                if q is None:
                    continue
                d = P.derives(prog, b, q["l"])
                if any(t[0] in ("param", "field") and str(t[1]).split(".")[0] == "dict" for t in d):
                    badid.append(st.get("ln") if isinstance(st, dict) else None)
    R.ob("C05-R12", "ids-from-bindings", "evaluate_filters compares dictionary ids only when both come from the bindings", not badid, where=b.where(badid[0] if badid else None),
         detail=None if not badid else "an id looked up in the dictionary for the filter's constant is compared with the bound term's id: numerically equal values "
         "with different spellings (`18` / `18.0`) are different terms")
    # no default number for a value that is not a number
    bad = []
    for c in b.calls():
        if c.name() in ("unwrap_or", "unwrap_or_default") and c.args and F.op_place(c.args[0]) is not None:
            ds = b.defs().get(F.op_place(c.args[0])["l"], [])
            if any(d[0] == "call" and d[2].name() == "parse" for d in ds):
                bad.append(c.ln)
    R.ob("C05-R12", "no-default-number", "evaluate_filters never compares a value that is not a number as a default number", not bad, where=b.where(bad[0] if bad else None),
         detail=None if not bad else "`parse::<f64>().unwrap_or(0.0)`: `FILTER(?age < 18)` accepts the value \"unknown\"")


def r13(R):
    """rule filters are evaluated on complete bindings"""
    prog = R.prog
    R.rule("C05-R13", "filters see complete bindings: evaluate_filters passes over a filter whose left variable is unbound and compares a bound left "
                      "variable with whatever stands on the right - for a right-hand variable that is not bound yet, its *name*. It is therefore "
                      "called only where every premise of the rule has been joined: from no site of evaluate_filters (followed through the closures "
                      "it sits in) is a call that joins a single premise (a callee taking one `&(Term, Term, Term)`) reachable within the same "
                      "iteration of the enclosing loops. A filter applied between two joins rejects `?A < ?B` bindings whose ?B the next premise "
                      "would have bound, and the strategy stops short of the least model")
    ev = prog.one("reasoning::rules::evaluate_filters", crate="datalog")
    if not R.anchor("C05-R13", "evaluate_filters", ev):
        return
    PAT = "&(shared::terms::Term, shared::terms::Term, shared::terms::Term)"
    # precondition of the rule: the right-hand side of a filter is untyped text, so the evaluator cannot tell an unbound variable from a constant
    fcs = [a for a in prog.find_adt("FilterCondition") if any(f["name"] == "value" for f in a["variants"][0]["fields"])]
    untyped = bool(fcs) and all(f["ty"] == "alloc::string::String" for a in fcs for f in a["variants"][0]["fields"] if f["name"] == "value")
    if not R.ob("C05-R13", "precondition", "FilterCondition.value is untyped text (a variable and a constant look alike to the evaluator)", untyped,
                where=ev.where(), detail=None if untyped else "the filter representation changed: this rule's premise has to be re-derived"):
        return

    def joins_one_premise(c):
        k = c.key
        if k not in prog.bodies:
            return False
        y = prog.bodies[k]
        if y.crate != "datalog" or y.key == ev.key:
            return False
        tys = [y.local_ty(i) for i in range(1, y.nargs + 1)]
        if PAT not in tys:
            return False
        ret = y.local_ty(0)
        # a join returns the extended set of bindings, or extends a binding in place and says whether the premise matched
        return ("Vec<" in ret and "Map<alloc::string::String" in ret) or (ret == "bool" and any(t.startswith("&mut") and "Map<alloc::string::String" in t for t in tys))

    def sites_of(z, bb):
        """effective sites (body, bb) in non-closure bodies at which code of closure z at bb runs"""
        if not z.is_closure:
            return [(z, bb)]
        parent = prog.bodies.get(z.parent)
        if parent is None:
            return []
        out = []
        called = [c for c in parent.calls() if c.key == z.key]
        for c in called:
            out += sites_of(parent, c.bb)
        if not called:
            for b2, i, pl, rv, st in parent.assigns():
                if rv["rv"] == "aggregate" and rv.get("ak") == "closure" and rv.get("closure") == z.key:
                    # handed to an adaptor / stored: look for calls of the local it is stored in, else the creation site
                    out += sites_of(parent, b2)
        return out

    n = 0
    for y in sorted(prog.bodies.values(), key=lambda x: x.key):
        if y.crate != "datalog" or "::tests::" in y.key:
            continue
        for c in y.calls():
            if c.key != ev.key:
                continue
            for x, bb in sites_of(y, c.bb):
                n += 1
                R.saw(x)
                loops = sorted(x.loops_containing(bb), key=lambda hl: len(hl[1]))
                avoid = {h for h, _ in loops[1:]}
                region = x.reach_from(x.succ(bb), avoid=avoid) | ({bb} if loops else set())
                late = sorted({cc.name() for cc in x.calls() if cc.bb in region and cc.bb != bb and joins_one_premise(cc)})
                # closures created in the region that join premises count as well
                for b2, i, pl, rv, st in x.assigns():
                    if b2 in region and rv["rv"] == "aggregate" and rv.get("ak") == "closure" and rv.get("closure") in prog.bodies:
                        for zz in prog.family(rv["closure"]):
                            late += [cc.name() for cc in zz.calls() if joins_one_premise(cc)]
                R.ob("C05-R13", "complete:%s:%d" % (x.short, n), "in %s the filters are evaluated after the last premise was joined (premise joins still ahead: %s)"
                     % (x.short, sorted(set(late))), not late, where=x.where(c.ln),
                     detail=None if not late else "`ok(X) :- reading(X, A), limit(X, B), A < B`: when reading is joined first, `A < B` is evaluated with B unbound, "
                     "compares A with the text `B`, fails, and the binding is gone before limit could bind B")
    R.floor("C05-R13", "filter evaluation sites", n, 4)


def r14(R):
    """the snapshot a parallel round joins against is taken after the previous round's facts went in"""
    prog = R.prog
    R.rule("C05-R14", "a round sees the facts of all earlier rounds: where a strategy joins the delta against a *snapshot* of the fact set (a copy "
                      "shared with parallel workers), no insertion into the fact set lies on a path from the taking of that snapshot to its use in the "
                      "join - the snapshot is taken after the previous round's new facts were inserted. A snapshot taken before them makes each round "
                      "join its delta against the facts *without* that delta: a rule whose two premises are both satisfied by facts first derived in "
                      "the same round never fires, and the strategy ends below the least model")
    n = 0
    for b in sorted(prog.bodies.values(), key=lambda x: x.key):
        if b.crate != "datalog" or b.is_closure or "::tests::" in b.key or "materialisation" not in b.file:
            continue
        # snapshots: Arc::new(<fact set>.clone()) / a clone of a fact set stored in a local that closures capture
        snaps, news = {}, {}
        for c in b.calls():
            if c.name() == "new" and "Arc" in (c.pretty or "") and c.args and not c.dest["p"] and "HashSet<shared::triple::Triple" in b.local_ty(c.dest["l"]):
                tgt, at = c.dest["l"], c.bb
                # `snapshot = Arc::new(..)` on an existing variable goes through a temporary that is then moved into it
                for bb, i, pl, rv, st in b.assigns():
                    if rv["rv"] == "use" and not pl["p"] and F.op_local(rv["op"]) == c.dest["l"] and b.local_name(pl["l"]):
                        tgt, at = pl["l"], bb
                snaps.setdefault(tgt, []).append(at)
                news.setdefault(tgt, []).append(c)
        if not snaps:
            continue
        # the fact set a snapshot copies, and the insertions into it
        for sl, defs in sorted(snaps.items()):
            src = None
            for c in news.get(sl, []):
                if F.op_place(c.args[0]):
                    o = b.origin(c.args[0], stop_named=False)
                    if o[0] == "call" and o[1].name() == "clone" and o[1].args:
                        src = b.alias_root(o[1].args[0])
            if src is None:
                continue
            inserts = [c for c in b.calls() if c.name() in ("insert", "extend", "push") and c.args and b.alias_root(c.args[0]) == src]
            uses = set()
            for bb, i, pl, rv, st in b.assigns():
                if rv["rv"] == "aggregate" and rv.get("ak") == "closure" and any(F.op_place(o) and b.alias_root(o) == sl for o in rv["ops"]):
                    uses.add(bb)
                if rv["rv"] in ("ref", "use") and bb not in defs:
                    for pp, k in F.rv_places(rv):
                        if pp["l"] == sl:
                            uses.add(bb)
            for c in b.calls():
                if c.bb not in defs and any(F.op_place(a) and F.op_place(a)["l"] == sl for a in c.args) and c.name() not in ("drop",):
                    uses.add(c.bb)
            if not uses or not inserts:
                continue
            n += 1
            R.saw(b)
            stale = []
            for d in defs:
                after = b.reach_from(b.succ(d), avoid=set(defs))
                for ins in inserts:
                    if ins.bb in after:
                        later = b.reach_from(b.succ(ins.bb), avoid=set(defs))
                        hit = sorted(u for u in uses if u in later)
                        if hit:
                            stale.append((d, ins.bb, hit[0]))
            R.ob("C05-R14", "current:%s:%s" % (b.name, b.local_name(sl) or sl), "in %s the snapshot `%s` of `%s` is used only before anything is inserted after it was taken "
                 "(snapshot -> insert -> use paths: %s)" % (b.name, b.local_name(sl) or sl, b.local_name(src) or src, stale[:2]), not stale,
                 where=b.where(), detail=None if not stale else "`r :- edge. s :- edge. t :- r, s.`: r and s appear in round 1; round 2 joins them against a snapshot that holds neither")
    R.floor("C05-R14", "strategies that join against a snapshot of the fact set", n, 1)


def r15(R):
    """a probe with an open position reads the buckets of that position, not one fixed bucket"""
    prog = R.prog
    R.rule("C05-R15", "an open position means every bucket: in RuleIndex::query_candidate_rules a lookup in an inner map is keyed by a value of the probe "
                      "(a bound position) or ranges over all its buckets (an open position). A lookup under a *constant* key - the WILDCARD bucket - "
                      "answers `which rules have a variable there`, not `which rules could match`: a rule whose premise is ground at the open position "
                      "is no longer a candidate, and the strategy that relies on the index stops short of the least model")
    b = prog.one("RuleIndex::query_candidate_rules", crate="shared")
    if not R.anchor("C05-R15", "query_candidate_rules", b):
        return
    n = 0
    bad = []
    for x in prog.family(b.key):
        for c in x.calls():
            if c.name() != "get" or len(c.args) < 2:
                continue
            n += 1
            a = c.args[1]
            const_key = a.get("k") == "const"
            pl = F.op_place(a)
            if pl is not None:
                root = x.alias_root(a)
                d = x.single_def(root if root is not None else pl["l"])
                if d and d[0] == "assign" and d[3]["rv"] in ("use", "ref"):
                    src = d[3].get("op") if d[3]["rv"] == "use" else None
                    if src is not None and src.get("k") == "const":
                        const_key = True
            if const_key:
                bad.append((x, c))
    R.saw(b)
    R.ob("C05-R15", "no-constant-bucket", "no lookup of query_candidate_rules is keyed by a constant (lookups: %d; under a constant key: %d)" % (n, len(bad)), not bad,
         where=(bad[0][0].where(bad[0][1].ln) if bad else b.where()),
         detail=None if not bad else "`(config mode strict)` as a ground guard premise: asked for the rules that mention predicate `mode`, the index answers with the "
         "WILDCARD bucket only and the rule is never tried by the parallel strategy")
    R.floor("C05-R15", "map lookups in query_candidate_rules", n, 6)

"""C12 — incremental cross-window reasoning: agreement of the alive tests and of the expiry algebra (structural)."""
from lib import facts as F
from lib import guards as G


def now_cmps(prog, root, now_name="current_time"):
    """comparisons against the evaluation time in root's family.
    Each: dict(op normalised to `x OP now`, holder body, kind 'branch'|'returned', bb)"""
    out = []
    for x in prog.family(root.key):
        for bb, i, pl, rv, s in x.assigns():
            if rv["rv"] != "binop" or rv["op"] not in G.CMP:
                continue
            na, nb = _is_now(prog, x, rv["a"], now_name), _is_now(prog, x, rv["b"], now_name)
            if na == nb:
                continue
            op = rv["op"] if nb else G.SWAP[rv["op"]]
            other = rv["a"] if nb else rv["b"]
            out.append({"op": op, "body": x, "bb": bb, "dest": pl, "ln": s.get("ln"), "other": other})
    return out


def _is_now(prog, x, op, now_name):
    pl = F.op_place(op)
    if pl is None:
        return False
    o = x.origin(op, stop_named=False)
    if o[0] != "place":
        return False
    l = o[1]["l"]
    if x.local_name(l) == now_name:
        return True
    # closure capture of the parent's current_time
    if x.is_closure and l == 1:
        for e in o[1]["p"]:
            if e["k"] == "field":
                for idx, nm in x.r.get("upvars", []):
                    if idx == e["i"] and nm == now_name:
                        return True
                break
    return False


def alive_form(prog, c, sink_names=("push", "insert")):
    """the relation `expiry REL now` under which the fact is KEPT, derived from comparison record c"""
    x = c["body"]
    dl = c["dest"]["l"] if not c["dest"]["p"] else None
    if dl == 0:
        return c["op"]                      # closure returns the comparison: kept iff it holds
    # used as a branch condition: which edge leads to the keeping effect?
    for bb, t in x.terms():
        if t["t"] == "switch" and F.op_local(t["discr"]) == dl:
            false_t, true_t = t["targets"][0][1], t["otherwise"]
            keeps_true = _reaches_sink_first(x, true_t, false_t, sink_names)
            keeps_false = _reaches_sink_first(x, false_t, true_t, sink_names)
            if keeps_true and not keeps_false:
                return c["op"]
            if keeps_false and not keeps_true:
                return G.NEG[c["op"]]
    # returned through a temp
    for bb, i, pl, rv, s in x.assigns():
        if pl["l"] == 0 and rv["rv"] == "use" and F.op_local(rv["op"]) == dl:
            return c["op"]
    return None


def _reaches_sink_first(x, start, other, sink_names):
    """a keeping effect (push/insert) lies in the region dominated by `start`"""
    region = {k for k in x.reachable_blocks() if x.dominates(start, k)} if x.pred(start) and len(x.pred(start)) == 1 else {start}
    return any(c.bb in region and c.name() in sink_names for c in x.calls())


def run(R):
    prog = R.prog
    R.rule("C12-R1", "alive-test agreement: the translator keeps a fact iff expiry > now, the incremental path carries an old "
                     "fact iff expiry > now (same strict boundary), renewal re-seeds a fact iff its new expiry is later, the "
                     "carried expiry per fact is the maximum, and both materialisers translate the same (sds, dict, now)")
    R.rule("C12-R2", "expiry algebra: alternative derivations combine with max, joined premises with min, absent tag is +inf, "
                     "zero is 0 (the semiring the statement's `latest time some derivation stays supported` relies on)")
    tr = R.body("C12-R1", "cross_window_sds::translate_sds_to_datalog", crate="datalog")
    inc = R.body("C12-R1", "cross_window_incremental::incremental_sds_plus", crate="datalog")
    nv = R.body("C12-R1", "cross_window_naive::naive_sds_plus", crate="datalog")
    forms = {}
    if tr is not None:
        cs = now_cmps(prog, tr)
        R.ob("C12-R1", "translator-one-test", "the translator has exactly one comparison against the evaluation time", len(cs) == 1, where=tr.where())
        if len(cs) == 1:
            forms["translator"] = alive_form(prog, cs[0])
            R.ob("C12-R1", "translator-form", "translator keeps a fact iff expiry > now (found: expiry %s now)" % forms["translator"],
                 forms["translator"] == "Gt", where=tr.where(cs[0]["ln"]))
            # the compared value is event_time + alpha of that window
            o = tr.origin(cs[0]["other"], stop_named=False)
            ok = o[0] == "call" and o[1].name() in ("saturating_add", "checked_add", "wrapping_add", "add")
            if not ok and o[0] == "place":
                d = tr.single_def(o[1]["l"])
                ok = bool(d and d[0] == "call" and d[2].name() in ("saturating_add", "checked_add", "add"))
            R.ob("C12-R1", "translator-expiry", "the compared expiry is event_time + window width (alpha)", ok, where=tr.where(cs[0]["ln"]))
    if inc is not None:
        cs = now_cmps(prog, inc)
        R.ob("C12-R1", "incremental-one-test", "the incremental path has exactly one comparison against the evaluation time", len(cs) == 1,
             where=inc.where())
        if len(cs) == 1:
            forms["incremental"] = alive_form(prog, cs[0])
            R.ob("C12-R1", "incremental-form", "incremental path carries an old fact iff expiry > now (found: expiry %s now)" % forms["incremental"],
                 forms["incremental"] == "Gt", where=inc.where(cs[0]["ln"]))
        if "translator" in forms and "incremental" in forms:
            R.ob("C12-R1", "alive-agree", "translator and incremental path use the same alive boundary", forms["translator"] == forms["incremental"],
                 where=inc.where(), detail="a disagreement makes the two materialisers differ exactly at an expiry instant")
        # renewal: closure comparing old and new expiry
        ren = []
        fam = prog.family(inc.key)
        for x in fam:
            if not x.is_closure:
                continue
            parent = prog.bodies.get(x.parent)
            if parent is None:
                continue
            # x must be the closure handed to `map_or` on the result of a lookup (`get`) of the old expiry
            used = False
            for c in parent.calls():
                if c.name() == "map_or" and len(c.args) == 3:
                    cl = None
                    a = c.args[2]
                    if a.get("k") == "const" and a.get("closure") == x.key:
                        cl = x
                    else:
                        l = parent.alias_root(a)
                        d = parent.single_def(l) if l is not None else None
                        if d and d[0] == "assign" and d[3]["rv"] == "aggregate" and d[3].get("closure") == x.key:
                            cl = x
                    o = parent.origin(c.args[0], stop_named=False)
                    if cl is not None and o[0] == "call" and o[1].name() == "get":
                        used = True
            if not used:
                continue
            for bb, i, pl, rv, s in x.assigns():
                if rv["rv"] == "binop" and rv["op"] in G.CMP:
                    ra, rb = _root_param(x, rv["a"]), _root_param(x, rv["b"])
                    if ra == 2 and rb != 2:
                        ren.append((rv["op"], x, s.get("ln")))
                    elif rb == 2 and ra != 2:
                        ren.append((G.SWAP[rv["op"]], x, s.get("ln")))
        R.ob("C12-R1", "renewal-found", "the renewal test compares the old and the new expiry of a fact", len(ren) == 1, where=inc.where())
        for op, x, ln in ren:
            R.ob("C12-R1", "renewal-direction", "a fact is re-seeded when its new expiry is later (expiry_old %s expiry_new)" % op,
                 op in ("Lt", "Le"), where=x.where(ln), detail="otherwise renewed facts never propagate their later expiry")
        # carried expiry = max over occurrences
        mx = [c for x in prog.family(inc.key) for c in x.calls() if c.name() in ("max", "min") and "cmp::Ord" in (c.pretty or "") + (c.trait or "")]
        names = sorted({c.name() for c in mx})
        R.ob("C12-R1", "carried-is-max", "several occurrences of an old fact keep the latest expiry (found %s)" % names, names == ["max"],
             where=inc.where())
        # absent old fact => new
        mo = [c for x in prog.family(inc.key) for c in x.calls() if c.name() == "map_or"]
        okd = any(F.const_int(c.args[1]) == 1 for c in mo if len(c.args) > 1)
        R.ob("C12-R1", "unknown-is-new", "a fact without an old expiry counts as new (map_or(true, ..))", okd, where=inc.where())
    # both materialisers translate the same inputs
    for nm, b in (("naive", nv), ("incremental", inc)):
        if b is None or tr is None:
            continue
        calls = [c for c in b.calls() if c.key == tr.key]
        R.ob("C12-R1", "translates:" + nm, "the %s materialiser obtains its base facts from the translator once" % nm, len(calls) == 1, where=b.where())
        if len(calls) == 1:
            c = calls[0]
            roots = [b.alias_root(a) for a in c.args]
            names = [b.local_name(r) if r is not None else None for r in roots]
            ok = all(r is not None and 1 <= r <= b.nargs for r in roots) and names[2] == "current_time" and "dict" in (names[1] or "")
            R.ob("C12-R1", "same-inputs:" + nm, "the %s materialiser passes its own (sds, dict, current_time) parameters (passes %s)" % (nm, names),
                 ok, where=b.where(c.ln))
    r3(R)
    # ---- R2
    impls = [b for b in prog.bodies.values() if b.self_adt == "shared::provenance::ExpirationProvenance" and b.r.get("impl_trait", "").endswith("Provenance")]
    bym = {b.name: b for b in impls}
    R.floor("C12-R2", "ExpirationProvenance semiring operations", len(bym), 6)
    for nm, want in (("disjunction", "max"), ("conjunction", "min")):
        b = bym.get(nm)
        if b is None:
            R.ob("C12-R2", "op:" + nm, "ExpirationProvenance::%s exists" % nm, False)
            continue
        got = sorted({c.name() for c in b.calls() if c.name() in ("max", "min")})
        calls = b.calls()
        pure = (len(calls) == 1 and calls[0].name() == want and len(calls[0].args) == 2
                and {_root_param(b, calls[0].args[0]), _root_param(b, calls[0].args[1])} == {2, 3}
                and b.alias_root(calls[0].dest["l"]) in (0, calls[0].dest["l"]) and _returns(b, calls[0])
                and not any(t["t"] == "switch" for bb, t in b.terms()))
        R.ob("C12-R2", "op:" + nm, "ExpirationProvenance::%s is exactly %s of its two arguments (found calls %s)" % (nm, want, got), pure,
             where=b.where())
    for nm, want in (("zero", "0"), ("one", "18446744073709551615")):
        b = bym.get(nm)
        ok = False
        if b is not None:
            for bb, i, pl, rv, s in b.assigns():
                if pl["l"] == 0 and rv["rv"] == "use" and rv["op"].get("k") == "const":
                    v = rv["op"].get("v")
                    if v is None and "MAX" in (rv["op"].get("d") or "") and want != "0":
                        v = want
                    ok = v == want
        R.ob("C12-R2", "const:" + nm, "ExpirationProvenance::%s is %s" % (nm, "0" if want == "0" else "u64::MAX"), ok,
             where=b.where() if b else None)


def _name_of(x, op):
    pl = F.op_place(op)
    if pl is None:
        return None
    o = x.origin(op, stop_named=True)
    if o[0] == "place":
        nm = x.local_name(o[1]["l"])
        if nm:
            return nm
    o = x.origin(op, stop_named=False)
    if o[0] == "place":
        return x.local_name(o[1]["l"])
    return None


def _root_param(x, op, depth=0):
    pl = F.op_place(op)
    if pl is None:
        return None
    l = pl["l"]
    for _ in range(10):
        if 1 <= l <= x.nargs:
            return l
        d = x.single_def(l)
        if not d or d[0] != "assign":
            return None
        rv = d[3]
        src = rv.get("pl") or F.op_place(rv.get("op") or {})
        if src is None:
            return None
        l = src["l"]
    return None


def _returns(b, c):
    if c.dest["l"] == 0:
        return True
    for bb, i, pl, rv, s in b.assigns():
        if pl["l"] == 0 and rv["rv"] == "use" and b.alias_root(rv["op"]) == b.alias_root(c.dest["l"]):
            return True
    return False


def r3(R):
    """tag-improvement re-triggering: an existing fact whose tag improved re-enters the next delta, with no further condition"""
    prog = R.prog
    R.rule("C12-R3", "re-trigger discipline: in the provenance round, whenever update_disjunction reports an improved tag for an already "
                     "known fact, that fact is queued for the next delta and the round reports tag_changed - controlled by nothing else")
    rounds = [b for b in prog.bodies.values() if (b.r.get("trait_item") or "").endswith("ProvenanceInferenceStrategy::infer_round") and b.crate == "datalog"]
    R.floor("C12-R3", "provenance round implementations", len(rounds), 1)
    for b in rounds:
        R.saw(b)
        upd = [c for c in b.calls() if c.name() == "update_disjunction"]
        R.ob("C12-R3", "updates:" + b.short, "%s merges alternative derivations with update_disjunction" % b.short, len(upd) >= 1, where=b.where())
        # the vector that becomes self.delta_improved
        queue_roots = set()
        for bb, i, pl, rv, s in b.assigns():
            if pl["p"] and pl["p"][-1].get("n") == "delta_improved" and rv["rv"] == "use":
                r = b.alias_root(rv["op"])
                if r is not None:
                    queue_roots.add(r)
        pushes = [c for c in b.calls() if c.name() in ("push", "insert", "extend") and c.args and b.alias_root(c.args[0]) in queue_roots]
        R.ob("C12-R3", "queues:" + b.short, "%s queues improved facts into the vector stored as delta_improved" % b.short, len(pushes) >= 1, where=b.where())
        for u in upd:
            # true edge of update_disjunction
            tgt = None
            for bb, t in b.terms():
                if t["t"] == "switch" and F.op_local(t["discr"]) == u.dest["l"]:
                    tgt = t["otherwise"]
            if tgt is None:
                R.ob("C12-R3", "improved-edge:" + b.short, "the outcome of update_disjunction is tested", False, where=b.where(u.ln))
                continue
            for pc in pushes:
                if not (b.dominates(tgt, pc.bb)):
                    continue
                extra = []
                for c in G.conditions(b, pc.bb):
                    cb = c.get("bb")
                    if cb is None or not (b.dominates(tgt, cb) or cb == tgt):
                        continue
                    if _is_known_fact_test(b, c):
                        continue
                    extra.append(c)
                ok = not extra
                R.ob("C12-R3", "unconditional:" + b.short, "once a known fact's tag improved, it is queued for the next delta without a further condition",
                     ok, where=b.where(pc.ln), detail=None if ok else "extra condition(s) between the improvement test and the queueing: %s — an improved "
                     "fact that is not re-triggered leaves stale (under-estimated) tags downstream" % [_cdesc(b, c) for c in extra])
                # tag_changed is set on the same path
                flags = [bb2 for bb2, i, pl, rv, s in b.assigns() if not pl["p"] and b.local_name(pl["l"]) == "tag_changed"
                         and rv["rv"] == "use" and F.const_int(rv["op"]) == 1]
                okf = any(b.dominates(f, pc.bb) or b.dominates(pc.bb, f) or f == pc.bb for f in flags)
                R.ob("C12-R3", "flag:" + b.short, "the round reports tag_changed whenever it queues an improved fact", okf, where=b.where(pc.ln))


def _is_known_fact_test(b, c):
    """condition is (a copy of) `known_facts.contains(fact)` / the is_new flag"""
    if c["kind"] == "call" and c["call"].name() == "contains":
        root = b.alias_root(c["call"].args[0]) if c["call"].args else None
        return root is not None and (b.local_name(root) or "") == "known_facts"
    if c["kind"] == "other" and "local" in c:
        l = c["local"]
        for d in b.defs().get(l, []):
            if d[0] == "assign" and d[3]["rv"] == "unop" and d[3]["op"] == "Not":
                inner = G.describe_discr(b, d[3]["a"])
                if inner["kind"] == "call" and inner["call"].name() == "contains":
                    root = b.alias_root(inner["call"].args[0])
                    return root is not None and (b.local_name(root) or "") == "known_facts"
            if d[0] == "call" and d[2].name() == "contains":
                root = b.alias_root(d[2].args[0])
                return root is not None and (b.local_name(root) or "") == "known_facts"
    return False


def _cdesc(b, c):
    if c["kind"] == "call":
        return "%s(..) is %s" % (c["call"].name(), c["truth"])
    return c["kind"]

"""C12 — incremental cross-window reasoning: agreement of the alive tests and of the expiry algebra (structural)."""
from lib import facts as F
from lib import guards as G


def now_cmps(prog, root, now_name="current_time"):
    """comparisons against the evaluation time in root's family.
    Each: dict(op normalised to `x OP now`, holder body, kind 'branch'|'returned', bb)"""
    out = []
    for x in prog.family(root.key):
        for bb, i, pl, rv, s in x.assigns():
            if rv["rv"] != "binop" or rv["op"] not in G.CMP:
                continue
            na, nb = _is_now(prog, x, rv["a"], now_name), _is_now(prog, x, rv["b"], now_name)
            if na == nb:
                continue
            op = rv["op"] if nb else G.SWAP[rv["op"]]
            other = rv["a"] if nb else rv["b"]
            out.append({"op": op, "body": x, "bb": bb, "dest": pl, "ln": s.get("ln"), "other": other})
    return out


def _is_now(prog, x, op, now_name):
    pl = F.op_place(op)
    if pl is None:
        return False
    o = x.origin(op, stop_named=False)
    if o[0] != "place":
        return False
    l = o[1]["l"]
    if x.local_name(l) == now_name:
        return True
    # closure capture of the parent's current_time
    if x.is_closure and l == 1:
        for e in o[1]["p"]:
            if e["k"] == "field":
                for idx, nm in x.r.get("upvars", []):
                    if idx == e["i"] and nm == now_name:
                        return True
                break
    return False


def alive_form(prog, c, sink_names=("push", "insert")):
    """the relation `expiry REL now` under which the fact is KEPT, derived from comparison record c"""
    x = c["body"]
    dl = c["dest"]["l"] if not c["dest"]["p"] else None
    if dl == 0:
        return c["op"]                      # closure returns the comparison: kept iff it holds
    # `(expiry > now).then(|| item)` in a filter_map: kept iff the comparison holds
    for c2 in x.calls():
        if c2.name() in ("then", "then_some") and c2.args and F.op_local(c2.args[0]) == dl and dl is not None:
            return c["op"]
    # used as a branch condition: which edge leads to the keeping effect?
    for bb, t in x.terms():
        if t["t"] == "switch" and (dl is not None and x.reads(t["discr"], dl)):
            false_t, true_t = t["targets"][0][1], t["otherwise"]
            keeps_true = _reaches_sink_first(x, true_t, false_t, sink_names)
            keeps_false = _reaches_sink_first(x, false_t, true_t, sink_names)
            if keeps_true and not keeps_false:
                return c["op"]
            if keeps_false and not keeps_true:
                return G.NEG[c["op"]]
    # returned through a temp
    for bb, i, pl, rv, s in x.assigns():
        if pl["l"] == 0 and rv["rv"] == "use" and F.op_local(rv["op"]) == dl:
            return c["op"]
    return None


def _reaches_sink_first(x, start, other, sink_names):
    """a keeping effect (push/insert) lies in the region dominated by `start`"""
    region = {k for k in x.reachable_blocks() if x.dominates(start, k)} if x.pred(start) and len(x.pred(start)) == 1 else {start}
    if any(c.bb in region and c.name() in sink_names for c in x.calls()):
        return True
    # `if alive { Some(item) } else { None }` in a filter_map closure: building Some is the keeping effect
    return x.is_closure and any(bb in region and rv["rv"] == "aggregate" and rv.get("variant") == "Some" for bb, i, pl, rv, st in x.assigns())


def run(R):
    prog = R.prog
    R.rule("C12-R1", "alive-test agreement: the translator keeps a fact iff expiry > now, the incremental path carries an old "
                     "fact iff expiry > now (same strict boundary), renewal re-seeds a fact iff its new expiry is later, the "
                     "carried expiry per fact is the maximum, and both materialisers translate the same (sds, dict, now)")
    R.rule("C12-R2", "expiry algebra: alternative derivations combine with max, joined premises with min, absent tag is +inf, "
                     "zero is 0 (the semiring the statement's `latest time some derivation stays supported` relies on)")
    tr = R.body("C12-R1", "cross_window_sds::translate_sds_to_datalog", crate="datalog")
    inc = R.body("C12-R1", "cross_window_incremental::incremental_sds_plus", crate="datalog")
    nv = R.body("C12-R1", "cross_window_naive::naive_sds_plus", crate="datalog")
    forms = {}
    if tr is not None:
        cs = now_cmps(prog, tr)
        R.ob("C12-R1", "translator-one-test", "the translator has exactly one comparison against the evaluation time", len(cs) == 1, where=tr.where())
        if len(cs) == 1:
            forms["translator"] = alive_form(prog, cs[0])
            R.ob("C12-R1", "translator-form", "translator keeps a fact iff expiry > now (found: expiry %s now)" % forms["translator"],
                 forms["translator"] == "Gt", where=tr.where(cs[0]["ln"]))
            # the compared value is event_time + alpha of that window
            o = tr.origin(cs[0]["other"], stop_named=False)
            ok = o[0] == "call" and o[1].name() in ("saturating_add", "checked_add", "wrapping_add", "add")
            if not ok and o[0] == "place":
                d = tr.single_def(o[1]["l"])
                ok = bool(d and d[0] == "call" and d[2].name() in ("saturating_add", "checked_add", "add"))
            R.ob("C12-R1", "translator-expiry", "the compared expiry is event_time + window width (alpha)", ok, where=tr.where(cs[0]["ln"]))
    if inc is not None:
        cs = now_cmps(prog, inc)
        R.ob("C12-R1", "incremental-one-test", "the incremental path has exactly one comparison against the evaluation time", len(cs) == 1,
             where=inc.where())
        if len(cs) == 1:
            forms["incremental"] = alive_form(prog, cs[0])
            R.ob("C12-R1", "incremental-form", "incremental path carries an old fact iff expiry > now (found: expiry %s now)" % forms["incremental"],
                 forms["incremental"] == "Gt", where=inc.where(cs[0]["ln"]))
        if "translator" in forms and "incremental" in forms:
            R.ob("C12-R1", "alive-agree", "translator and incremental path use the same alive boundary", forms["translator"] == forms["incremental"],
                 where=inc.where(), detail="a disagreement makes the two materialisers differ exactly at an expiry instant")
        # renewal: closure comparing old and new expiry
        ren = []
        fam = prog.family(inc.key)
        for x in fam:
            if not x.is_closure:
                continue
            parent = prog.bodies.get(x.parent)
            if parent is None:
                continue
            # x must be the closure handed to `map_or` on the result of a lookup (`get`) of the old expiry
            used = False
            for c in parent.calls():
                if c.name() == "map_or" and len(c.args) == 3:
                    cl = None
                    a = c.args[2]
                    if a.get("k") == "const" and a.get("closure") == x.key:
                        cl = x
                    else:
                        l = parent.alias_root(a)
                        d = parent.single_def(l) if l is not None else None
                        if d and d[0] == "assign" and d[3]["rv"] == "aggregate" and d[3].get("closure") == x.key:
                            cl = x
                    o = parent.origin(c.args[0], stop_named=False)
                    if cl is not None and o[0] == "call" and o[1].name() == "get":
                        used = True
            if not used:
                continue
            for bb, i, pl, rv, s in x.assigns():
                if rv["rv"] == "binop" and rv["op"] in G.CMP:
                    ra, rb = _root_param(x, rv["a"]), _root_param(x, rv["b"])
                    if ra == 2 and rb != 2:
                        ren.append((rv["op"], x, s.get("ln")))
                    elif rb == 2 and ra != 2:
                        ren.append((G.SWAP[rv["op"]], x, s.get("ln")))
        R.ob("C12-R1", "renewal-found", "the renewal test compares the old and the new expiry of a fact", len(ren) == 1, where=inc.where())
        for op, x, ln in ren:
            R.ob("C12-R1", "renewal-direction", "a fact is re-seeded when its new expiry is later (expiry_old %s expiry_new)" % op,
                 op in ("Lt", "Le"), where=x.where(ln), detail="otherwise renewed facts never propagate their later expiry")
        # carried expiry = max over occurrences
        mx = [c for x in prog.family(inc.key) for c in x.calls() if c.name() in ("max", "min") and "cmp::Ord" in (c.pretty or "") + (c.trait or "")]
        names = sorted({c.name() for c in mx})
        R.ob("C12-R1", "carried-is-max", "several occurrences of an old fact keep the latest expiry (found %s)" % names, names == ["max"],
             where=inc.where())
        # absent old fact => new
        mo = [c for x in prog.family(inc.key) for c in x.calls() if c.name() == "map_or"]
        okd = any(F.const_int(c.args[1]) == 1 for c in mo if len(c.args) > 1)
        R.ob("C12-R1", "unknown-is-new", "a fact without an old expiry counts as new (map_or(true, ..))", okd, where=inc.where())
    # both materialisers translate the same inputs
    for nm, b in (("naive", nv), ("incremental", inc)):
        if b is None or tr is None:
            continue
        calls = [c for c in b.calls() if c.key == tr.key]
        R.ob("C12-R1", "translates:" + nm, "the %s materialiser obtains its base facts from the translator once" % nm, len(calls) == 1, where=b.where())
        if len(calls) == 1:
            c = calls[0]
            roots = [b.alias_root(a) for a in c.args]
            names = [b.local_name(r) if r is not None else None for r in roots]
            ok = all(r is not None and 1 <= r <= b.nargs for r in roots) and names[2] == "current_time" and "dict" in (names[1] or "")
            R.ob("C12-R1", "same-inputs:" + nm, "the %s materialiser passes its own (sds, dict, current_time) parameters (passes %s)" % (nm, names),
                 ok, where=b.where(c.ln))
    r3(R)
    r4_to_r8(R, tr, inc)
    r9(R, inc)
    r10(R)
    r11(R, inc)
    # the saturation test decides whether a later expiry replaces an earlier one: shared with C06-R9
    R.rule("C12-R12", "a later expiry is a change: the saturation test that update_disjunction applies to expiry tags compares the two expiries as "
                      "integers - its own `old == new`, or a default that compares images under a one-to-one function. An image in f64 is not one-to-one "
                      "beyond 2^53 (nanosecond clocks): a renewal by less than the float spacing is dropped, the carried-over fact keeps its old "
                      "expiry and the incremental result loses it while reasoning from scratch still derives it")
    import c06
    c06.r9(c06.Remap(R, {"C06-R9": "C12-R12"}))
    r13(R, inc)
    # ---- R2
    impls = [b for b in prog.bodies.values() if b.self_adt == "shared::provenance::ExpirationProvenance" and b.r.get("impl_trait", "").endswith("Provenance")]
    bym = {b.name: b for b in impls}
    R.floor("C12-R2", "ExpirationProvenance semiring operations", len(bym), 6)
    for nm, want in (("disjunction", "max"), ("conjunction", "min")):
        b = bym.get(nm)
        if b is None:
            R.ob("C12-R2", "op:" + nm, "ExpirationProvenance::%s exists" % nm, False)
            continue
        got = sorted({c.name() for c in b.calls() if c.name() in ("max", "min")})
        calls = b.calls()
        pure = (len(calls) == 1 and calls[0].name() == want and len(calls[0].args) == 2
                and {_root_param(b, calls[0].args[0]), _root_param(b, calls[0].args[1])} == {2, 3}
                and b.alias_root(calls[0].dest["l"]) in (0, calls[0].dest["l"]) and _returns(b, calls[0])
                and not any(t["t"] == "switch" for bb, t in b.terms()))
        R.ob("C12-R2", "op:" + nm, "ExpirationProvenance::%s is exactly %s of its two arguments (found calls %s)" % (nm, want, got), pure,
             where=b.where())
    for nm, want in (("zero", "0"), ("one", "18446744073709551615")):
        b = bym.get(nm)
        ok = False
        if b is not None:
            for bb, i, pl, rv, s in b.assigns():
                if pl["l"] == 0 and rv["rv"] == "use" and rv["op"].get("k") == "const":
                    v = rv["op"].get("v")
                    if v is None and "MAX" in (rv["op"].get("d") or "") and want != "0":
                        v = want
                    ok = v == want
        R.ob("C12-R2", "const:" + nm, "ExpirationProvenance::%s is %s" % (nm, "0" if want == "0" else "u64::MAX"), ok,
             where=b.where() if b else None)


def _name_of(x, op):
    pl = F.op_place(op)
    if pl is None:
        return None
    o = x.origin(op, stop_named=True)
    if o[0] == "place":
        nm = x.local_name(o[1]["l"])
        if nm:
            return nm
    o = x.origin(op, stop_named=False)
    if o[0] == "place":
        return x.local_name(o[1]["l"])
    return None


def _root_param(x, op, depth=0):
    pl = F.op_place(op)
    if pl is None:
        return None
    l = pl["l"]
    for _ in range(10):
        if 1 <= l <= x.nargs:
            return l
        d = x.single_def(l)
        if not d or d[0] != "assign":
            return None
        rv = d[3]
        src = rv.get("pl") or F.op_place(rv.get("op") or {})
        if src is None:
            return None
        l = src["l"]
    return None


def _returns(b, c):
    if c.dest["l"] == 0:
        return True
    for bb, i, pl, rv, s in b.assigns():
        if pl["l"] == 0 and rv["rv"] == "use" and b.alias_root(rv["op"]) == b.alias_root(c.dest["l"]):
            return True
    return False


def r3(R):
    """tag-improvement re-triggering: an existing fact whose tag improved re-enters the next delta, with no further condition"""
    prog = R.prog
    R.rule("C12-R3", "re-trigger discipline: in the provenance round, whenever update_disjunction reports an improved tag for an already "
                     "known fact, that fact is queued for the next delta and the round reports tag_changed - controlled by nothing else")
    rounds = [b for b in prog.bodies.values() if (b.r.get("trait_item") or "").endswith("ProvenanceInferenceStrategy::infer_round") and b.crate == "datalog"]
    R.floor("C12-R3", "provenance round implementations", len(rounds), 1)
    nst = 0
    for b in rounds:
        nst += _sticky_flags(R, "C12-R3", b)
    R.floor("C12-R3", "change flags set inside the round's loops", nst, 1)
    for b in rounds:
        R.saw(b)
        upd = [c for c in b.calls() if c.name() == "update_disjunction"]
        R.ob("C12-R3", "updates:" + b.short, "%s merges alternative derivations with update_disjunction" % b.short, len(upd) >= 1, where=b.where())
        # the vector that becomes self.delta_improved
        queue_roots = set()
        for bb, i, pl, rv, s in b.assigns():
            if pl["p"] and pl["p"][-1].get("n") == "delta_improved" and rv["rv"] == "use":
                r = b.alias_root(rv["op"])
                if r is not None:
                    queue_roots.add(r)
        pushes = [c for c in b.calls() if c.name() in ("push", "insert", "extend") and c.args and b.alias_root(c.args[0]) in queue_roots]
        R.ob("C12-R3", "queues:" + b.short, "%s queues improved facts into the vector stored as delta_improved" % b.short, len(pushes) >= 1, where=b.where())
        for u in upd:
            # true edge of update_disjunction
            tgt = None
            for bb, t in b.terms():
                if t["t"] == "switch" and (F.op_local(t["discr"]) == u.dest["l"] or
                                           (b.alias_root(t["discr"]) is not None and b.alias_root(t["discr"]) == b.alias_root(u.dest["l"]))):
                    tgt = t["otherwise"]
            if tgt is None:
                R.ob("C12-R3", "improved-edge:" + b.short, "the outcome of update_disjunction is tested", False, where=b.where(u.ln))
                continue
            for pc in pushes:
                if not (b.dominates(tgt, pc.bb)):
                    continue
                extra = []
                for c in G.conditions(b, pc.bb):
                    cb = c.get("bb")
                    if cb is None or not (b.dominates(tgt, cb) or cb == tgt):
                        continue
                    if _is_known_fact_test(b, c):
                        continue
                    extra.append(c)
                ok = not extra
                R.ob("C12-R3", "unconditional:" + b.short, "once a known fact's tag improved, it is queued for the next delta without a further condition",
                     ok, where=b.where(pc.ln), detail=None if ok else "extra condition(s) between the improvement test and the queueing: %s — an improved "
                     "fact that is not re-triggered leaves stale (under-estimated) tags downstream" % [_cdesc(b, c) for c in extra])
                # tag_changed is set on the same path
                flags = [bb2 for bb2, i, pl, rv, s in b.assigns() if not pl["p"] and b.local_name(pl["l"]) == "tag_changed"
                         and rv["rv"] == "use" and F.const_int(rv["op"]) == 1]
                okf = any(b.dominates(f, pc.bb) or b.dominates(pc.bb, f) or f == pc.bb for f in flags)
                R.ob("C12-R3", "flag:" + b.short, "the round reports tag_changed whenever it queues an improved fact", okf, where=b.where(pc.ln))


def _sticky_flags(R, rid, b):
    """change flags of a round are sticky: inside the round's loops a flag that ends up in the result is only ever set to true"""
    ret_ops = set()
    for bb, i, pl, rv, s in b.assigns():
        if pl["l"] == 0 and rv["rv"] == "aggregate":
            for o in rv["ops"]:
                r = b.alias_root(o)
                if r is not None:
                    ret_ops.add(r)
    n = 0
    for l in sorted(ret_ops):
        if b.local_ty(l) != "bool" or not b.local_name(l):
            continue
        inloop = [(bb, rv, s) for bb, i, pl, rv, s in b.assigns() if not pl["p"] and pl["l"] == l and b.loops_containing(bb)]
        if not inloop:
            continue
        n += 1
        bad = [s.get("ln") for bb, rv, s in inloop if not (rv["rv"] == "use" and F.const_int(rv["op"]) == 1)]
        R.ob(rid, "sticky:%s:%s" % (b.short, b.local_name(l)), "inside the loops of %s the change flag `%s` is only ever set to true (other assignments at lines %s)"
             % (b.short, b.local_name(l), bad), not bad, where=b.where(bad[0] if bad else None),
             detail=None if not bad else "a flag recomputed per item reports the last item only: the driver stops although an earlier improvement of this round "
             "still waits to be propagated (probabilities stay under-estimated)")
    return n


def _is_known_fact_test(b, c):
    """condition is (a copy of) `known_facts.contains(fact)` / the is_new flag"""
    if c["kind"] == "call" and c["call"].name() == "contains":
        root = b.alias_root(c["call"].args[0]) if c["call"].args else None
        return root is not None and (b.local_name(root) or "") == "known_facts"
    if c["kind"] == "other" and "local" in c:
        l = c["local"]
        for d in b.defs().get(l, []):
            if d[0] == "assign" and d[3]["rv"] == "unop" and d[3]["op"] == "Not":
                inner = G.describe_discr(b, d[3]["a"])
                if inner["kind"] == "call" and inner["call"].name() == "contains":
                    root = b.alias_root(inner["call"].args[0])
                    return root is not None and (b.local_name(root) or "") == "known_facts"
            if d[0] == "call" and d[2].name() == "contains":
                root = b.alias_root(d[2].args[0])
                return root is not None and (b.local_name(root) or "") == "known_facts"
    return False


def _cdesc(b, c):
    if c["kind"] == "call":
        return "%s(..) is %s" % (c["call"].name(), c["truth"])
    return c["kind"]


# ---------------------------------------------------------------- R4 .. R8 (completeness of the incremental path)

from lib import pipeline as P


def _role(b, root):
    """element source of a collection local: follow the receiver chain of its definition (predicates/closures do not count)"""
    names, roots = P.flat(P.tree(b, {"k": "copy", "pl": {"l": root["local"], "p": [], "t": ""}}, stop_named=False))
    new = "translate_sds_to_datalog" in names
    old = any(r["k"] == "root" and r["name"] == "sds_plus_old" for r in roots)
    if old and not new:
        return "old"
    if new and not old:
        return "new"
    return "mixed" if (old and new) else "other"


def r4_to_r8(R, tr, inc):
    prog = R.prog
    R.rule("C12-R4", "renewal wins: where the incremental path seeds the expiry tags, a fact present both among the carried facts and among "
                     "the new/renewed facts ends with the renewed (later) expiry - the carried tags are written first, the new ones last "
                     "(or the write is a max)")
    R.rule("C12-R5", "every premise counts: the tag of a derived fact is the conjunction over ALL matched premise facts of the rule instance "
                     "(no truncating adaptor between the matched premises and the fold), guarded by the zero test")
    R.rule("C12-R6", "improved facts are consumed: in every round after the first the delta handed to the premise join contains the facts "
                     "queued in delta_improved")
    R.rule("C12-R7", "nothing alive is dropped: static-graph facts are translated with the never-expiring tag (u64::MAX), and every "
                     "materialised fact whose predicate belongs to a component is returned with its tag - controlled by nothing else")
    R.rule("C12-R8", "component routing: annotated predicates are matched against component IRIs longest first")
    # ---- R4
    if inc is not None:
        sets = [c for c in inc.calls() if c.name() == "set_tag"]
        R.ob("C12-R4", "seeds", "incremental_sds_plus seeds initial tags with set_tag (found %d)" % len(sets), len(sets) >= 1, where=inc.where())
        seq = []  # (role, call) in program order of effect
        for c in sets:
            drv = P.loop_driver(inc, c.bb)
            if drv is None or drv[2] is None:
                seq.append(("?", c))
                continue
            names, roots = P.flat(drv[2])
            roles = []
            for r in roots:
                if r["k"] == "root":
                    roles.append(_role(inc, r))
                else:
                    roles.append("other")
            seq.append((roles, c, names))
        ok = False
        why = None
        if len(seq) == 1 and seq[0][0] != "?":
            roles, c, names = seq[0]
            if roles == ["old", "new"] and "chain" in names and not ({"rev", "sorted", "sort"} & set(names)):
                ok = True
            else:
                why = "one loop over %s via %s: the carried tag may be written after (and overwrite) the renewed one" % (roles, names)
        elif len(seq) >= 2 and all(x[0] != "?" for x in seq):
            olds = [x for x in seq if x[0] == ["old"]]
            news = [x for x in seq if x[0] == ["new"]]
            if olds and news and len(olds) + len(news) == len(seq) and all(_ordered(inc, o[1].bb, n[1].bb) for o in olds for n in news):
                ok = True
            else:
                why = "the loops that write carried and renewed tags are not ordered carried-before-renewed"
        else:
            why = "could not identify what the seeding loop iterates over"
        R.ob("C12-R4", "order", "carried expiries are seeded before (and overwritten by) new/renewed expiries", ok,
             where=inc.where(sets[0].ln if sets else None), detail=why if not ok else None)
    r5_r6(R)
    # ---- R7
    if tr is not None:
        fam = prog.family(tr.key)
        pushes = [(x, c) for x in fam for c in x.calls() if c.name() == "push" and len(c.args) == 2]
        kinds = []
        for x, c in pushes:
            o = x.origin(c.args[1], stop_named=False)
            rv = o[1] if o[0] == "rv" else None
            if rv is None and o[0] == "place":
                d = x.single_def(o[1]["l"])
                if d and d[0] == "assign":
                    rv = d[3]
            if rv is not None and rv["rv"] == "aggregate" and rv.get("ak") == "tuple" and len(rv["ops"]) == 2:
                e = rv["ops"][1]
                ci = F.const_int(e)
                if ci is None and e.get("k") == "const":
                    kinds.append(("const", str(e.get("d") or e.get("const_def") or ""), c, x))
                elif ci is not None:
                    kinds.append(("const", str(ci), c, x))
                else:
                    kinds.append(("computed", None, c, x))
        consts = [k for k in kinds if k[0] == "const"]
        comp = [k for k in kinds if k[0] == "computed"]
        okc = len(consts) >= 1 and all(("MAX" in k[1]) or k[1].startswith("18446744073709551615") for k in consts)
        R.ob("C12-R7", "static-max", "the translator emits static-graph facts with expiry u64::MAX (found %s) and window facts with a computed expiry (%d site)"
             % ([k[1] for k in consts], len(comp)), okc and len(comp) >= 1, where=tr.where(consts[0][2].ln if consts else None),
             detail=None if okc else "a finite expiry on static background facts makes every fact derived from them expire")
    if inc is not None:
        ins = []
        for c in inc.calls():
            if c.name() == "insert" and len(c.args) == 3:
                drv = P.loop_driver(inc, c.bb, stop_named=False)
                if drv and drv[2] is not None and "query" in P.flat(drv[2])[0]:
                    ins.append(c)
        R.ob("C12-R7", "collects", "incremental_sds_plus collects its result in a loop over the reasoner's facts (found %d insert site)" % len(ins), len(ins) == 1, where=inc.where())
        for c in ins:
            extra = []
            for cd in G.conditions(inc, c.bb):
                if cd["kind"] == "variant":
                    o = inc.origin({"k": "copy", "pl": {"l": cd["pl"]["l"], "p": [], "t": ""}}, stop_named=False)
                    if o[0] == "call" and o[1].name() in ("strip_window_prefix", "decode", "next"):
                        continue
                    if o[0] == "place":
                        ds = [d for d in inc.defs().get(o[1]["l"], []) if d[0] == "call"]
                        if ds and all(d[2].name() in ("strip_window_prefix", "decode", "next") for d in ds):
                            continue
                extra.append(_cdesc(inc, cd) + "@%s" % cd.get("bb"))
            R.ob("C12-R7", "unconditional-result", "a materialised fact of a component is returned under no condition other than `predicate decodes` and "
                 "`belongs to a component`", not extra, where=inc.where(c.ln),
                 detail=None if not extra else "further condition(s) %s drop facts that from-scratch reasoning yields" % extra)
            # the stored expiry is the tag store's value for that fact
            o = inc.origin(c.args[2], stop_named=False)
            okt = o[0] == "call" and o[1].name() == "get_tag"
            R.ob("C12-R7", "expiry-is-tag", "the expiry returned for a fact is its tag in the tag store after the fixpoint", okt, where=inc.where(c.ln))
    # ---- R8
    ac = [b for b in prog.bodies.values() if b.crate == "datalog" and b.name == "all_component_iris" and not b.is_closure]
    sw = [b for b in prog.bodies.values() if b.crate == "datalog" and b.name == "strip_window_prefix" and not b.is_closure]
    R.ob("C12-R8", "anchors", "all_component_iris and strip_window_prefix exist", len(ac) == 1 and len(sw) == 1)
    if len(ac) == 1 and len(sw) == 1:
        a, w = ac[0], sw[0]
        longest = any(c.name() in ("max_by_key", "max_by") for x in prog.family(w.key) for c in x.calls())
        desc = False
        for c in a.calls():
            if c.name() in ("sort_by", "sort_unstable_by") and len(c.args) == 2:
                from c19 import closure_family_calls
                key, inner = closure_family_calls(prog, a, c.args[1])
                cl = prog.bodies.get(key) if key else None
                if cl is None:
                    continue
                for ic in cl.calls():
                    if ic.name() == "cmp" and len(ic.args) == 2:
                        def param_of(op):
                            o = cl.origin(op, stop_named=False)
                            if o[0] == "call" and o[1].name() == "len":
                                o2 = cl.origin(o[1].args[0], stop_named=False)
                                if o2[0] == "place":
                                    return _root_param12(cl, o2[1]["l"])
                            if o[0] == "place":
                                d = cl.single_def(o[1]["l"])
                                if d and d[0] == "call" and d[2].name() == "len":
                                    o2 = cl.origin(d[2].args[0], stop_named=False)
                                    if o2[0] == "place":
                                        return _root_param12(cl, o2[1]["l"])
                            return None
                        pa, pb = param_of(ic.args[0]), param_of(ic.args[1])
                        if pa == 3 and pb == 2:
                            desc = True
            if c.name() in ("sort_by_key", "sort_unstable_by_key", "sort_by_cached_key") and len(c.args) == 2:
                from c19 import closure_family_calls
                key, inner = closure_family_calls(prog, a, c.args[1])
                cl = prog.bodies.get(key) if key else None
                if cl is not None and any(ic.name() == "len" for ic in cl.calls()) and "Reverse" in str(cl.r.get("ret", "")) + "".join(l.get("ty", "") for l in cl.locals[:1]):
                    desc = True
        R.ob("C12-R8", "longest-first", "component IRIs are tried longest first (descending length sort in all_component_iris, or a longest-match "
             "selection in strip_window_prefix)", desc or longest, where=a.where(),
             detail=None if (desc or longest) else "when one component IRI is a prefix of another, facts of the longer one are attributed to the shorter one")


def _ordered(b, first_bb, second_bb):
    """every execution of second_bb comes after all executions of first_bb: second is reached only past first's loop, never back"""
    if first_bb in b.reach_from(b.succ(second_bb)) or first_bb == second_bb:
        return False
    drv = P.loop_driver(b, first_bb)
    h = drv[0] if drv else first_bb
    return b.dominates(h, second_bb)


def _root_param12(cl, l, depth=0):
    if l is None or depth > 8:
        return None
    if 1 <= l <= cl.nargs:
        return l
    d = cl.single_def(l)
    if d and d[0] == "assign":
        rv = d[3]
        src = rv.get("pl") or F.op_place(rv.get("op") or {})
        if src is not None:
            return _root_param12(cl, src["l"], depth + 1)
    return None


def r5_r6(R):
    """the provenance round: conjunction over every matched premise; improved facts are consumed (shared with C06)"""
    prog = R.prog
    rounds = [b for b in prog.bodies.values() if (b.r.get("trait_item") or "").endswith("ProvenanceInferenceStrategy::infer_round") and b.crate == "datalog"]
    for b in rounds:
        R.saw(b)
        folds = [c for c in b.calls() if c.name() in ("fold", "reduce", "try_fold")]
        conj_folds = []
        for c in folds:
            from c19 import closure_family_calls
            key, inner = closure_family_calls(prog, b, c.args[-1])
            if key and any(ic.name() == "conjunction" for x, ic in inner):
                conj_folds.append(c)
        R.ob("C12-R5", "fold:" + b.short, "%s combines premise tags with a fold over conjunction (found %d)" % (b.short, len(conj_folds)),
             len(conj_folds) >= 1, where=b.where())
        for c in conj_folds:
            t = P.tree(b, c.args[0])
            names, roots = P.flat(t)
            bad = [n for n in names if n not in ("iter", "into_iter", "map", "deref", "cloned", "copied", "as_slice", "clone", "as_ref", "borrow", "to_vec", "collect")]
            rootok = len(roots) == 1 and roots[0]["k"] == "root"
            src = None
            if rootok:
                der = P.derives(prog, b, roots[0]["local"])
                src = ("call", "find_premise_solutions_with_triples") in der
            ok = not bad and rootok and bool(src)
            R.ob("C12-R5", "all-premises:" + b.short, "the conjunction ranges over every matched premise fact of the instance (pipeline %s)" % P.render(t),
                 ok, where=b.where(c.ln),
                 detail=None if ok else "adaptor(s) %s cut the premises short / the folded collection is not the matched-premise list: a skipped "
                 "premise's expiry (or probability) does not bound the conclusion's tag" % bad)
        # matched premise list itself: built over all rule.premise patterns
        rp = [x for x in prog.bodies.values() if x.crate == "datalog" and x.name == "resolve_premise_triples" and "provenance_semi_naive" in x.key]
        for x in rp:
            for c in x.calls():
                if c.name() in ("filter_map", "map") and c.args:
                    names, roots = P.flat(P.tree(x, c.args[0]))
                    bad = [n for n in names if n not in ("iter", "into_iter", "deref")]
                    R.ob("C12-R5", "patterns:" + x.short, "resolve_premise_triples visits every premise pattern (pipeline %s)" % names, not bad, where=x.where(c.ln))
        # R6
        joins = [c for c in b.calls() if c.name().startswith("find_premise_solutions")]
        R.ob("C12-R6", "join:" + b.short, "%s hands a delta to the premise join" % b.short, len(joins) >= 1, where=b.where())
        for c in joins:
            # whichever argument carries the delta (the last one on the pinned tree; a reordered signature is checked by C12-R10)
            ok = False
            for a in c.args:
                pl = F.op_place(a)
                der = P.derives(prog, b, pl["l"]) if pl is not None else set()
                if ("field", "self.delta_improved") in der:
                    ok = True
            R.ob("C12-R6", "consumes:" + b.short, "the delta of a later round includes the facts queued in self.delta_improved", ok, where=b.where(c.ln),
                 detail=None if ok else "facts whose tag improved are queued but never joined again: consequences keep the stale, too-early expiry")
            # the same local on every path (no branch that builds the delta without the queue, except the first round)


def r9(R, inc):
    """every alive fact is a known fact of the reasoner"""
    prog = R.prog
    R.rule("C12-R9", "every alive fact is known to the reasoner: the incremental path inserts ALL carried-over and ALL new / renewed facts into "
                     "the reasoner's index before the fixpoint (whole collections, no iteration skipped) - a fact that is alive but unknown is "
                     "re-derived as `new` and its kept expiry is overwritten instead of maximised")
    if inc is None:
        return
    ins = []
    for c in inc.calls():
        if c.name() == "insert" and len(c.args) == 2:
            o = inc.origin(c.args[0], stop_named=False)
            if o[0] == "place" and any(e.get("n") == "dataset_index" for e in o[1]["p"]):
                ins.append(c)
    R.ob("C12-R9", "loads", "incremental_sds_plus loads facts into the reasoner's index (found %d insert site)" % len(ins), len(ins) >= 1, where=inc.where())
    roles = set()
    for c in ins:
        drv = P.loop_driver(inc, c.bb)
        if drv is None or drv[2] is None:
            R.ob("C12-R9", "in-loop", "the insertion runs in a loop over a fact collection", False, where=inc.where(c.ln))
            continue
        h, blocks, t = drv
        names, roots = P.flat(t)
        trunc = [n for n in names if n not in ("iter", "into_iter", "deref", "chain", "cloned", "copied")]
        for r in roots:
            if r["k"] == "root":
                roles.add(_role(inc, r))
        skip = P.skips_effect(inc, h, blocks, {c.bb})
        R.ob("C12-R9", "whole:%s" % "+".join(sorted(_role(inc, r) for r in roots if r["k"] == "root")), "the loop inserts every element (pipeline %s), no iteration skipped"
             % names, not trunc and not skip, where=inc.where(c.ln),
             detail=None if (not trunc and not skip) else "facts that are set aside (e.g. because no rule body mentions their predicate) are unknown to the reasoner: "
             "when a rule concludes one of them again it counts as new and its tag is set, not merged")
    R.ob("C12-R9", "both-sets", "both the carried-over and the new / renewed facts are loaded (roles found: %s)" % sorted(roles), {"old", "new"} <= roles, where=inc.where())



def r10(R):
    """semi-naive: the distinguished premise meets the delta, the others meet everything - and the caller hands the two over in that order"""
    from lib import pipeline as P
    prog = R.prog
    R.rule("C12-R10", "delta and total keep their roles across the call: in a semi-naive premise solver the premise singled out by the outer loop is "
                      "joined with one parameter (the delta) and the remaining premises with another (all facts); at every call site the argument in "
                      "the delta position is not the caller's complete fact list, and the argument in the all-facts position is. Both are "
                      "`&[Triple]`, so swapping them type-checks: a derivation is then found only when all premises but one are new - "
                      "rules with three premises lose conclusions (or keep stale expiries) after the first evaluation")
    n = 0
    for k, b in sorted(prog.bodies.items()):
        if b.crate != "datalog" or b.is_closure or "::tests::" in k or "/materialisation/" not in b.file:
            continue
        joins = [c for c in b.calls() if c.name().startswith("join_premise") and len(c.args) >= 2]
        if len(joins) < 2:
            continue
        loops = b.loops()
        items = list(loops.items() if isinstance(loops, dict) else loops)
        depth = lambda bb: sum(1 for h, bl in items if bb in bl)
        roles = {}
        for c in joins:
            r = b.alias_root(c.args[1]) if F.op_place(c.args[1]) else None
            if r is None or not (1 <= r <= b.nargs):
                continue
            roles.setdefault(r, set()).add(depth(c.bb))
        if len(roles) != 2:
            continue
        (pa, da), (pb, db) = sorted(roles.items(), key=lambda kv: min(kv[1]))
        if min(da) == min(db):
            continue
        delta_p, total_p = pa, pb         # the shallower join is the distinguished (delta) premise
        n += 1
        R.saw(b)
        callers = [(x, c) for x in prog.bodies.values() if x.crate == "datalog" and "::tests::" not in x.key for c in x.calls() if c.key == k]
        R.ob("C12-R10", "called:" + b.name, "%s has a caller (found %d)" % (b.name, len(callers)), bool(callers), where=b.where())
        for x, c in callers:
            # the caller's complete fact list: a parameter of slice/Vec<Triple> type named like `all_facts`, or the one not sliced
            ad, at = c.args[delta_p - 1], c.args[total_p - 1]
            rd, rt = (x.alias_root(ad) if F.op_place(ad) else None), (x.alias_root(at) if F.op_place(at) else None)
            whole_params = [i for i in range(1, x.nargs + 1) if "Triple" in x.local_ty(i) and ("[" in x.local_ty(i) or "Vec<" in x.local_ty(i))]
            d_is_whole = rd in whole_params and not _sliced(x, ad)
            t_is_whole = rt in whole_params and not _sliced(x, at)
            ok = (not d_is_whole) and t_is_whole
            R.ob("C12-R10", "roles:%s<-%s" % (b.name, x.name), "%s hands %s its delta as `%s` and all facts as `%s`" % (
                x.name, b.name, b.local_name(delta_p), b.local_name(total_p)), ok, where=x.where(c.ln),
                detail=None if ok else "the argument for `%s` (joined with the distinguished premise) is %s, the argument for `%s` (joined with the other "
                "premises) is %s" % (b.local_name(delta_p), "the caller's complete fact list" if d_is_whole else "a derived list",
                                     b.local_name(total_p), "the complete fact list" if t_is_whole else "not the complete fact list"))
    R.floor("C12-R10", "semi-naive premise solvers with a delta and a total parameter", n, 1)


def _sliced(x, op):
    """the operand is a sub-range / a rebuilt list rather than the parameter itself"""
    pl = F.op_place(op)
    seen = set()
    while pl is not None and pl["l"] not in seen:
        seen.add(pl["l"])
        if 1 <= pl["l"] <= x.nargs:
            return False
        ds = x.defs().get(pl["l"], [])
        if len(ds) != 1:
            return True
        d = ds[0]
        if d[0] == "call":
            if d[2].name() in ("deref", "as_ref", "as_slice", "borrow"):
                pl = F.op_place(d[2].args[0]) if d[2].args else None
                continue
            return True
        if d[0] == "assign" and d[3]["rv"] in ("use", "ref", "cast"):
            pl = d[3].get("pl") if d[3]["rv"] == "ref" else F.op_place(d[3].get("op") or {})
            continue
        return True
    return True



def r11(R, inc):
    """carry-over is decided by expiry alone"""
    from lib import pipeline as P
    prog = R.prog
    R.rule("C12-R11", "a fact is carried over iff it has not expired: on the way from the previous materialisation to the facts the incremental path "
                      "starts from, the only filter is the comparison of the fact's expiry with the evaluation time. Any further condition (is the "
                      "triple still listed in its window, does its predicate occur in a rule, ..) also drops DERIVED facts filed under that "
                      "component, which nothing re-derives because their premises are carried over and not in the delta")
    if inc is None:
        return
    fam = prog.family(inc.key)
    filt = []
    for x in fam:
        for c in x.calls():
            if c.name() in ("filter", "filter_map", "take_while", "skip_while", "retain") and len(c.args) >= 2:
                key, inner = P._closure_calls(prog, x, c.args[1])
                if key is None:
                    continue
                # only pipelines that start from the previous materialisation (parameter sds_plus_old)
                d = P.derives(prog, x, F.op_place(c.args[0])["l"]) if F.op_place(c.args[0]) else set()
                root = x
                names = [inc.local_name(i) for i in range(1, inc.nargs + 1)]
                from_old = any(t[0] == "param" and t[1] == "sds_plus_old" for t in d) or (x.is_closure and any(t[0] in ("capture", "param") for t in d))
                if not from_old:
                    continue
                filt.append((x, c, key, inner))
    R.floor("C12-R11", "filters on the way from the previous materialisation to the carried-over facts", len(filt), 1)
    for x, c, key, inner in filt:
        cl = prog.bodies[key]
        calls = sorted({ic.name() for y, ic in inner})
        member = [n for n in calls if n in ("contains", "contains_key", "get", "binary_search", "any", "iter")]
        cmp_time = False
        for y in prog.family(key):
            for bb, i, pl, rv, st in y.assigns():
                if rv["rv"] == "binop" and rv["op"] in ("Gt", "Ge", "Lt", "Le") and "u64" in (y.local_ty((F.op_place(rv["a"]) or {"l": 0})["l"]) + y.local_ty((F.op_place(rv["b"]) or {"l": 0})["l"])):
                    cmp_time = True
        ok = cmp_time and not member
        R.ob("C12-R11", "carry-filter:%s" % ("expiry" if ok else "/".join(member) or "other"), "a filter on the carried-over facts tests the expiry only (calls in the predicate: %s)" % calls, ok,
             where=x.where(c.ln), detail=None if ok else "this filter looks something up (%s): facts derived into that component are not `listed` anywhere and are dropped although alive" % member)


def r13(R, inc):
    """seeding the expiry tags never lowers a carried expiry"""
    from lib import pipeline as P
    prog = R.prog
    R.rule("C12-R13", "a carried expiry is not overwritten by a smaller one: the loop of incremental_sds_plus that seeds the tag store with `set_tag` (which "
                      "overwrites) takes base facts only from the renewal-filtered collection (`expiry_old < expiry_new`), after the carried-over ones - "
                      "or it merges with the maximum. A fact that is streamed in a window *and* derived by a rule with longer-lived support carries the "
                      "later expiry; re-seeding it from all alive base facts puts the window's own (earlier) expiry back, the support is not in the "
                      "delta, and the fact disappears while reasoning from scratch still derives it")
    if inc is None:
        return
    sets = [c for c in inc.calls() if c.name() == "set_tag" and inc.loops_containing(c.bb)]
    if not R.ob("C12-R13", "seeds", "incremental_sds_plus seeds the tag store in a loop (found %d set_tag)" % len(sets), len(sets) >= 1, where=inc.where()):
        return
    for c in sets:
        drv = P.loop_driver(inc, c.bb)
        if drv is None or drv[2] is None:
            R.ob("C12-R13", "driver", "the seeding loop iterates a recognisable source", False, where=inc.where(c.ln))
            continue
        names, roots = P.flat(drv[2])
        bad = []
        for r in roots:
            if r.get("k") != "root" or r.get("local") is None:
                continue
            n2, r2 = P.flat(P.tree(inc, {"k": "copy", "pl": {"l": r["local"], "p": [], "t": ""}}, stop_named=False))
            is_base = "translate_sds_to_datalog" in n2
            if is_base and "filter" not in n2 and "retain" not in n2:
                bad.append(r.get("name") or r["local"])
        R.ob("C12-R13", "renewed-only", "the base facts the seeding loop writes with set_tag passed the renewal filter (unfiltered sources: %s)" % bad, not bad, where=inc.where(c.ln),
             detail=None if not bad else "`x knows y` streamed at 5 (own expiry 15) and derived from `y knows x` at 8 (expiry 18): the second evaluation stores 15 again")

"""C14 — exported data re-imports to the same dataset: serializer agreement and inverse escape tables (structural)."""
import re
from lib import facts as F
from lib import guards as G
from lib.taint import Taint
from lib import pipeline as P14
from lib import guards as G

ESC = "escape_ntriples_literal"
DEC = "decode_ntriples_literal"


def rust_unescape(lit):
    """decode the escapes of a Rust string/char literal body"""
    out = []
    i = 0
    while i < len(lit):
        ch = lit[i]
        if ch != "\\":
            out.append(ch)
            i += 1
            continue
        n = lit[i + 1] if i + 1 < len(lit) else ""
        m = {"n": "\n", "r": "\r", "t": "\t", "\\": "\\", "\"": "\"", "'": "'", "0": "\0"}
        if n in m:
            out.append(m[n])
            i += 2
        elif n == "x":
            out.append(chr(int(lit[i + 2:i + 4], 16)))
            i += 4
        elif n == "u":
            j = lit.index("}", i)
            out.append(chr(int(lit[i + 3:j], 16)))
            i = j + 1
        else:
            out.append(n)
            i += 2
    return "".join(out)


def const_text(op):
    """text of a &str / char constant operand, properly unescaped"""
    if not op or op.get("k") != "const":
        return None
    d = op.get("d")
    if d is None:
        return None
    m = re.match(r'^(?:const )?"(.*)"$', d, re.S)
    if m:
        return rust_unescape(m.group(1))
    m = re.match(r"^(?:const )?'(.*)'$", d, re.S)
    if m:
        return rust_unescape(m.group(1))
    return None


def quoted_placeholder_index(tmpl):
    """index of the `{}` placeholder that is written between double quotes in a format template constant, else None.
    The template is the byte-string form used by the compiler: literal pieces and \\xc0 argument markers."""
    m = re.match(r'^(?:const )?b"(.*)"$', tmpl, re.S)
    if not m:
        return None
    body = m.group(1)
    idx = 0
    pos = 0
    while True:
        k = body.find("\\xc0", pos)
        if k < 0:
            return None
        if body[max(0, k - 2):k] == '\\"':
            return idx
        idx += 1
        pos = k + 4


def format_groups(b):
    """(template const statement, [Argument::new_display/new_debug calls]) grouped by source line"""
    tmpls = []
    for bb, i, pl, rv, s in b.assigns():
        if rv["rv"] == "use" and rv["op"].get("k") == "const":
            d = rv["op"].get("d") or ""
            if d.startswith('const b"') or d.startswith('b"'):
                tmpls.append((bb, s.get("ln"), d))
    for bb, ln, d in tmpls:
        args = [c for c in b.calls() if c.name() in ("new_display", "new_debug") and "fmt::rt::Argument" in (c.pretty or "")
                and c.ln == ln and (b.dominates(c.bb, bb) or c.bb == bb)]
        args.sort(key=lambda c: c.bb)
        yield bb, ln, d, args


def _template_holes(tmpl):
    """[(char before, char after)] for every placeholder of a compiler format template (`b"\\x01<\\xc0\\x01>\\x00"`)"""
    import ast
    m = re.match(r'^(?:const )?(b".*")$', tmpl, re.S)
    if not m:
        return None
    try:
        raw = ast.literal_eval(m.group(1))
    except Exception:
        return None
    # tokens: n (<0x80) + n literal bytes | 0xc0 placeholder | 0x00 end
    pieces, i = [], 0
    while i < len(raw):
        b0 = raw[i]
        if b0 == 0:
            break
        if b0 == 0xC0:
            pieces.append(None)
            i += 1
            continue
        if b0 < 0x80:
            pieces.append(raw[i + 1:i + 1 + b0].decode("utf-8", "replace"))
            i += 1 + b0
            continue
        # other argument markers (positional / formatted): treat as placeholder, skip its parameter bytes conservatively
        pieces.append(None)
        i += 1
    holes = []
    for j, pc in enumerate(pieces):
        if pc is None:
            left = pieces[j - 1][-1:] if j > 0 and pieces[j - 1] else ""
            right = pieces[j + 1][:1] if j + 1 < len(pieces) and pieces[j + 1] else ""
            holes.append((left, right))
    return holes


def _char_consts(prog, b):
    """character constants a predicate compares with / matches on (None when it has none): its character class, roughly"""
    out = set()
    for x in prog.family(b.key):
        for bb, t in x.terms():
            if t["t"] == "switch" and "char" in x.local_ty((F.op_place(t["discr"]) or {"l": 0})["l"]):
                for v, tg in t["targets"]:
                    try:
                        out.add(int(v))
                    except Exception:
                        pass
        for bb, i, pl, rv, st in x.assigns():
            for o in F.rv_operands(rv):
                if o.get("k") == "const" and o.get("ty") == "char":
                    try:
                        out.add(int(o.get("v")))
                    except Exception:
                        pass
        for c in x.calls():
            for a in c.args:
                if a.get("k") == "const" and a.get("ty") == "char":
                    try:
                        out.add(int(a.get("v")))
                    except Exception:
                        pass
                for sx in F.const_strs(a) if a.get("k") == "const" else []:
                    pass
    return out or None


def from_call(b, op, name, depth=0):
    if depth > 10:
        return False
    o = b.origin(op, stop_named=False)
    c = None
    if o[0] == "call":
        c = o[1]
    elif o[0] == "place":
        d = b.single_def(o[1]["l"])
        if d and d[0] == "call":
            c = d[2]
    if c is None:
        return False
    if c.name() == name:
        return True
    if c.name() in ("deref", "as_str", "borrow", "as_ref", "to_string", "clone") and c.args:
        return from_call(b, c.args[0], name, depth + 1)
    return False


def is_charlike(ty):
    """the scrutinee of a character table: a `char`, or a byte of the text (ASCII arms only)"""
    return "char" in ty or ty == "u8"


def byte_to_char_casts(prog, body):
    """`byte as char` casts in a body and its closures: (body, block, line, guarded) where guarded means the cast is control-dependent
    on an ASCII test of some byte (`is_ascii*` or a comparison with 128 / 0x7f)"""
    out = []
    for x in prog.family(body.key):
        ascii_blocks = set()
        for c in x.calls():
            if c.name().startswith("is_ascii"):
                ascii_blocks.add(c.bb)
        for bb, i, pl, rv, s in x.assigns():
            if rv["rv"] == "binop" and rv["op"] in ("Lt", "Le", "Gt", "Ge"):
                for o in (rv["a"], rv["b"]):
                    if o.get("k") == "const" and str(o.get("v")) in ("128", "127") or str(o.get("d", "")).startswith(("128_u8", "127_u8", "0x80", "0x7f")):
                        ascii_blocks.add(bb)
        for bb, i, pl, rv, s in x.assigns():
            if rv["rv"] != "cast" or rv.get("ty") != "char":
                continue
            src = F.op_place(rv["op"])
            if src is None or x.local_ty(src["l"]) != "u8":
                continue
            guarded = any(x.dominates(g, bb) and g != bb for g in ascii_blocks)
            out.append((x, bb, s["ln"], guarded))
    return out


def char_switch_table(prog, body, want="str"):
    """for a match on a char: {char -> what the arm produces}. For `want == 'str'` the string constants used in the arm,
    for `want == 'push'` the char constants pushed in the arm."""
    table = {}
    for x in prog.family(body.key):
        for bb, t in x.terms():
            if t["t"] != "switch":
                continue
            dl = F.op_place(t["discr"])
            if dl is None or not is_charlike(x.local_ty(dl["l"])):
                continue
            for v, tgt in t["targets"]:
                try:
                    ch = chr(int(v))
                except ValueError:
                    continue
                if x.local_ty(dl["l"]) == "u8" and int(v) >= 128:
                    continue
                region = {k for k in x.reachable_blocks() if x.dominates(tgt, k)} if x.pred(tgt) == [bb] else {tgt}
                # arms of a nested char match belong to that match, not to this arm
                for b3, t3 in x.terms():
                    if b3 in region and b3 != bb and t3["t"] == "switch":
                        d3 = F.op_place(t3["discr"])
                        if d3 is not None and is_charlike(x.local_ty(d3["l"])):
                            for s3 in x.succ(b3):
                                region -= {k for k in region if x.dominates(s3, k)}
                vals = []
                if want == "str":
                    for c in x.calls():
                        if c.bb in region:
                            for a in c.args:
                                tx = const_text(a)
                                if tx is not None and a.get("ty", "").endswith("str"):
                                    vals.append(tx)
                    for b2, i, pl, rv, s in x.assigns():
                        if b2 in region:
                            for op in F.rv_operands(rv):
                                tx = const_text(op)
                                if tx is not None and op.get("ty", "").endswith("str"):
                                    vals.append(tx)
                else:
                    for c in x.calls():
                        if c.bb in region and c.name() == "push" and len(c.args) == 2:
                            tx = const_text(c.args[1])
                            if tx is not None:
                                vals.append(tx)
                table.setdefault(ch, []).extend(vals)
    return table


def run(R):
    prog = R.prog
    R.rule("C14-R1", "serializer agreement: in every text serializer a value written between double quotes is the result of "
                     "escape_ntriples_literal, and all serializers decide IRI / blank node / quoted triple / literal alike")
    R.rule("C14-R2", "escape tables are inverse: every (char -> escape) pair of the writer has the inverse arm in the decoder, "
                     "and the characters that end a token or a line (quote, backslash, LF, CR) are all escaped")
    R.rule("C14-R3", "reader symmetry: every term cleaner used by a loader decodes literal bodies with decode_ntriples_literal")
    case_preserved(R, "C14-R9")
    import c13
    c13.r13(R, rid="C14-R10", only_quoted=True)
    gens = []
    for nm in ("generate_ntriples", "generate_nquads", "generate_turtle"):
        b = R.body("C14-R1", "SparqlDatabase::" + nm, crate="kolibrie")
        if b is not None:
            gens.append(b)
    nq = 0
    for b in gens:
        R.saw(b)
        found = 0
        # the writer itself, and string-building helpers of the same file it delegates a term to (`serialize_literal(obj)`)
        helpers = []
        for x in prog.family(b.key):
            for c in x.calls():
                hb = prog.bodies.get(c.key)
                if hb is not None and hb.crate == "kolibrie" and not hb.is_closure and hb.file == b.file and hb.local_ty(0) == "alloc::string::String" \
                        and hb.name not in (ESC if isinstance(ESC, (tuple, list, set)) else (ESC,)) and hb not in helpers and hb.key != b.key and not hb.name.startswith("generate_"):
                    helpers.append(hb)
        for w in [b] + helpers:
            for bb, ln, tmpl, args in format_groups(w):
                qi = quoted_placeholder_index(tmpl)
                if qi is None:
                    continue
                found += 1
                nq += 1
                ok = qi < len(args) and args[qi].args and from_call(w, args[qi].args[0], ESC)
                R.ob("C14-R1", "escaped:%s:%d" % (b.name, found), "%s writes a quoted literal only after escaping it%s" % (b.name, "" if w is b else " (in its helper %s)" % w.name), ok,
                     where=w.where(ln), detail=None if ok else "a literal containing a quote, backslash or line break cannot be read back")
        R.ob("C14-R1", "writes-literals:" + b.name, "%s has a quoted-literal branch" % b.name, found >= 1, where=b.where())
    R.floor("C14-R1", "quoted literal writes", nq, 3)
    # term-kind decision predicates: the same set of tests in all serializers for the object position
    kinds = {}
    for b in gens:
        preds = set()
        for c in b.calls():
            if c.name() == "starts_with" and len(c.args) == 2:
                tx = const_text(c.args[1])
                if tx is not None:
                    preds.add("starts_with:" + tx)
            if c.name() == "looks_like_absolute_iri":
                preds.add("looks_like_absolute_iri")
        kinds[b.name] = preds
    if len(kinds) == 3:
        # Advisory only: in this store an IRI and a literal with the same text are the same dictionary term, so a different
        # IRI-vs-literal guess between serializers does not change the re-imported dataset (and the property excludes literals
        # that can be mistaken for an IRI).
        R.advisory("C14-R1", "term-kind predicates per serializer: %s" % {k: sorted(v) for k, v in sorted(kinds.items())})
    # ---- R2
    esc = R.body("C14-R2", "sparql_database::" + ESC, crate="kolibrie")
    dec = R.body("C14-R2", "sparql_database::" + DEC, crate="kolibrie")
    if esc is not None and dec is not None:
        wt = char_switch_table(prog, esc, "str")
        rt = char_switch_table(prog, dec, "push")
        wpairs = {}
        for ch, vals in wt.items():
            for v in vals:
                if len(v) == 2 and v[0] == "\\":
                    wpairs[ch] = v[1]
        R.floor("C14-R2", "escape pairs of the writer", len(wpairs), 4)
        for ch, e in sorted(wpairs.items()):
            back = rt.get(e, [])
            ok = ch in back
            R.ob("C14-R2", "inverse:%r" % ch, "writer escapes %r as \\%s and the decoder maps \\%s back to %r (decoder gives %r)" % (ch, e, e, ch, back),
                 ok, where=dec.where())
        for ch in ['"', "\\", "\n", "\r"]:
            R.ob("C14-R2", "terminator:%r" % ch, "the writer escapes the terminator character %r" % ch, ch in wpairs, where=esc.where(),
                 detail=None if ch in wpairs else "the line-oriented readers would cut the literal at this character")
        # pass-through: whatever is not escaped is copied character by character; a byte of a multi-byte character cast to a
        # char on its own writes a different character (seeded change C14a)
        ncast = 0
        for fn in (esc, dec):
            for x, bb, ln, guarded in byte_to_char_casts(prog, fn):
                ncast += 1
                R.ob("C14-R2", "byte-as-char:%s:%d" % (fn.name, ncast), "%s turns a byte into a char only under an ASCII test of it" % fn.name, guarded,
                     where=x.where(ln), detail=None if guarded else "each byte of a multi-byte UTF-8 character is written as a character of its own")
        R.ob("C14-R2", "pass-through", "writer and decoder copy unescaped text without unguarded byte-to-char casts (%d casts seen)" % ncast, True)
    # ---- R4 one escape-aware scanner
    R.rule("C14-R4", "escape-aware termination: the decoder recognises the closing quote in the SAME character scan that consumes escapes - the "
                     "quote test and the backslash test are arms of one switch over the scanned character, the backslash arm consumes the "
                     "following character before the scan goes on, and no look-behind / separate search decides where the literal ends "
                     "(an escaped backslash before the closing quote must not hide the quote)")
    if dec is not None:
        scan = None
        for x in prog.family(dec.key):
            for bb, t in x.terms():
                if t["t"] != "switch":
                    continue
                dl = F.op_place(t["discr"])
                if dl is None or not is_charlike(x.local_ty(dl["l"])):
                    continue
                vals = {str(v): tgt for v, tgt in t["targets"]}
                if "34" in vals and "92" in vals:
                    # the outer scan, not the nested match on the escaped character (which has arms for both as well)
                    if scan is None or (scan[0] is x and x.dominates(bb, scan[1])):
                        scan = (x, bb, vals, dl)
        R.ob("C14-R4", "one-switch", "the decoder tests the scanned character for `\"` and `\\` in one switch", scan is not None, where=dec.where(),
             detail=None if scan else "the end of the literal is located by a different scan than the one that interprets escapes")
        if scan is not None:
            x, bb, vals, dl = scan
            loops = x.loops_containing(bb)
            R.ob("C14-R4", "in-scan-loop", "that switch sits in the loop that walks the literal", bool(loops), where=x.where())
            # the quote arm returns Some(..)
            qt = vals["34"]
            qreg = {k for k in x.reachable_blocks() if x.dominates(qt, k)} | {qt}
            ret = any(rv["rv"] == "aggregate" and rv.get("variant") == "Some" and b2 in qreg for b2, i, pl, rv, st in x.assigns())
            R.ob("C14-R4", "quote-ends", "an unescaped quote ends the literal (the arm returns the value and the rest)", ret, where=x.where())
            # the backslash arm consumes the next character from the same iterator as the scan
            bt = vals["92"]
            breg = {k for k in x.reachable_blocks() if x.dominates(bt, k)} | {bt}
            nexts = [c for c in x.calls() if c.name() == "next" and c.bb in breg]
            hdr_next = [c for c in x.calls() if c.name() == "next" and loops and c.bb in loops[0][1] and c.bb not in breg]
            same_it = bool(nexts) and bool(hdr_next) and x.alias_root(nexts[0].args[0]) == x.alias_root(hdr_next[0].args[0]) or (
                bool(nexts) and bool(hdr_next) and _it_root(x, nexts[0].args[0]) == _it_root(x, hdr_next[0].args[0]))
            R.ob("C14-R4", "escape-consumes", "the backslash arm takes the next character from the scanning iterator before the scan continues", same_it,
                 where=x.where(nexts[0].ln if nexts else None))
        # no look-behind or separate terminator search
        lb = sorted({c.name() for x in prog.family(dec.key) for c in x.calls() if c.name() in ("ends_with", "match_indices", "rmatch_indices", "rfind", "find", "split", "rsplit", "split_once", "rsplit_once")})
        R.ob("C14-R4", "no-look-behind", "the decoder does not locate the closing quote by searching / looking behind (found %s)" % lb, not lb, where=dec.where(),
             detail=None if not lb else "`\\\\\"` (escaped backslash, then the closing quote) looks like an escaped quote to a one-character look-behind: a "
             "literal ending in a backslash is not decoded")
    # ---- R5 the Turtle writer stays inside the reader's (line-oriented) language
    R.rule("C14-R5", "one statement per line in Turtle: the Turtle loader keeps its statement state (current subject / predicate) per line, so "
                     "the Turtle writer must not break a line inside a statement - every newline it writes follows a statement terminator "
                     "(or the loader must carry subject and predicate across lines)")
    gt = prog.one("SparqlDatabase::generate_turtle", crate="kolibrie")
    pt = prog.one("SparqlDatabase::parse_turtle", crate="kolibrie")
    R.anchor("C14-R5", "SparqlDatabase::generate_turtle", gt)
    R.anchor("C14-R5", "SparqlDatabase::parse_turtle", pt)
    if gt is not None and pt is not None:
        R.saw(gt)
        R.saw(pt)
        # reader: is the statement state re-initialised inside the loop over lines?
        per_line = []
        lines_loops = []
        for h, blocks in pt.loops():
            drv = P14.driver_of(pt, h, blocks)
            if drv and drv[2] is not None and "lines" in P14.flat(drv[2])[0]:
                lines_loops.append((h, blocks))
        R.ob("C14-R5", "reader-loop", "parse_turtle walks the document line by line", len(lines_loops) == 1, where=pt.where())
        if lines_loops:
            h, blocks = lines_loops[0]
            for l, loc in enumerate(pt.locals):
                nm = loc.get("name")
                if nm in ("subject_raw", "predicate_raw"):
                    ds = [d for d in pt.defs().get(l, []) if d[0] == "assign" and d[3]["rv"] == "aggregate" and d[3].get("variant") == "None"]
                    inside = [d for d in ds if d[1] in blocks]
                    outside = [d for d in ds if d[1] not in blocks]
                    if inside and not outside:
                        per_line.append(nm)
        carries = not per_line
        # writer: string / char constants that contain a newline
        breaks = []
        for x in prog.family(gt.key):
            for c in x.calls():
                for a in c.args:
                    tx = const_text(a)
                    if tx is not None and "\n" in tx:
                        before = tx[:tx.index("\n")].rstrip()
                        if before and not before.endswith("."):
                            breaks.append((tx, x.where(c.ln)))
            for bb, i, pl, rv, st in x.assigns():
                for op in F.rv_operands(rv):
                    tx = const_text(op)
                    if tx is not None and "\n" in tx and isinstance(tx, str) and len(tx) > 1:
                        before = tx[:tx.index("\n")].rstrip()
                        if before and not before.endswith(".") and (tx, x.where(st.get("ln"))) not in breaks:
                            breaks.append((tx, x.where(st.get("ln"))))
        # format templates are byte strings: look at the templates too
        for grp in format_groups(gt) if False else []:
            pass
        ok = carries or not breaks
        R.ob("C14-R5", "no-break-inside-statement", "generate_turtle writes a newline only after a statement terminator (breaks inside a statement: %s; the loader "
             "resets %s on every line)" % ([b[0] for b in breaks], per_line), ok, where=breaks[0][1] if breaks else gt.where(),
             detail=None if ok else "a subject with two predicates is written as `s p1 o1 ;\\n    p2 o2 .`; the loader reads the second line as a new statement "
             "with subject p2: the triple (s p2 o2) is lost and a wrong one may be stored")
    # ---- R7 bare output only for quoted triples in Turtle
    R.rule("C14-R7", "the Turtle writer delimits what the Turtle tokenizer would split: a stored term is written bare (neither in <...> nor in "
                     "quotes) only when it is a quoted triple (`<<`), because the line tokenizer treats `.`, `,` and `;` in undelimited text "
                     "as punctuation (a blank node label such as `_:row.17` written bare does not come back)")
    gt7 = prog.one("SparqlDatabase::generate_turtle", crate="kolibrie")
    if gt7 is not None:
        nbare = 0
        for x in prog.family(gt7.key):
            sites = []
            for c in x.calls():
                if c.name() == "push_str" and len(c.args) == 2:
                    for site in _bare_sources(x, c.args[1], c):
                        if site not in sites:
                            sites.append(site)
            for c in sites:
                nbare += 1
                ok = any(cd.get("kind") == "call" and cd["call"].name() == "starts_with" and cd.get("truth") is True and len(cd["call"].args) >= 2
                         and const_text(cd["call"].args[1]) == "<<" for cd in G.conditions(x, c.bb))
                R.ob("C14-R7", "bare:%d" % nbare, "generate_turtle writes a term without delimiters only under `starts_with(\"<<\")`", ok, where=x.where(c.ln),
                     detail=None if ok else "undelimited text that is not a quoted triple is cut at `.`, `,` or `;` by tokenize_turtle_star_line on re-import")
        R.floor("C14-R7", "undelimited term writes in generate_turtle", nbare, 2)
        # format templates: a placeholder that is not wrapped in <..> or quotes writes its argument bare. Allowed for the prefix label of a
        # declaration; an argument that comes from a parameter (a term handed to a helper closure / function) must have been checked against a
        # character class that contains none of the tokenizer's punctuation characters
        ntm = 0
        for x in prog.family(gt7.key):
            for bb, ln, tmpl, args in format_groups(x):
                holes = _template_holes(tmpl)
                if holes is None:
                    continue
                ntm += 1
                for i, (left, right) in enumerate(holes):
                    if (left, right) in (("<", ">"), ('"', '"')):
                        continue
                    if i >= len(args) or not args[i].args:
                        continue
                    pl = F.op_place(args[i].args[0])
                    if pl is None:
                        continue
                    from lib import pipeline as P
                    d = P.derives(prog, x, pl["l"])
                    from_param = any(t[0] == "param" for t in d) and x.is_closure
                    if not from_param:
                        continue
                    # guards: predicates called on the way whose character class excludes . , ;
                    safe = False
                    for t in d:
                        pass
                    for cd in G.conditions(x, args[i].bb):
                        if cd.get("kind") == "call" and cd["call"].key in prog.bodies and cd.get("truth") is True:
                            chars = _char_consts(prog, prog.bodies[cd["call"].key])
                            if chars is not None and not (chars & {46, 44, 59}):
                                safe = True
                    # a predicate applied inside a filter_map / then closure: look at every workspace predicate the family calls on the text
                    topk = x.key
                    while topk.rsplit("::{closure#", 1)[0] != gt7.key and "::{closure#" in topk:
                        topk = topk.rsplit("::{closure#", 1)[0]
                    preds = [prog.bodies[c.key] for y in prog.family(topk if topk in prog.bodies else x.key) for c in y.calls() if c.key in prog.bodies and prog.bodies[c.key].local_ty(0) == "bool"
                             and prog.bodies[c.key].file.endswith("sparql_database.rs")]
                    if preds and all((_char_consts(prog, pb) is not None and not (_char_consts(prog, pb) & {46, 44, 59})) for pb in preds):
                        safe = True
                    R.ob("C14-R7", "bare-template:%s:%d" % (x.name if not x.is_closure else "closure", ln or 0),
                         "generate_turtle writes a term through an undelimited format placeholder only after excluding `.`, `,` and `;`", safe, where=x.where(ln),
                         detail=None if safe else "the template writes its argument without <..> or quotes and the text may contain `.`, `,` or `;` "
                         "(e.g. `ex:report.pdf`): tokenize_turtle_star_line cuts it there on re-import")
        R.floor("C14-R7", "format templates in generate_turtle", ntm, 3)
    # ---- R8 the IRI guess needs a scheme
    R.rule("C14-R8", "what is written inside <...> has a scheme: the predicate that classifies a stored value as an absolute IRI (and so sends it to the "
                     "unescaped <...> form instead of the escaped literal form) tests that the part before the first `:` is not empty - a first "
                     "character is taken and examined (`next()` + `is_some_and` / match, `first()`, `!is_empty()`). A universally quantified test "
                     "alone (`all(..)`) is vacuously true for the empty scheme: the literal `:-> see section 2` is written as an IRI, unescaped")
    li = prog.one("sparql_database::looks_like_absolute_iri", crate="kolibrie")
    R.anchor("C14-R8", "looks_like_absolute_iri", li)
    if li is not None:
        fam = prog.family(li.key)
        names = [c.name() for x in fam for c in x.calls()]
        nonempty = any(n in ("is_some_and", "is_empty", "first", "split_first", "is_some", "map_or", "is_none_or") for n in names)
        if not nonempty:
            for x in fam:
                for c in x.calls():
                    if c.name() == "next" and c.dest is not None:
                        # the Option result is examined (switch on its discriminant / `?`)
                        for bb, t in x.terms():
                            if t["t"] == "switch":
                                d = G.describe_discr(x, t["discr"])
                                if d.get("kind") == "discr" and "Option" in (d.get("adt") or ""):
                                    nonempty = True
        R.ob("C14-R8", "scheme-not-empty", "looks_like_absolute_iri requires a first scheme character (calls: %s)" % sorted(set(names))[:8], nonempty, where=li.where(),
             detail=None if nonempty else "nothing tests that the scheme is non-empty: `all` over no characters is true, so a value that starts with `:` is classified as an IRI")
        users = [b for b in prog.bodies.values() if b.crate == "kolibrie" and any(c.key == li.key for c in b.calls())]
        R.floor("C14-R8", "callers of the IRI classifier", len(users), 1)
    # ---- R6 decode once
    R.rule("C14-R6", "a term is decoded once: what a loader's term cleaner returns (IRI without brackets, literal decoded to its lexical value) is "
                     "stored as it is - it is not handed to a function that interprets surface syntax again (encode_term_star, "
                     "resolve_query_term, a cleaner, trim); only a value that the same code has just tested to be a quoted triple (`<<`) may "
                     "go back through the surface-syntax encoder")
    _decode_once(R)
    # ---- R3
    for nm in ("clean_ntriples_term", "clean_turtle_term"):
        b = R.body("C14-R3", "SparqlDatabase::" + nm, crate="kolibrie")
        if b is None:
            continue
        uses = [c for c in b.calls() if c.name() == DEC]
        ok = bool(uses)
        R.ob("C14-R3", "decodes:" + nm, "%s decodes literal bodies with decode_ntriples_literal" % nm, ok, where=b.where(),
             detail=None if ok else "escaped literals written by the serializers are stored with their escapes on re-import")


def _it_root(x, op):
    o = x.origin(op, stop_named=True)
    return o[1]["l"] if o[0] == "place" else None


def _decode_once(R):
    prog = R.prog
    CLEAN = ("clean_ntriples_term", "clean_turtle_term")
    SURFACE = ("encode_term_star", "resolve_query_term", "clean_ntriples_term", "clean_turtle_term", "decode_ntriples_literal", "add_quad_parts",
               "trim", "trim_matches", "trim_start_matches", "trim_end_matches")
    # bodies that call a cleaner, and bodies that receive cleaned values from such a body's result (one hop: parse_*_line -> caller)
    producers = {}          # body key -> True if it returns cleaned values
    for b in prog.bodies.values():
        if b.crate == "kolibrie" and b.file.endswith("sparql_database.rs") and not b.is_closure and any(c.name() in CLEAN for c in b.calls()):
            T = Taint(prog, b)
            for x in prog.family(b.key):
                for c in x.calls():
                    if c.name() in CLEAN:
                        T.seed(x, c.dest["l"], "cleaned")
            T.run()
            producers[b.key] = "cleaned" in T.get(b, 0)
    returning = {k for k, v in producers.items() if v}
    # second hop: functions returning what a returning producer returned (parse_ntriples -> parse_and_encode_ntriples ...)
    for _ in range(3):
        for b in prog.bodies.values():
            if b.crate != "kolibrie" or not b.file.endswith("sparql_database.rs") or b.is_closure or b.key in returning:
                continue
            if not any(c.key in returning for x in prog.family(b.key) for c in x.calls()):
                continue
            T = Taint(prog, b)
            for x in prog.family(b.key):
                for c in x.calls():
                    if c.key in returning:
                        T.seed(x, c.dest["l"], "cleaned")
            T.run()
            if "cleaned" in T.get(b, 0):
                returning.add(b.key)
    nsite = 0
    for b in sorted(prog.bodies.values(), key=lambda x: x.key):
        if b.crate != "kolibrie" or not b.file.endswith("sparql_database.rs") or b.is_closure or "::tests::" in b.key:
            continue
        fam = prog.family(b.key)
        srcs = [(x, c) for x in fam for c in x.calls() if c.name() in CLEAN or c.key in returning]
        # parameters that receive cleaned values (encode_triples(non_encoded_triples))
        param_src = []
        if b.name == "encode_triples":
            param_src = [2]
        if not srcs and not param_src:
            continue
        R.saw(b)
        T = Taint(prog, b)
        for x, c in srcs:
            T.seed(x, c.dest["l"], "cleaned")
        for i in param_src:
            T.seed(b, i, "cleaned")
        T.run()
        seen_keys = set()
        for x in fam:
            for c in x.calls():
                if c.name() not in SURFACE or not c.args:
                    continue
                if c.name() in CLEAN and x.key in producers and c in [cc for xx, cc in srcs]:
                    pass
                args = c.args[1:] if c.name() in ("encode_term_star", "resolve_query_term", "clean_ntriples_term", "add_quad_parts") and len(c.args) > 1 else c.args[:1]
                tainted = [a for a in args if "cleaned" in T.op_taint(x, a)]
                if not tainted:
                    continue
                # a cleaner applied to a raw token is the source itself, not a re-parse: its argument must be tainted by an EARLIER cleaning
                if c.name() in CLEAN:
                    continue
                # guarded by `<that value>.starts_with("<<")`?
                guarded = True
                for a in tainted:
                    root = x.origin(a, stop_named=True)
                    rl = root[1]["l"] if root[0] == "place" else None
                    g = False
                    for cd in G.conditions(x, c.bb):
                        if cd.get("kind") == "call" and cd["call"].name() == "starts_with" and cd.get("truth") is True and len(cd["call"].args) >= 2:
                            lit = const_text(cd["call"].args[1])
                            ro = x.origin(cd["call"].args[0], stop_named=True)
                            if lit == "<<" and ro[0] == "place" and ro[1]["l"] == rl:
                                g = True
                    guarded = guarded and g
                if not guarded and c.name() == "resolve_query_term":
                    # names are resolved, literals are not: fine when the call is reached only for a token that does not start with a quote
                    for cd in G.conditions(x, c.bb):
                        if cd.get("kind") == "call" and cd["call"].name() == "starts_with" and cd.get("truth") is False and len(cd["call"].args) >= 2:
                            a1 = cd["call"].args[1]
                            if const_text(a1) == '"' or str(a1.get("v", "")) == "34" or "'\"'" in str(a1.get("d", "")):
                                guarded = True
                if guarded:
                    continue
                nsite += 1
                key = "%s:%s" % (b.name, c.name())
                if key in seen_keys:
                    continue
                seen_keys.add(key)
                R.ob("C14-R6", "reparse:" + key, "%s does not pass an already cleaned term to %s" % (b.name, c.name()), False, where=x.where(c.ln),
                     detail="the lexical value is interpreted as surface syntax a second time: surrounding blanks are trimmed, a value that starts with a quote "
                     "loses it, `<...>` loses its brackets, `prefix:` is expanded - a literal such as `  padded  ` or a single `\"` does not survive export and re-import")
    R.ob("C14-R6", "scanned", "loader bodies scanned for re-interpretation of cleaned terms (%d flagged call sites)" % nsite, True)


def _bare_sources(x, op, site, depth=0, seen=None):
    """calls at which a stored term's text is taken over unwrapped on its way into a push_str: [] when the pushed text is a constant or
    comes from format!/the escaper; the clone / push_str call otherwise"""
    seen = seen if seen is not None else set()
    if depth > 12:
        return []
    if op.get("k") == "const":
        return []
    pl = F.op_place(op)
    if pl is None:
        return []
    l = pl["l"]
    if (l, id(site)) in seen:
        return []
    seen.add((l, id(site)))
    out = []
    ds = x.defs().get(l, [])
    if not ds:
        return []
    for d in ds:
        if d[0] == "arg":
            continue
        if d[0] == "call":
            c = d[2]
            nm = c.name()
            if nm in ("format", "escape_ntriples_literal", "to_string", "new", "from"):
                if nm in ("to_string", "from") and c.args:
                    out.extend(_bare_sources(x, c.args[0], site, depth + 1, seen))
                continue
            if nm in ("deref", "as_str", "borrow", "as_ref") and c.args:
                out.extend(_bare_sources(x, c.args[0], site, depth + 1, seen))
                continue
            if nm == "clone" and c.args:
                # clone of a term value: bare at the clone site (the condition that chose it dominates the clone)
                out.append(c)
                continue
            if nm in ("next", "iter", "into_iter", "enumerate", "decode_any", "unwrap_or_default", "get", "entry", "or_default", "keys", "values"):
                out.append(site)
                continue
            continue
        if d[0] in ("assign", "partial"):
            rv = d[3]
            if rv["rv"] in ("use", "ref", "cast"):
                for p2, k2 in F.rv_places(rv):
                    if [e for e in p2["p"] if e["k"] == "field"]:
                        out.append(site)        # a component of the iterated (subject, predicates) / objects item: the term itself
                    else:
                        out.extend(_bare_sources(x, {"k": "copy", "pl": p2}, site, depth + 1, seen))
                if rv["rv"] == "use" and rv["op"].get("k") == "const":
                    pass
    return out


def case_preserved(R, rid):
    """the term cleaners store terms in the letter case of the document"""
    prog = R.prog
    R.rule(rid, "terms are stored as written: no term cleaner of the text loaders (clean_ntriples_term, clean_turtle_term and what they call in this crate) "
                "maps letter case (`to_lowercase`, `to_ascii_lowercase`, `to_uppercase`, `make_ascii_*case`, ..). A language tag, a prefix label or a "
                "scheme that is case-insensitive *for comparison* is still part of the lexical term: folded on import, `meet me @HQ` - a plain literal the "
                "writer may spell `\"meet me \"@HQ` - comes back as `meet me @hq`, and `\"chat\"@FR` no longer equals what the N-Triples line said")
    CASE = ("to_lowercase", "to_uppercase", "to_ascii_lowercase", "to_ascii_uppercase", "make_ascii_lowercase", "make_ascii_uppercase", "to_lower", "to_upper")
    n = 0
    for nm in ("clean_ntriples_term", "clean_turtle_term"):
        b = prog.one("SparqlDatabase::" + nm, crate="kolibrie")
        if not R.anchor(rid, nm, b):
            continue
        n += 1
        R.saw(b)
        reach = [prog.bodies[k] for k in prog.reachable([b.key]) if k in prog.bodies and prog.bodies[k].crate == "kolibrie"]
        bad = sorted({"%s in %s" % (c.name(), y.name) for y in reach for x in prog.family(y.key) for c in x.calls() if c.name() in CASE})
        R.ob(rid, "case:" + nm, "%s keeps the letter case of the term it cleans (case mappings on the way: %s)" % (nm, bad), not bad, where=b.where())
    R.floor(rid, "term cleaners", n, 2)

"""C17 — query entry points cannot modify data; string entry points fail cleanly (structural clauses)."""
from lib import facts as F
from lib import guards as G
from lib import dbsinks

ENTRIES = ["execute_query::execute_sparql_query", "SparqlDatabase::handle_http_sparql_query"]


def verified_select_only_edges(prog):
    """call edges (caller key, callee key) where the callee executes request text that the caller has already parsed
    successfully with the SELECT-only parser (same text value), so the callee's update arm is dead in that context"""
    out = set()
    ps = prog.one("parser::parse_sparql_query", crate="kolibrie")
    if ps is None:
        return out
    for b in prog.bodies.values():
        if b.crate != "kolibrie":
            continue
        pcs = [c for c in b.calls() if c.key == ps.key]
        if not pcs:
            continue
        for c in b.calls():
            cb = prog.bodies.get(c.key)
            if cb is None or c.key == ps.key or not c.args:
                continue
            # callee takes the request text as first parameter (&str)
            if not cb.arg_tys() or not cb.arg_tys()[0].startswith("&") or "str" not in cb.arg_tys()[0]:
                continue
            troot = b.alias_root(c.args[0])
            for pc in pcs:
                if b.alias_root(pc.args[0]) != troot or troot is None:
                    continue
                # c must be dominated by the success edge of the parse
                ok_t = _ok_edge(b, pc)
                if ok_t is not None and (b.dominates(ok_t, c.bb)):
                    out.add((b.key, c.key))
    return out


def _ok_edge(b, c):
    """block entered when call c returned Ok (through `?` or a match)"""
    locs = {c.dest["l"]}
    for _ in range(4):
        for x in b.calls():
            if x.args and F.op_local(x.args[0]) in locs and x.name() in ("branch", "map_err", "map") and not x.dest["p"]:
                locs.add(x.dest["l"])
    for bb, t in b.terms():
        if t["t"] != "switch":
            continue
        for tgt, cnd in G.edge_conditions(b, bb):
            if cnd["kind"] == "variant" and cnd["pl"]["l"] in locs and not cnd["pl"]["p"] and cnd.get("variant") in ("Ok", "Continue"):
                return tgt
    return None


def text_passthrough(prog, caller, callee_key):
    """caller passes its own first parameter (the request text) unchanged as the callee's first argument"""
    for c in caller.calls():
        if c.key == callee_key and c.args and caller.alias_root(c.args[0]) == 1:
            return True
    return False


def reach_with_context(prog, entries, select_edges):
    """reachability over (node, mode). mode 'sel' = the request text is known to be a SELECT. In mode 'sel' the text
    pass-through chain keeps the mode and edges into update execution are pruned."""
    cg = prog.callgraph()
    upd = {b.key for b in prog.bodies.values() if b.crate == "kolibrie" and b.name in ("execute_update_operation", "execute_modify")}
    seen = {}
    work = [(e, "normal", None) for e in entries]
    while work:
        k, mode, pred = work.pop()
        if (k, mode) in seen:
            continue
        seen[(k, mode)] = pred
        b = prog.bodies.get(k)
        for v in sorted(cg.get(k, ())):
            if mode == "sel" and v in upd:
                continue                      # pruned: the text is a SELECT
            nmode = "normal"
            if (k, v) in select_edges:
                nmode = "sel"
            elif mode == "sel" and b is not None and text_passthrough(prog, b, v):
                nmode = "sel"
            work.append((v, nmode, (k, mode)))
    return seen


def r2(R):
    """clean failure of the string entry points: the certificate analysis of C16 over the text-facing layer"""
    import c16
    prog = R.prog
    R.rule("C17-R2", "clean failure: every panic-capable string/slice/unwrap construct of the text-facing layer (parser, error "
                     "rendering, request execution, plan lowering, filter types) reachable from the string entry points carries a "
                     "certificate or an audited lemma")
    ents = []
    for e in ("execute_query::execute_sparql_query", "execute_query::execute_sparql_update", "SparqlDatabase::execute_update"):
        b = R.body("C17-R2", e, crate="kolibrie")
        if b is not None:
            ents.append(b)
    if not ents:
        return
    files = ("kolibrie/src/parser.rs", "kolibrie/src/error_handler.rs", "kolibrie/src/execute_query.rs",
             "kolibrie/src/streamertail_optimizer/utils.rs", "kolibrie/src/streamertail_optimizer/types.rs")
    bodies = c16.scope_bodies(prog, ents, files)
    R.floor("C17-R2", "text-layer bodies reachable from the string entry points", len(bodies), 200)
    c16.certify(R, prog, bodies, "C17-R2")


def run(R):
    r1(R)
    r2(R)
    r3(R)
    r4(R)
    r5(R)


def r4(R):
    """estimates saturate, so whatever combines them must saturate too"""
    from lib.taint import Taint
    prog = R.prog
    R.rule("C17-R4", "planning arithmetic cannot panic: the cost estimator's cardinality estimates are products that saturate at u64::MAX (a few "
                     "unconnected patterns over a few thousand triples are enough), so every `+` / `*` / `sum` / `product` that combines values "
                     "returned by the estimator's u64 functions - in the estimator and in whatever reachable code consumes them - is a "
                     "saturating (or checked-and-handled) operation. The project's dev and test profiles set overflow-checks, where an "
                     "unchecked `+` on a saturated estimate panics inside execute_sparql_query for a request whose answer is empty")
    ents = []
    for e in ("execute_query::execute_sparql_query", "execute_query::execute_sparql_update", "execute_query::execute_query_rayon_parallel2_volcano"):
        b = prog.one(e, crate="kolibrie")
        if b is not None:
            ents.append(b.key)
    reach = prog.reachable(ents)
    est = {k for k, b in prog.bodies.items() if b.crate == "kolibrie" and b.file.endswith("cost/estimator.rs") and not b.is_closure
           and b.local_ty(0) == "u64" and k in reach}
    R.floor("C17-R4", "u64-valued estimator functions reachable from the string entry points", len(est), 6)
    if not est:
        return
    roots = set()
    for k in reach:
        b = prog.bodies.get(k)
        if b is None or b.crate != "kolibrie":
            continue
        fam = prog.family(b.root if b.is_closure else k)
        if any(c.key in est for x in fam for c in x.calls()) or (k in est):
            roots.add(b.root if b.is_closure else k)
    nsites = 0
    nops = 0
    for rk in sorted(roots):
        root = prog.bodies[rk]
        fam = prog.family(rk)
        T = Taint(prog, root)
        for x in fam:
            for c in x.calls():
                if c.key in est and c.dest is not None:
                    T.seed(x, c.dest["l"], "estimate")
        if rk in est or root.file.endswith("cost/estimator.rs"):
            for i, t in enumerate(root.arg_tys()):
                if t == "u64":
                    T.seed(root, i + 1, "estimate")
        T.run()
        calls_src = any(c.key in est for x in fam for c in x.calls())
        for x in fam:
            for bb, i, pl, rv, st in x.assigns():
                if rv["rv"] in ("binop", "checked_binop") and rv["op"] in ("AddWithOverflow", "MulWithOverflow") and x.local_ty(pl["l"]).startswith("(u64"):
                    nops += 1
                    ta = T.op_taint(x, rv["a"]) or T.op_taint(x, rv["b"])
                    if ta:
                        nsites += 1
                        ln = st.get("ln") if isinstance(st, dict) else None
                        R.ob("C17-R4", "%s:%s@%s" % (root.name.split("::")[-1], rv["op"][:3].lower(), _opdesc(x, rv)),
                             "%s combines estimates with a saturating operation" % root.name, False, where=x.where(ln),
                             detail="`%s` on a value that comes from the estimator (%s): with overflow-checks (the project's dev/test profile) a saturated "
                                    "estimate makes this panic; in release it wraps to a small cost" % ("+" if rv["op"].startswith("Add") else "*", _opdesc(x, rv)))
            for c in x.calls():
                if c.name() in ("sum", "product") and c.dest is not None and x.local_ty(c.dest["l"]) == "u64":
                    nops += 1
                    tainted = bool(c.args and T.op_taint(x, c.args[0])) or _iter_closure_calls(prog, x, c, est)
                    if tainted:
                        nsites += 1
                        R.ob("C17-R4", "%s:%s" % (root.name.split("::")[-1], c.name()), "%s combines estimates with a saturating operation" % root.name,
                             False, where=x.where(c.ln), detail="`Iterator::%s` over estimates panics on overflow under overflow-checks" % c.name())
        R.ob("C17-R4", "scanned:" + root.name.split("::")[-1], "%s: every operation on an estimate saturates" % root.name,
             True, where=root.where())
    R.ob("C17-R4", "summary", "functions that consume estimates: %d; unchecked u64 additions/multiplications/sums seen in them: %d, on estimates: %d"
         % (len(roots), nops, nsites), nsites == 0)


def _opdesc(x, rv):
    def nm(o, depth=0):
        pl = F.op_place(o)
        if pl is None:
            return str(o.get("d") or o.get("v") or "const").split("::")[-1]
        n = x.local_name(pl["l"])
        if n:
            return n
        ds = x.defs().get(pl["l"], [])
        if len(ds) == 1 and depth < 3:
            d = ds[0]
            if d[0] == "call":
                return d[2].name() + "()"
            if d[0] == "assign":
                rv2 = d[3]
                if rv2["rv"] in ("binop", "checked_binop"):
                    return "(%s%s%s)" % (nm(rv2["a"], depth + 1), {"Add": "+", "Mul": "*", "Sub": "-", "Div": "/"}.get(rv2["op"][:3], rv2["op"]), nm(rv2["b"], depth + 1))
                if rv2["rv"] in ("use", "cast"):
                    return nm(rv2["op"], depth + 1)
        return "tmp"
    return "%s,%s" % (nm(rv["a"]), nm(rv["b"]))


def _iter_closure_calls(prog, x, c, est):
    """the iterator summed is a map whose closure calls an estimator function"""
    from lib import pipeline as P
    if not c.args:
        return False
    t = P.tree(x, c.args[0], stop_named=False)
    names, roots = P.flat(t)
    for cl in prog.closures_of(x.key, recursive=False):
        if any(ic.key in est for y in prog.family(cl.key) for ic in y.calls()):
            # the closure feeds this pipeline if it is an argument of one of its adaptors
            for c2 in x.calls():
                if c2.name() in names and any(P._closure_calls(prog, x, a)[0] == cl.key for a in c2.args):
                    return True
    return False


def r3(R):
    """plans are walked recursively (optimizer, executor, Drop): the lowering from the syntax tree bounds how deep it chains them"""
    from lib import depth as D
    prog = R.prog
    R.rule("C17-R3", "no request text can make the engine build a plan deeper than it can walk: in the functions that lower a parsed request "
                     "(a parameter of a shared::query tree type) and are reachable from the string entry points, every loop that wraps the plan "
                     "accumulator into a new operator each turn (`plan = join(plan, next)`, `plan = selection(plan, ..)`) charges a depth budget "
                     "in that turn - a function that advances a counter, compares it with a constant and returns Err - before the wrap. The "
                     "optimizer and the executor recurse once per chained operator, so without it a request with a few thousand FILTERs or "
                     "patterns overflows the stack and aborts the process instead of returning an error")
    ents = []
    for e in ("execute_query::execute_sparql_query", "execute_query::execute_sparql_update", "execute_query::execute_query_rayon_parallel2_volcano"):
        b = prog.one(e, crate="kolibrie")
        R.anchor("C17-R3", e, b)
        if b is not None:
            ents.append(b.key)
    if not ents:
        return
    rec = D.recursive_adts(prog)
    budgets = D.persistent(prog, D.charging_fns(prog))
    reach = prog.reachable(ents)
    n = 0
    for k in sorted(reach):
        b = prog.bodies.get(k)
        if b is None or b.crate != "kolibrie" or b.file.endswith("parser.rs"):
            continue
        root = prog.bodies.get(b.root, b) if b.is_closure else b
        if not any("shared::query::" in t for t in root.arg_tys()):
            continue
        for h, blocks, l, nm, bb, how in D.deepening_loops(b, rec):
            n += 1
            c = D.loop_charged(b, h, blocks, bb, budgets)
            R.ob("C17-R3", "%s:%s@%s" % (b.name.split("::")[-1], nm, how), "the loop of %s that chains `%s` (%s, by %s) charges the depth budget each turn"
                 % (b.name, nm, D._base(b.local_ty(l)).split("::")[-1], how), c is not None, where=b.where(),
                 detail=None if c is not None else "each turn wraps `%s` into a new operator and nothing bounds the number of turns: the plan is as deep "
                 "as the request is long, and the recursive optimizer overflows the stack" % nm)
    R.floor("C17-R3", "plan-chaining loops in the lowering", n, 3)


def r1(R):
    prog = R.prog
    R.rule("C17-R1", "mutation unreachability: from the query-only entry points no body that mutably projects the stored "
                     "dataset_index is reachable (context cut: text already accepted by the SELECT-only parser cannot take an update arm); "
                     "the Update arm of the query entry refuses without touching the database")
    ents = []
    for e in ENTRIES:
        b = R.body("C17-R1", e, crate="kolibrie")
        if b is not None:
            ents.append(b)
    sk = dbsinks.sinks(prog)
    R.floor("C17-R1", "dataset mutator bodies (by role)", len(sk), 6)
    sel = verified_select_only_edges(prog)
    R.ob("C17-R1", "select-only-cuts", "verified SELECT-only call edges: %s" % sorted((a.rsplit("::", 1)[-1], b.rsplit("::", 1)[-1]) for a, b in sel), True)
    seen = reach_with_context(prog, [e.key for e in ents], sel)
    nodes = {k for k, m in seen}
    R.floor("C17-R1", "bodies reachable from the query entry points", len(nodes), 400)
    R.analysed["paths"] = len(seen)
    cg = prog.callgraph()
    n = 0
    for (k, mode), pred in sorted(seen.items(), key=lambda x: (x[0][0], x[0][1])):
        for s in sorted(cg.get(k, ())):
            if s in sk:
                if mode == "sel" and k in {b.key for b in prog.bodies.values() if b.name in ("execute_update_operation", "execute_modify")}:
                    continue
                n += 1
                kb, sb = prog.bodies[k], prog.bodies[s]
                # reconstruct one call chain for the report
                chain = [s, k]
                cur = pred
                while cur is not None:
                    chain.append(cur[0])
                    cur = seen.get(cur)
                chain.reverse()
                R.ob("C17-R1", "sink-call:%s->%s" % (kb.short, sb.short), "the dataset mutator %s is not callable from a query-only entry point "
                     "(called by %s)" % (sb.short, kb.short), False, where=kb.where(),
                     detail="call chain: " + " > ".join(x.rsplit("::", 1)[-1] for x in chain[-9:]))
    R.ob("C17-R1", "scanned", "sink call sites reachable from the query entry points: %d" % n, True)
    # the Update arm refuses before touching the database
    q = ents[0] if ents else None
    if q is not None and q.name == "execute_sparql_query":
        dbp = None
        for i in range(1, q.nargs + 1):
            if "SparqlDatabase" in q.local_ty(i):
                dbp = i
        found = False
        for bb, t in q.terms():
            if t["t"] != "switch":
                continue
            for tgt, c in G.edge_conditions(q, bb):
                if c["kind"] == "variant" and (c.get("adt") or "").endswith("SparqlOperation") and c.get("variant") == "Update":
                    found = True
                    region = {k for k in q.reachable_blocks() if q.dominates(tgt, k)} if q.pred(tgt) == [bb] else {tgt}
                    uses_db = [x for x in q.calls() if x.bb in region and any(q.alias_root(a) == dbp for a in x.args if F.op_place(a) is not None)]
                    errs = [b2 for b2, i, pl, rv, s in q.assigns() if b2 in region and pl["l"] == 0 and rv["rv"] == "aggregate" and rv.get("variant") == "Err"]
                    R.ob("C17-R1", "update-arm-refuses", "the Update arm of execute_sparql_query returns Err without passing the database to any call",
                         bool(errs) and not uses_db, where=q.where())
        R.ob("C17-R1", "update-arm", "execute_sparql_query distinguishes the Update operation", found, where=q.where())
        # nothing touches the database before the operation kind is known: every call receiving the database is dominated by the dispatch
        disp = []
        for bb, t in q.terms():
            if t["t"] != "switch":
                continue
            for tgt, c in G.edge_conditions(q, bb):
                if c["kind"] == "variant" and "SparqlOperation" in q.local_ty(c["pl"]["l"]):
                    disp.append(bb)
                    break
        for x in q.calls():
            if any(q.alias_root(a) == dbp for a in x.args if F.op_place(a) is not None):
                ok = any(q.dominates(d, x.bb) for d in disp)
                R.ob("C17-R1", "db-after-dispatch:" + (x.name() or "?"), "execute_sparql_query hands the database to %s only after the operation kind is checked"
                     % x.name(), ok, where=q.where(x.ln))
    # the HTTP adapter goes through the query-only entry
    h = ents[1] if len(ents) > 1 else None
    if h is not None:
        callees = {c.key for c in h.calls() if c.key in prog.bodies and prog.bodies[c.key].crate == "kolibrie"}
        exec_like = [prog.bodies[k].name for k in callees if prog.bodies[k].file.endswith("execute_query.rs")]
        R.ob("C17-R1", "http-uses-query-entry", "handle_http_sparql_query executes requests only through execute_sparql_query (calls %s)" % exec_like,
             exec_like == ["execute_sparql_query"], where=h.where())


def r5(R):
    """allocation sizes do not come from the request text"""
    from lib.taint import Taint
    prog = R.prog
    R.rule("C17-R5", "the request does not size allocations: a number parsed from the request (LIMIT, OFFSET of a query or sub-select) never reaches "
                     "the size argument of an allocating call (`with_capacity`, `reserve*`, `resize*`, `vec![x; n]`, `repeat`, `split_off`) unless it was "
                     "clamped by `min` against something the engine holds. `LIMIT 18446744073709551615` is a valid request; a buffer of that "
                     "capacity panics with `capacity overflow` (or aborts the process) instead of returning rows or an error")
    SINKS = {"with_capacity": 0, "with_capacity_and_hasher": 0, "with_capacity_in": 0, "reserve": 1, "reserve_exact": 1, "try_reserve": None, "resize": 1,
             "resize_with": 1, "from_elem": 1, "repeat": 1, "extend_from_within": None, "split_off": 1, "rotate_left": 1, "rotate_right": 1}
    nsrc = nsink = 0
    roots = [b for b in prog.bodies.values() if b.crate == "kolibrie" and not b.is_closure and "::tests::" not in b.key]
    for b in sorted(roots, key=lambda x: x.key):
        fam = prog.family(b.key)
        srcs = []
        for x in fam:
            for bb, i, pl, rv, st in x.assigns():
                for pp, kind in F.rv_places(rv):
                    for e in pp["p"]:
                        if e["k"] == "field" and e.get("n") in ("limit", "offset") and (e.get("adt") or "").startswith("shared::query::"):
                            srcs.append((x, pl["l"]))
        if not srcs:
            continue
        nsrc += len(srcs)
        T = Taint(prog, b, summaries=lambda c: "clean" if c.name() in ("min", "clamp") else None)
        for x, l in srcs:
            T.seed(x, l, "request-number")
        T.run()
        for x in fam:
            for c in x.calls():
                idx = SINKS.get(c.name(), -1)
                if idx == -1 or idx is None or idx >= len(c.args):
                    continue
                nsink += 1
                bad = "request-number" in T.op_taint(x, c.args[idx])
                if bad:
                    R.saw(x)
                    R.ob("C17-R5", "alloc:%s:%s" % (x.short, c.name()), "the size handed to `%s` in %s does not come from the request" % (c.name(), x.short), False, where=x.where(c.ln),
                         detail="a LIMIT / OFFSET value of the request flows into the capacity without a `min` against the data at hand")
    R.ob("C17-R5", "scanned", "bodies that read a LIMIT / OFFSET of the request: %d reads; allocation-size sites next to them: %d" % (nsrc, nsink), nsrc >= 1, where=None)
